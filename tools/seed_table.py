#!/usr/bin/env python3
"""Render the round-2/3 rows of DESIGN.md §10 from seeded/*/meta.json, seeded/first_results.json
and seeded/matrix.jsonl (written by tools/seed_matrix.sh). Prints markdown."""
import json, os, re, sys
root='/verif/seeded'
fr=json.load(open(f'{root}/first_results.json'))
mat={}
for l in open(f'{root}/matrix.jsonl'):
    d=json.loads(l); mat.setdefault(d['seed'],[]).append(d)
def short(t,n=170):
    t=' '.join(t.split()); return t if len(t)<=n else t[:n-1]+'…'
rows=[]
for n in sorted(os.listdir(root)):
    m=re.match(r'^(C\d\d)-(\d+)$',n)
    if not m or int(m.group(2))<3: continue
    meta=json.load(open(f'{root}/{n}/meta.json'))
    title=short(meta.get('title',''))
    first=fr['first'].get(n,'(not run before the current check)')
    res=mat.get(n,[])
    now='not run'; key=''
    for r in res:
        if r['exit']==1 and r['violations']>0:
            now='caught' if first.startswith('caught') else '**caught**'
            key=f"{r['property']} `{short(r['first_keys'][0],110)}`" if r['first_keys'] else r['property']
            break
    else:
        if res: now='MISSED'
    if now=='MISSED' and n in fr.get('not_caught',{}): key='**not caught** – '+fr['not_caught'][n]
    why=fr['strengthening'].get(n,'')
    if why: key += f" – after adding: {why}"
    rows.append(f"| {n} | {title} | {first} | {now} | {key} |")
print("| seed | what it changes | first | now | caught by (first key) |\n|---|---|---|---|---|")
print("\n".join(rows))
