#!/usr/bin/env bash
# coverage.sh - how much of rustrtc the quick tier of all checks (except C20's Miri part) executes.
# Not part of any verdict. Builds an instrumented copy of the monitor binary with the nightly
# toolchain (-Cinstrument-coverage) in a scratch target dir, runs every quick check against it
# and prints llvm-cov's per-file report for /repo/src. Scratch: /tmp/verif_cov (removed at the end).
set -u
S=/tmp/verif_cov; rm -rf $S; mkdir -p $S/prof $S/root
T=$(dirname $(rustc +nightly --print target-libdir))/bin
cp /verif/known_findings.json $S/root/
cd /verif/harness || exit 2
CARGO_TARGET_DIR=$S/target CARGO_INCREMENTAL=0 RUSTFLAGS="-Cinstrument-coverage --cfg rustrtc_verif --check-cfg cfg(rustrtc_verif)" \
  cargo +nightly build --offline >/dev/null 2>&1 || { echo "build failed"; exit 2; }
for id in C01 C02 C03 C04 C05 C06 C07 C08 C09 C10 C11 C12 C13 C14 C15 C16 C17 C18 C19; do
  VERIF_ROOT=$S/root LLVM_PROFILE_FILE=$S/prof/%p-%m.profraw $S/target/debug/rtcmon $id --tier quick --seed ${VERIF_SEED:-1} >/dev/null 2>&1 &
done
wait
$T/llvm-profdata merge -sparse $S/prof/*.profraw -o $S/all.profdata
$T/llvm-cov report $S/target/debug/rtcmon -instr-profile=$S/all.profdata --ignore-filename-regex='(registry|rustc|/verif/)'
rm -rf $S
