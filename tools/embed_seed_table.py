#!/usr/bin/env python3
"""Embed the round-2/3 table (tools/seed_table.py) into DESIGN.md §10 between two markers."""
import subprocess,re
p='/verif/DESIGN.md'
s=open(p).read()
table=subprocess.run(['python3','/verif/tools/seed_table.py'],capture_output=True,text=True).stdout
begin='<!-- SEED-TABLE-R23-BEGIN -->'; end='<!-- SEED-TABLE-R23-END -->'
intro='''### Rounds 2 and 3

Two further rounds asked fresh sub-agents for changes that *need something specific to manifest*
(a particular interleaving, a fault at a particular point, a long multi-step history, a boundary
value, an unusual but legal input, two cooperating sites) and told them which mechanisms earlier
rounds had already used. Seeds `<ID>-3/-4` are round 2, `<ID>-5/-6` round 3, `<ID>-7/-8` round 4. Every seed was
re-confirmed with `tools/verify_seed.sh` (`verify.json` next to the patch). "first" is the result of
the quick check as it was when the change arrived (`seeded/first_results.json`); "now" and the key
come from `tools/seed_matrix.sh`, which applies every seed to `/repo`, runs the quick check of its
property and restores the tree (`seeded/matrix.jsonl`; the last full pass ran after the last engine
change). Where a seed was missed, the column on the right names the workload or clause that was
added; each of them is described in §8.1.

'''
notes='''
Notes. {NROWS} seed × check runs; {NCAUGHT} report a violation of the seeded change (C12-1 only through
C01's progress clause, as the rows say; C03-7 was at first reported only by C11's readability clause and
is now also caught by C03's own send clause, see §8.1); C12-7 is not caught. The `-7` seeds for
C02 C04 C05 C08 C09 C11 C13 C14 C15 C18 C19 C20 come from a last wave of fresh sub-agents (one change each, same
instructions); they were checked one per private lane with `tools/seed_lane.sh` (scratch worktree of
`/repo` plus a copy of the harness, so `/repo` itself is untouched) while sixteen builds shared the
machine (load > 150), and all of them were caught by the quick check as it stood, without any change
to the engines. In their `verify.json` the suite line shows `interop_datachannel_stress_test` failing
next to the known failure: that test has a 30 s wall-clock deadline and timed out under that load in
every lane, whatever the change; it was re-run alone with each change applied (`stress_test_rerun` in
`verify.json`) and passes.
Two detections are sensitive to circumstances: C10-5 (two writers must interleave on one ICE-TCP
stream) was missed once when five matrix lanes and a quick sweep shared the machine and is caught when
run alone; C13-6 was caught in about half of the runs until the `tsnwrap-bulk` scenarios were added
(now 3 of 3 seeds). Under C12-8 the full quick tier of C12 first needed more than 40 minutes: a
branch of the supervision loop (`continue` while waiting for the wire to go quiet on associations with
partially reliable channels) bypassed the per-scenario watchdog, and the never-acknowledged DCEP OPEN
kept the wire busy. The watchdog is now evaluated first in every iteration; the run takes 67 s.
'''
import json as _j
_rows=[_j.loads(l) for l in open('/verif/seeded/matrix.jsonl')]
notes=notes.replace('{NROWS}',str(len(_rows))).replace('{NCAUGHT}',str(sum(1 for r in _rows if r['exit']==1 and r['violations']>0)))
block=begin+'\n'+intro+table+notes+'\n'+end
if begin in s:
    s=re.sub(re.escape(begin)+r'.*?'+re.escape(end),lambda m:block,s,flags=re.S)
else:
    anchor='Before the independent seeds, every builder also ran'
    i=s.index(anchor)
    s=s[:i]+block+'\n\n'+s[i:]
open(p,'w').write(s)
print('embedded',table.count('\n'),'rows')
