#!/usr/bin/env bash
# seed_lane.sh <name e.g. C04-7> <patch.diff> <PID> - runs ./check <PID> --tier quick against ONE seeded
# change in a private lane (scratch worktree of /repo main + copy of /verif/harness under /tmp/lane_<name>,
# removed at the end), so several seeds can be checked at once and /repo itself is not touched.
# Prints one JSON line (same shape as seeded/matrix.jsonl rows).
set -u
n="$1"; patch="$2"; p="$3"
L=/tmp/lane_$n; rm -rf $L; mkdir -p $L
git -C /repo worktree add --detach $L/repo main >/dev/null 2>&1 || { echo "{\"seed\":\"$n\",\"property\":\"$p\",\"exit\":-4}"; exit 2; }
rsync -a --exclude target --exclude .git --exclude replays --exclude evidence --exclude seeded /verif/ $L/verif/
mkdir -p $L/verif/evidence $L/verif/replays
sed -i "s#path = \"/repo\"#path = \"$L/repo\"#" $L/verif/harness/Cargo.toml $L/verif/harness/miri/Cargo.toml
t0=$(date +%s)
if ( cd $L/repo && { git apply --whitespace=nowarn $patch 2>/dev/null || git apply --3way --whitespace=nowarn $patch 2>/dev/null; } ); then
  ( cd $L/verif && VERIF_ROOT=$L/verif timeout 2400 ./check $p --tier quick 2>&1 | grep -E "^VIOLATION|^  key=|^SUMMARY|BROKEN" | cut -c1-300 | head -40 ) > $L/out.txt
  t1=$(date +%s)
  python3 - "$n" "$p" "$L/out.txt" $((t1-t0)) <<'PY'
import sys,re,json
n,p,f,w=sys.argv[1:5]
txt=open(f,errors='replace').read()
keys=re.findall(r'^\s+key=(.*)$',txt,re.M)
viol=len(re.findall(r'^VIOLATION property=',txt,re.M))
sm=re.search(r'^SUMMARY .*exit=(\d+)',txt,re.M)
code=int(sm.group(1)) if sm else (1 if viol else -1)
print(json.dumps({"seed":n,"property":p,"exit":code,"violations":viol,"first_keys":sorted(set(keys))[:4],"broken_run":'BROKEN' in txt,"wall_s":int(w)}))
PY
else
  echo "{\"seed\":\"$n\",\"property\":\"$p\",\"exit\":-3,\"violations\":0,\"first_keys\":[],\"broken_run\":false,\"wall_s\":0}"
fi
git -C /repo worktree remove --force $L/repo >/dev/null 2>&1
rm -rf $L
