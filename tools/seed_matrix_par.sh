#!/usr/bin/env bash
# seed_matrix_par.sh [LANES]  - like seed_matrix.sh for ALL seeds, but in LANES parallel lanes, each with
# its own scratch worktree of /repo (main) and its own copy of /verif/harness under /tmp/mx (removed at
# the end). Writes /verif/seeded/matrix.jsonl. /repo's working tree is not touched.
set -u
LANES=${1:-4}
MX=/tmp/mx; rm -rf $MX; mkdir -p $MX
names=($(ls /verif/seeded | grep -E '^C[0-9]{2}-[0-9]+$' | sort))
for k in $(seq 1 $LANES); do
  L=$MX/L$k; mkdir -p $L
  git -C /repo worktree add --detach $L/repo main >/dev/null 2>&1
  rsync -a --exclude target --exclude .git --exclude replays --exclude evidence /verif/ $L/verif/
  sed -i "s#path = \"/repo\"#path = \"$L/repo\"#" $L/verif/harness/Cargo.toml $L/verif/harness/miri/Cargo.toml
done
lane() {
  k=$1; L=$MX/L$k; out=$MX/out_$k.jsonl; : > $out
  i=0
  for n in "${names[@]}"; do
    i=$((i+1)); [ $(( (i-1) % LANES + 1 )) -eq $k ] || continue
    d=/verif/seeded/$n; patch=$d/patch.diff; [ -f $d/patch_adapted.diff ] && patch=$d/patch_adapted.diff
    props=${n%%-*}; [ "$n" = C12-1 ] && props="C12 C01"; [ "$n" = C03-7 ] && props="C03 C11"
    for p in $props; do
      t0=$(date +%s)
      ( cd $L/repo && { git apply --whitespace=nowarn $patch 2>/dev/null || git apply --3way --whitespace=nowarn $patch 2>/dev/null; } ) || { echo "{\"seed\":\"$n\",\"property\":\"$p\",\"exit\":-3,\"violations\":0,\"first_keys\":[],\"broken_run\":true,\"wall_s\":0}" >> $out; git -C $L/repo reset -q --hard HEAD; continue; }
      ( cd $L/repo && git reset -q )
      ( cd $L/verif && VERIF_ROOT=$L/verif timeout 2400 ./check $p --tier quick 2>&1 | grep -E "^VIOLATION|^  key=|^SUMMARY|BROKEN" | cut -c1-300 | head -40 ) > $MX/tmp_$k.txt
      git -C $L/repo reset -q --hard HEAD
      t1=$(date +%s)
      python3 - "$n" "$p" "$MX/tmp_$k.txt" $((t1-t0)) >> $out <<'PY'
import sys,re,json
n,p,f,w=sys.argv[1:5]
txt=open(f,errors='replace').read()
keys=re.findall(r'^\s+key=(.*)$',txt,re.M)
viol=len(re.findall(r'^VIOLATION property=',txt,re.M))
sm=re.search(r'^SUMMARY .*exit=(\d+)',txt,re.M)
code=int(sm.group(1)) if sm else (1 if viol else -1)
print(json.dumps({"seed":n,"property":p,"exit":code,"violations":viol,"first_keys":sorted(set(keys))[:4],"broken_run":'BROKEN' in txt,"wall_s":int(w)}))
PY
      tail -1 $out
    done
  done
}
for k in $(seq 1 $LANES); do lane $k > $MX/lane_$k.log 2>&1 & done
wait
cat $MX/out_*.jsonl | sort > /verif/seeded/matrix.jsonl
for k in $(seq 1 $LANES); do git -C /repo worktree remove --force $MX/L$k/repo; done
rm -rf $MX
echo DONE
