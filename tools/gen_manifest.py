#!/usr/bin/env python3
"""Regenerate /verif/MANIFEST.json from the table below (kept valid at all times)."""
import json, subprocess, sys

CHECKS = {
 "C01": dict(engine="sctp_rig", cat="fault_enumeration", tech="fault-injecting wire + history oracle (prefix / FIFO-linearizability) + logical stall witness",
   text="Two real rustrtc endpoints (IceConn+DTLS+SCTP+DataChannel, public API) joined by a harness man-in-the-middle that decrypts records with the negotiated keys, classifies SCTP chunks and applies enumerated single/pair faults on every setup chunk, the first DATA/SACK/HEARTBEAT datagrams of both directions, random multi-fault histories, TSN wrap (hook H1) and a partially-reliable sibling channel. Oracle over the recorded submit/deliver history: delivered sequence is byte-for-byte a prefix of the submitted one (FIFO-queue linearizability condition with several sender tasks); bounded progress is decided by a retry / quiet stall witness after the wire healed, never by a deadline.",
   note="Held on the executed histories only. The wire is the only network; DTLS handshake datagrams are not faulted here (C11). Stall witnesses assume rustrtc's timers are the configured ones; watchdog expiry is inconclusive.", ref="DESIGN.md 2.1, 2.3, 4/C01"),
 "C12": dict(engine="sctp_rig", cat="fault_enumeration", tech="fault-injecting wire + per-channel unique-id history oracle + event-grammar monitor",
   text="Same rig with 1..16 channels of every type (reliable / maxRetransmits / lifetime x ordered / unordered x negotiated / in-band), 1..4 sender tasks per side and channel, sizes 0..256 KiB, C01's fault plans plus duplicated setup chunks and lost/late COOKIE-ACK; thorough adds SSN wrap (66 000 messages). Oracle: each delivery equals exactly one submission of that channel, none twice, none fabricated/merged/split/cross-channel, order on ordered channels, Open exactly once before the first message, Close at most once, in-band parameters equal the creator's.",
   note="Safety clauses only (progress is C01's). Messages shorter than 16 bytes carry no unique id and are matched by content (count-checked only).", ref="DESIGN.md 4/C12"),
 "C13": dict(engine="sctp_rig", cat="fault_enumeration", tech="wire capture + in-process tap (hook H2) checked by an online trace specification",
   text="From the decrypted wire capture: every SCTP packet <= 1200 B, CRC32c correct (crc32c crate), verification tag equals the peer's announced tag, new DATA TSNs consecutive. From the H2 tap (exact processing order of the association's single run loop): new data after a SACK never exceeds its a_rwnd by more than one packet (epochs split at SACK / retransmission / FORWARD-TSN), no DATA retransmitted after a SACK covering it was handed in, and after full acknowledgement only heartbeats or direct replies leave. Workloads: 4-64 KiB receive windows with a held-back DATA packet (forces a_rwnd 0), burst/cwnd/RTO settings, idle periods, plus a sample of the C01/C12 fault histories.",
   note="The window rule is evaluated only on associations whose channels are all fully reliable (abandonment releases flight without a visible boundary). It is deliberately weaker than RFC 4960 bookkeeping so correct code cannot trip it.", ref="DESIGN.md 4/C13"),
 "C02": dict(engine="dtls_rig", cat="fault_enumeration", tech="on-path handshake tampering + impostor endpoints, labelled-by-construction oracle",
   text="Role under test x expected fingerprint {correct, absent, random, other identity} x 22 client-side / 8 server-side tamperings of the plaintext flights (re-encoded lengths) and active impostors (stolen certificate without key, chains). Scenarios are authentic / not authentic by construction; the endpoint holding the expectation must never be Connected, deliver data or export keys when not authentic, and must connect when authentic.",
   note="Known finding: the server role never requests a client certificate (listed in known_findings.json). Passive tampering is always caught by Finished; sensitivity comes from the impostor endpoints.", ref="DESIGN.md 4/C02"),
 "C03": dict(engine="dtls_rec", cat="exploration", tech="record injection with barriers + harness-own AES-GCM capture checker",
   text="Receive side: after and during a genuine handshake the wire or a stranger socket injects records over content types x epochs x payloads x sources, every header bit / sampled body bits (all bits in thorough) and truncations of genuine records, wrong-key and reflected records, plaintext handshake messages; a genuine marker behind each injection is the barrier. Oracle: the victim delivers exactly the genuine payloads and shows no state transition caused by an injection. Send side: 1..16 concurrent senders (0-5000 B) incl. senders racing the end of the handshake, then close(): every captured record is ApplicationData/Alert at epoch >= 1, opens under the negotiated key, <= 1200 B plaintext, tiles the submitted payloads, no two different records share (epoch, seq).",
   note="Replay of genuine records is outside the statement (they authenticate); counted as observation.", ref="DESIGN.md 4/C03"),
 "C11": dict(engine="dtls_rig", cat="fault_enumeration", tech="fault-enumerating wire over handshake flights + key-agreement monitor + logical stall witness",
   text="rustrtc<->rustrtc and rustrtc<->webrtc-rs dtls 0.17 in both roles; every single fault {drop, dup, swap, delay 1.2 s, legal re-fragmentation k=2..4 in order / reversed / duplicate fragment} on every datagram of every flight, double drops and random histories (pairs of faults in thorough). Safety: whenever both are Connected, all session keys, SRTP profile and exported keying material are equal and a marker each way is readable. Progress: after the heal the stuck side's flight reached the peer 4 more times yet it is not Connected (stall witness); the 30 s deadline is only the watchdog.",
   note="Known findings: byte-identical retransmissions reuse record sequence numbers (rejected as replays by webrtc-rs). A stall in a reference pair is attributed to rustrtc only under the two stated conditions, otherwise inconclusive.", ref="DESIGN.md 4/C11"),
 "C04": dict(engine="srtp_diff", cat="exploration", tech="differential testing against webrtc-srtp + RFC 3711 model, exhaustive rollover comparison (hook H4)",
   text="For generated RTP/RTCP packets (CSRC/extension/padding shapes, 0-1400 B) x 4 profiles x key material x sequence histories with loss, reorder within 2^15 and several 2^16 wraps over 1..40 SSRCs: unprotect(protect(p)) == p, webrtc-srtp decrypts rustrtc's output to p and rustrtc decrypts the reference's; NULL cipher against harness-own RFC 3711 code (validated on RFC 3711 B.3). The real rollover estimation (hook) is compared with RFC 3711 App. A for +-64 bands around each branch (quick) and all 2^32 (last,current) pairs x ROC {0,1,2^32-1} (thorough).",
   note="Differential checks only within the statement's +-2^15 tolerance (the two implementations legitimately differ outside).", ref="DESIGN.md 4/C04"),
 "C05": dict(engine="srtp_diff", cat="exploration", tech="forgery injection + two-receiver differential self-oracle with state snapshots (hook H4)",
   text="Every single-bit flip (12 regions), every truncation, random multi-bit forgeries, forged sequence numbers / SRTCP indices / E-bit for each profile must be rejected. Two receivers with identical keys see the same genuine stream, one with forgeries interleaved (any SSRC, aged contexts via hook): every genuine packet has the same outcome in both and the snapshot {ssrc -> roc, last_seq, srtcp_index, context set} is unchanged by every rejected packet.",
   note="Constant-time comparison (timing) is not examined. Replay protection is not demanded (statement silent).", ref="DESIGN.md 4/C05"),
 "C14": dict(engine="srtp_gate", cat="exploration", tech="operation-sequence enumeration + racing tasks, capture checked by reference SRTP contexts",
   text="RtpTransport(srtp_required) over real UDP: all sequences up to length 3 over 27 operations (length 5 over a 12-op core; deeper in thorough), random sequences to 40 and the same operations racing from 2-6 tasks, over {install keys / re-key, send_rtp, raw send, send_rtcp, sync BYE, inbound clear / protected / wrong-key / tampered RTP and RTCP, bridge install/clear in both directions, clear listeners}. Every captured datagram must open under webrtc-srtp / harness RFC 3711 contexts of an eligible key generation, nothing leaves before keys; only unmodified protected injections may reach listener, RTCP listener, observer or bridge target. Plus PeerConnection pairs (SDES, WebRTC) through a recording forwarder with loss (NACK/RTX), PLI, reports and close().",
   note="NullCipherHmac is not reachable through SDES/DTLS-SRTP and is not covered here.", ref="DESIGN.md 4/C14"),
 "C15": dict(engine="codec_diff", cat="exploration", tech="round-trip laws + differential testing against webrtc-rs rtp/rtcp",
   text="Boundary sweep (1378 cases) plus seeded random logical RTP packets and compound RTCP (SR/RR/SDES/BYE/PLI/FIR/NACK/REMB/TWCC...) checked against seven laws: parse(marshal(p)) == p, the reference parses rustrtc's bytes to the same fields and vice versa, set/get extension preserves other ids, NACK packing preserves lost sets across 65535->0, RTX wrap/unwrap restores the packet. Err for unrepresentable values is accepted; silently wrong bytes are the violation.",
   note="The reference is consulted only where it round-trips the logical packet itself (its quirks are counted as ref_skipped).", ref="DESIGN.md 4/C15"),
 "C18": dict(engine="latch_enum", cat="exploration", tech="exhaustive bounded enumeration of packet sequences against the real IceConn::receive + step-wise invariant oracle",
   text="The real IceConn::receive is driven with every sequence of length <= 4 (quick) / <= 5, and <= 6 for probation {0,2,6} (thorough) over a 21-symbol alphabet {source A/B/C x RTP matching SSRC (marker, seq step) / other SSRC / RTCP, reset, signalling retarget, selected-pair update} for probation 0..8 x SSRC known/unknown x RTCP configured or not, plus 1 M random sequences of length <= 24. After every step: legitimacy of any RTP-address move, commit by the probation limit to a winner one documented rule selects, stickiness afterwards, RTCP only sets the RTCP address once.",
   note="Where the documented rules are ambiguous (rule order on the packet where two apply, tie-breaks) every reading is accepted. exhaustive refers to the enumerated part.", ref="DESIGN.md 4/C18"),
 "C06": dict(engine="ice_attack", cat="exploration", tech="hostile STUN injection with authenticated barriers, before/after observable-state comparison",
   text="One real IceTransport (WebRTC mode) per scenario over socket kinds {UDP, shared UDP mux, passive TCP} x states {New, Checking, Connected} x both roles; a stranger (and a known remote address) sends Binding requests over USERNAME {none, wrong, prefix tricks, right} x MESSAGE-INTEGRITY {none, garbage, wrong key, tampered, truncated, valid-with-bad-username} x USE-CANDIDATE / role attributes, and responses with random / completed / outstanding-but-wrong-source transaction ids, all built with the stun reference crate. One authenticated exchange behind every injection is the barrier. Oracle: (state, remote candidates, selected pair, nomination) identical before and after every unauthenticated request / unsolicited response; an authenticated control request must have its effect (else inconclusive).",
   note="Passive-TCP scenarios fall back to a timed barrier once the agent stops answering unauthenticated requests (can only weaken a held verdict). TURN-relayed checks and IPv6 are not driven.", ref="DESIGN.md 4/C06"),
 "C16": dict(engine="stun_diff", cat="exploration", tech="differential testing against webrtc-rs stun + live TURN server behind a recording validator",
   text="(a) rustrtc-built messages (7 methods x 4 classes, attribute multisets, every text length 0..763, DATA 0..1400, IPv4/IPv6 XOR addresses, short/long-term keys, fingerprint) decoded by the reference with integrity and fingerprint checks; (b) reference-built messages decoded by rustrtc field by field; (c) the turn 0.17 server on loopback behind a recording forwarder validates every Allocate/Refresh/CreatePermission/ChannelBind/Send/ChannelData rustrtc's client emits (nonce dance, long-term key, framing, channel range incl. wrap via hook, padding, payload equality); (d) candidate lines round-trip through SDP for a 480-tuple grid plus random tuples; (e) pair priorities agree between controlling and controlled agent for all boundary and sampled (g,d).",
   note="For duplicated attributes rustrtc reports the last occurrence (reference: first); the statement is silent, counted only.", ref="DESIGN.md 4/C16"),
 "C19": dict(engine="demux_bridge", cat="exploration", tech="generated registrations/packets against the real RtpTransport::receive with an independent routing tracker; bridge output captured on UDP and checked per source stream",
   text="Demux: registration sets (SSRC, RID, MID, PT lists, provisional, overlapping, closed/full channels) x packet sequences with arbitrary SSRC/PT/one- and two-byte extension contents; after every packet all listener channels are drained and safety clauses (at most one receiver; RID, then MID, then bound SSRC decide or the packet is dropped; never a receiver of another section's payload type; closed listeners never selected; receiver must be identifiable) are checked against a tracker that follows bindings in arrival order. Bridge: rule tables x 1-6 interleaved source streams with small steps, jumps >= 10M ticks, reorder and wraps; per source stream one stable output SSRC/PT, consecutive output sequence numbers, constant out_ts - src_ts across small steps, independence between streams.",
   note="Dropping is always allowed. Fall-back order among unambiguous-PT and single-provisional routing is not constrained. A panic inside receive is C07's matter (inconclusive here).", ref="DESIGN.md 4/C19"),
}

def main():
    props=[json.loads(l) for l in open('/verif/properties.jsonl')]
    hooks=subprocess.run(["git","-C","/repo","log","--format=%H %s"],capture_output=True,text=True).stdout.splitlines()
    hook_commits=[l.split()[0] for l in hooks if l.split(' ',1)[1].startswith('verif hooks')]
    checks=[]; na=[]
    for p in props:
        pid=p['id']
        c=CHECKS.get(pid)
        if not c:
            na.append({"property_id":pid,"reason":"check not merged yet (work in progress); the property is in scope for runtime monitoring"})
            continue
        checks.append({
          "property_id":pid,
          "quick_cmd":f"./check {pid} --tier quick",
          "thorough_cmd":f"./check {pid} --tier thorough",
          "evidence_file":f"/verif/evidence/{pid}.json",
          "replay_cmd_template":f"./check {pid} --replay {{path}}",
          "engine":c['engine'],
          "level_claimed":{"category":c['cat'],"text":c['text'],"design_ref":c['ref']},
          "level_note":c['note'],
          "technique":c['tech'],
        })
    engines={}
    for pid,c in CHECKS.items():
        engines.setdefault(c['engine'],[]).append(pid)
    m={
     "version":1,
     "setup_cmd":"cd /verif/harness && ( [ -f Cargo.lock ] || cp /repo/Cargo.lock Cargo.lock ) && CARGO_NET_OFFLINE=true cargo build --offline",
     "hooks":{"guard":"--cfg rustrtc_verif",
              "enable":"harness/.cargo/config.toml sets rustflags=[\"--cfg\",\"rustrtc_verif\"] for every build of the monitor binary (rustrtc is a path dependency on /repo, rebuilt from its working tree by every ./check)",
              "baseline_off_cmd":"cd /repo && cargo nextest run --workspace --no-fail-fast --test-threads 8 --offline || cargo test --workspace --no-fail-fast --offline",
              "source_commits":hook_commits,"add_only":True},
     "engines":[{"name":e,"path":f"harness/src/engines/{e}.rs","serves_properties":sorted(ps),"kind_free_text":"runtime monitor: drives the real rustrtc code, oracle over observed events"} for e,ps in sorted(engines.items())],
     "checks":checks,
     "notes":"Technique family: runtime monitoring and sanitizers (see DESIGN.md). ./check <ID> rebuilds harness/ (crate rtcmon) against /repo's working tree and runs the engine; exit 0 held, 1 VIOLATION, 2 broken run. known_findings.json lists genuine defects that were not repaired; fixed ones are recorded there with status=fixed.",
     "not_applicable":na,
    }
    json.dump(m,open('/verif/MANIFEST.json','w'),indent=1)
    print(len(checks),"checks,",len(na),"not yet claimed")
main()
