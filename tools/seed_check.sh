#!/usr/bin/env bash
# seed_check.sh <patch.diff> <PID> [tier] [extra check args]
# Applies a seeded fault to /repo, runs ./check, and ALWAYS restores /repo afterwards.
set -u
PATCH="$1"; PID="$2"; TIER="${3:-quick}"; shift 3 2>/dev/null
cd /repo || exit 2
if [ -n "$(git status --porcelain --untracked-files=no)" ]; then echo "REPO DIRTY - refusing"; exit 2; fi
if ! git apply --whitespace=nowarn "$PATCH" 2>/tmp/seed_apply.err; then
  if ! git apply --3way --whitespace=nowarn "$PATCH" 2>>/tmp/seed_apply.err; then echo "PATCH DOES NOT APPLY: $(head -3 /tmp/seed_apply.err | tr '\n' ' ')"; git reset -q --hard HEAD; exit 3; fi
  git reset -q
fi
cd /verif
OUT=$(VERIF_ROOT_KEEP=1 ./check "$PID" --tier "$TIER" "$@" 2>&1)
CODE=$?
git -C /repo reset -q --hard HEAD
echo "$OUT" | grep -E "^VIOLATION|^  key=|^KNOWN|^SUMMARY|BROKEN" | cut -c1-260 | head -30
echo "EXIT=$CODE"
# restore evidence produced on the mutated tree? evidence is rewritten by the next clean run
