#!/usr/bin/env bash
# seed_matrix.sh [seed-name ...]  - run the quick check of the seed's property against every
# seeded change under /verif/seeded (or the named ones) and write /verif/seeded/matrix.jsonl:
# one line per (seed, property) with the exit code and the first violation key. Uses /repo
# itself (apply, check, reset) - nothing else may use /repo meanwhile.
set -u
cd /verif
OUT=/verif/seeded/matrix.jsonl
TMP=$(mktemp)
names=("$@")
if [ ${#names[@]} -eq 0 ]; then names=($(ls /verif/seeded | grep -E '^C[0-9]{2}-[0-9]+$' | sort)); fi
for n in "${names[@]}"; do
  d=/verif/seeded/$n
  patch=$d/patch.diff
  [ -f $d/patch_adapted.diff ] && patch=$d/patch_adapted.diff
  props=${n%%-*}
  [ "$n" = C12-1 ] && props="C12 C01"
  for p in $props; do
    t0=$(date +%s)
    /verif/tools/seed_check.sh $patch $p quick > $TMP 2>&1
    t1=$(date +%s)
    python3 - "$n" "$p" "$TMP" $((t1-t0)) >> $OUT.new <<'PY'
import sys,re,json
n,p,f,w=sys.argv[1:5]
txt=open(f,errors='replace').read()
keys=re.findall(r'^\s+key=(.*)$',txt,re.M)
viol=len(re.findall(r'^VIOLATION property=',txt,re.M))
m=re.search(r'EXIT=(\d+)',txt)
sm=re.search(r'^SUMMARY .*exit=(\d+)',txt,re.M)
code=int(sm.group(1)) if sm else (int(m.group(1)) if m else -1)
broken='BROKEN-RUN' in txt
print(json.dumps({"seed":n,"property":p,"exit":code,"violations":viol,"first_keys":sorted(set(keys))[:4],"broken_run":broken,"wall_s":int(w)}))
PY
    tail -1 $OUT.new
  done
done
if [ $# -eq 0 ]; then mv $OUT.new $OUT; else cat $OUT.new >> $OUT; rm -f $OUT.new; fi
rm -f $TMP
