#!/usr/bin/env bash
# verify_seed.sh <seed-out-dir e.g. /tmp/seed_c01/out/fault_1> <name e.g. C01-1>
# Confirms a seeded fault independently: applies to a scratch worktree of /repo main, builds,
# runs the demonstration (must FAIL), the full existing suite (must match the baseline), then
# reverts the fault and runs the demonstration again (must PASS). Writes <name>.verify.json
# next to the patch and prints a one-line verdict. Scratch worktree is removed afterwards.
set -u
SRC="$1"; NAME="$2"
W=/tmp/vs_work/$NAME
export CARGO_TARGET_DIR=${VS_TARGET:-/tmp/vs_work/target}
export CARGO_NET_OFFLINE=true
export CARGO_INCREMENTAL=0
export CARGO_PROFILE_DEV_DEBUG=0
export CARGO_PROFILE_TEST_DEBUG=0
mkdir -p /tmp/vs_work
git -C /repo worktree remove --force "$W" >/dev/null 2>&1
rm -rf "$W"
git -C /repo worktree add --detach "$W" main >/dev/null 2>&1 || { echo "$NAME: cannot create worktree"; exit 2; }
cleanup(){ git -C /repo worktree remove --force "$W" >/dev/null 2>&1; rm -rf "$W"; }
res(){ echo "{\"name\":\"$NAME\",\"applies\":$1,\"builds\":$2,\"demo_fails_with_fault\":\"$3\",\"suite_with_fault\":\"$4\",\"demo_passes_without\":\"$5\",\"ok\":$6}" > "$SRC/verify.json"; echo "$NAME: applies=$1 builds=$2 demo_with_fault=$3 suite=$4 demo_without=$5 ok=$6"; }
cd "$W" || exit 2
if ! git apply --whitespace=nowarn "$SRC/patch.diff" 2>/tmp/vs_work/$NAME.apply.err; then res false false - - - false; cleanup; exit 1; fi
# demo placement: integration test unless meta says otherwise
DEMO_CMD=$(python3 - "$SRC/meta.json" <<'EOF'
import json,sys
try:
    m=json.load(open(sys.argv[1])); print(m.get('demo_cmd',''))
except Exception as e:
    print('')
EOF
)
DEMO_NAME=$(echo "$DEMO_CMD" | grep -o -- "--test [A-Za-z0-9_]*" | head -1 | awk '{print $2}')
APPEND_TO=$(echo "$DEMO_CMD" | grep -o ">> *[^ ]*src/[A-Za-z0-9_/.]*\.rs" | head -1 | sed 's/>> *//; s|^.*/src/|src/|')
LIB_FILTER=$(echo "$DEMO_CMD" | grep -o -- "--lib [A-Za-z0-9_:]*" | head -1 | awk '{print $2}')
place_demo(){
  if [ -n "$DEMO_NAME" ]; then cp "$SRC/demo.rs" "tests/$DEMO_NAME.rs"; else cat "$SRC/demo.rs" >> "$APPEND_TO"; fi
}
remove_demo(){
  if [ -n "$DEMO_NAME" ]; then rm -f "tests/$DEMO_NAME.rs"; else
    # restore the file the demo was appended to, keeping the fault if it is applied
    git checkout -q -- . ; if [ "${FAULT_ON:-0}" = 1 ]; then git apply --whitespace=nowarn "$SRC/patch.diff"; fi
  fi
}
if [ -n "$DEMO_NAME" ] && [ -f "$SRC/demo.rs" ]; then
  RUN_DEMO="cargo test --offline --test $DEMO_NAME"
elif [ -n "$APPEND_TO" ] && [ -n "$LIB_FILTER" ] && [ -f "$SRC/demo.rs" ]; then
  RUN_DEMO="cargo test --offline --lib $LIB_FILTER"
else
  echo "$NAME: cannot interpret demo_cmd: $DEMO_CMD"; res true false manual - - false; cleanup; exit 3
fi
FAULT_ON=1
place_demo
if ! cargo build --offline --tests >/tmp/vs_work/$NAME.build.log 2>&1; then res true false - - - false; cleanup; exit 1; fi
fails=0
for i in 1 2 3; do
  if ! timeout 600 $RUN_DEMO >/tmp/vs_work/$NAME.demo_fault_$i.log 2>&1; then fails=$((fails+1)); fi
done
# full suite with the fault (demo excluded)
remove_demo
timeout 3000 cargo nextest run --workspace --no-fail-fast --test-threads 8 --offline >/tmp/vs_work/$NAME.suite.log 2>&1
SUITE=$(grep -E "^ *Summary" /tmp/vs_work/$NAME.suite.log | tail -1 | sed 's/.*tests run: //')
FAILED=$(grep -E "^ +(FAIL|TIMEOUT|SIGABRT|SIGSEGV)" /tmp/vs_work/$NAME.suite.log | awk '{print $NF}' | sort -u | grep -v reinvite_answer_audio_codecs_follow_remote_offer_subset | tr '\n' ' ')
# without the fault
git checkout -q -- . ; FAULT_ON=0; place_demo
passes=0
for i in 1 2 3; do
  if timeout 600 $RUN_DEMO >/tmp/vs_work/$NAME.demo_clean_$i.log 2>&1; then passes=$((passes+1)); fi
done
ok=false
if [ "$fails" -ge 2 ] && [ "$passes" -eq 3 ] && [ -z "$FAILED" ] && echo "$SUITE" | grep -q "586 passed"; then ok=true; fi
res true true "$fails/3" "${SUITE:-none} extra_failed=[${FAILED}]" "$passes/3" $ok
cleanup
# keep the shared scratch target small: drop the (huge, fault-specific) test executables and examples
rm -rf "$CARGO_TARGET_DIR/debug/examples" 2>/dev/null
find "$CARGO_TARGET_DIR/debug/deps" -maxdepth 1 -type f ! -name '*.*' -delete 2>/dev/null
find "$CARGO_TARGET_DIR/debug/deps" -maxdepth 1 -type f \( -name 'librustrtc-*' -o -name 'rustrtc-*' \) -delete 2>/dev/null
