//! C20 scenario runner + oracle, shared by
//!   * the tiny `trackprog` package (interpreted by Miri, or built with ThreadSanitizer), and
//!   * the native history monitor of `rtcmon` (engine `track_hist` includes this file with #[path]).
//! Only std, `bytes` and the real `rustrtc` crate are used. No timeouts anywhere: a lost wake-up is
//! decided logically with a counting waker (see `Consumer::drive`).
//!
//! What the oracle demands (no more than the statement of C20):
//!   * every received sample is `==` (all fields, all payload bytes) to the sample the harness built for
//!     the (producer, counter) written in its first 8 payload bytes, and that counter was really pushed;
//!   * no (producer, counter) is received twice;
//!   * counters of one producer arrive strictly increasing (samples may be LOST by overflow - allowed);
//!   * once the last source handle is gone, recv() finishes (samples, then EndOfStream), and - if nobody
//!     called stop() - at that EndOfStream no sample is still alive inside the queue (drained);
//!   * after everything is dropped: payload buffers created == dropped, none dropped twice.
//! Lost samples (overflow, try_send WouldBlock, stop) are never a violation.

#![allow(dead_code)]

use bytes::Bytes;
use rustrtc::media::pipeline::SampleQueueSender;
use rustrtc::media::track::{SampleStreamSource, SampleStreamTrack};
use rustrtc::media::{
    AudioFrame, ChannelMediaSource, MediaError, MediaKind, MediaSample, MediaSource,
    MediaStreamTrack, SpscRing, VideoFrame, sample_track,
};
use std::future::Future;
use std::pin::Pin;
use std::sync::atomic::{AtomicBool, AtomicU8, AtomicU64, Ordering};
use std::sync::{Arc, Barrier, Condvar, Mutex};
use std::task::{Context, Poll, Wake, Waker};

// ------------------------------------------------------------------ parameters

#[derive(Clone, Copy, Debug, PartialEq, Eq)]
pub enum Queue {
    /// sample_track(): SampleStreamSource -> SampleStreamTrack::recv
    Track,
    /// pipeline ChannelMediaSource::channel(): SampleQueueSender -> ChannelMediaSource::next_sample
    Chan,
    /// the bare SpscRing used as documented (one pusher, one popper)
    Ring,
}

#[derive(Clone, Copy, Debug, PartialEq, Eq)]
pub enum Stop {
    None,
    /// producer 0 calls track.stop() before its op number k (races with the consumer's recv)
    Producer(usize),
    /// the consumer calls stop() (Chan: drops the receiver) after n received samples
    Consumer(usize),
}

#[derive(Clone, Debug)]
pub struct Params {
    pub queue: Queue,
    pub producers: usize,
    /// true: all producers push through one `Arc<SampleStreamSource>`; false: one `clone()` each
    pub shared: bool,
    pub cap: usize,
    /// operations per producer
    pub ops: usize,
    /// bit0 send, bit1 try_send, bit2 send_many(1..=4)
    pub mix: u8,
    pub stop: Stop,
    /// producers clone()+drop an extra handle now and then (Clone / Drop of non-last senders)
    pub churn: bool,
    pub video: bool,
    /// payload is 8..=8+payload bytes
    pub payload: usize,
    /// bit0: producers yield now and then; bit1: consumer yields after each sample;
    /// bit2: producers yield after every operation (lock-step hand-over, useful under Miri)
    pub pace: u8,
    /// coordinator keeps its own handle until all producers are joined (else drops it right away,
    /// so that the LAST drop is done by a producer thread, racing with recv)
    pub hold: bool,
    /// scheduling points inside rustrtc (hook `media::verif_sched`, only with --cfg rustrtc_verif):
    /// 0 = off, N = every thread yields at one point in N (thread-local PRNG derived from `seed`)
    pub sched: u8,
    pub seed: u64,
}

impl Default for Params {
    fn default() -> Self {
        Params {
            queue: Queue::Track,
            producers: 1,
            shared: false,
            cap: 2,
            ops: 8,
            mix: 1,
            stop: Stop::None,
            churn: false,
            video: false,
            payload: 16,
            pace: 0,
            hold: false,
            sched: 0,
            seed: 1,
        }
    }
}

impl Params {
    pub fn to_args(&self) -> Vec<String> {
        let q = match self.queue {
            Queue::Track => "track",
            Queue::Chan => "chan",
            Queue::Ring => "ring",
        };
        let stop = match self.stop {
            Stop::None => "none".to_string(),
            Stop::Producer(k) => format!("prod:{k}"),
            Stop::Consumer(n) => format!("cons:{n}"),
        };
        vec![
            format!("queue={q}"),
            format!("producers={}", self.producers),
            format!("shared={}", self.shared as u8),
            format!("cap={}", self.cap),
            format!("ops={}", self.ops),
            format!("mix={}", self.mix),
            format!("stop={stop}"),
            format!("churn={}", self.churn as u8),
            format!("video={}", self.video as u8),
            format!("payload={}", self.payload),
            format!("pace={}", self.pace),
            format!("hold={}", self.hold as u8),
            format!("sched={}", self.sched),
            format!("seed={}", self.seed),
        ]
    }

    /// Unknown keys are returned in the second component (the binary has a few of its own).
    pub fn from_args(args: &[String]) -> Result<(Params, Vec<(String, String)>), String> {
        let mut p = Params::default();
        let mut rest = vec![];
        for a in args {
            let Some((k, v)) = a.split_once('=') else {
                return Err(format!("argument `{a}` is not key=value"));
            };
            let num = || v.parse::<u64>().map_err(|_| format!("`{a}`: not a number"));
            match k {
                "queue" => {
                    p.queue = match v {
                        "track" => Queue::Track,
                        "chan" => Queue::Chan,
                        "ring" => Queue::Ring,
                        _ => return Err(format!("`{a}`: unknown queue")),
                    }
                }
                "producers" => p.producers = num()? as usize,
                "shared" => p.shared = num()? != 0,
                "cap" => p.cap = num()? as usize,
                "ops" => p.ops = num()? as usize,
                "mix" => p.mix = num()? as u8,
                "stop" => {
                    p.stop = if v == "none" {
                        Stop::None
                    } else if let Some(k) = v.strip_prefix("prod:") {
                        Stop::Producer(k.parse().map_err(|_| format!("`{a}`"))?)
                    } else if let Some(k) = v.strip_prefix("cons:") {
                        Stop::Consumer(k.parse().map_err(|_| format!("`{a}`"))?)
                    } else {
                        return Err(format!("`{a}`: unknown stop"));
                    }
                }
                "churn" => p.churn = num()? != 0,
                "video" => p.video = num()? != 0,
                "payload" => p.payload = num()? as usize,
                "pace" => p.pace = num()? as u8,
                "hold" => p.hold = num()? != 0,
                "sched" => p.sched = num()? as u8,
                "seed" => p.seed = num()?,
                _ => rest.push((k.to_string(), v.to_string())),
            }
        }
        p.sanitize();
        Ok((p, rest))
    }

    /// Clamp to the quantifier of the property (1..4 producers, capacity 1..64) and to what each
    /// queue kind supports (Chan / Ring have exactly one producer handle; Ring has no stop).
    pub fn sanitize(&mut self) {
        self.producers = self.producers.clamp(1, 4);
        self.cap = self.cap.clamp(1, 64);
        if self.mix & 7 == 0 {
            self.mix = 1;
        }
        self.payload = self.payload.min(4096);
        if self.queue != Queue::Track {
            self.producers = 1;
            self.shared = false;
            self.churn = false;
            if let Stop::Producer(_) = self.stop {
                self.stop = Stop::None;
            }
        }
        if self.queue == Queue::Ring {
            self.stop = Stop::None;
        }
    }

    pub fn multi(&self) -> bool {
        self.producers > 1
    }
    /// suffix used in violation keys: which queue, and single / multi producer
    pub fn class(&self) -> String {
        let q = match self.queue {
            Queue::Track => "track",
            Queue::Chan => "chan",
            Queue::Ring => "ring",
        };
        format!("{q}:{}", if self.multi() { "mp" } else { "1p" })
    }
}

// ------------------------------------------------------------------ tiny PRNG (SplitMix64)

#[derive(Clone)]
pub struct Sm(pub u64);
impl Sm {
    pub fn next(&mut self) -> u64 {
        self.0 = self.0.wrapping_add(0x9E37_79B9_7F4A_7C15);
        let mut z = self.0;
        z = (z ^ (z >> 30)).wrapping_mul(0xBF58_476D_1CE4_E5B9);
        z = (z ^ (z >> 27)).wrapping_mul(0x94D0_49BB_1331_11EB);
        z ^ (z >> 31)
    }
    pub fn below(&mut self, n: u64) -> u64 {
        if n == 0 { 0 } else { self.next() % n }
    }
}

// ------------------------------------------------------------------ tracked payloads

/// Drop accounting for payload buffers. `slots[p][c]` counts drops of sample (p,c).
pub struct Registry {
    pub created: AtomicU64,
    pub dropped: AtomicU64,
    pub double_drops: AtomicU64,
    slots: Vec<Vec<AtomicU8>>,
}

impl Registry {
    fn new(producers: usize, per_producer: usize) -> Arc<Registry> {
        Arc::new(Registry {
            created: AtomicU64::new(0),
            dropped: AtomicU64::new(0),
            double_drops: AtomicU64::new(0),
            slots: (0..producers)
                .map(|_| (0..per_producer).map(|_| AtomicU8::new(0)).collect())
                .collect(),
        })
    }
    fn live(&self) -> i64 {
        // read `dropped` first: a concurrent create+drop can then only make the result larger,
        // and the callers only use this when no producer is running any more.
        let d = self.dropped.load(Ordering::SeqCst);
        let c = self.created.load(Ordering::SeqCst);
        c as i64 - d as i64
    }
}

struct Tracked {
    reg: Arc<Registry>,
    producer: usize,
    counter: u64,
    buf: Vec<u8>,
}

impl AsRef<[u8]> for Tracked {
    fn as_ref(&self) -> &[u8] {
        &self.buf
    }
}

impl Drop for Tracked {
    fn drop(&mut self) {
        self.reg.dropped.fetch_add(1, Ordering::SeqCst);
        if let Some(s) = self
            .reg
            .slots
            .get(self.producer)
            .and_then(|v| v.get(self.counter as usize))
        {
            if s.fetch_add(1, Ordering::SeqCst) >= 1 {
                self.reg.double_drops.fetch_add(1, Ordering::SeqCst);
            }
        }
    }
}

/// The sample for (producer, counter) is a pure function of the parameters, so the consumer can
/// rebuild the expected value and compare with `==` (bit-identical payload and every other field).
fn make_sample(p: &Params, producer: usize, counter: u64, reg: Option<&Arc<Registry>>) -> MediaSample {
    let mut r = Sm(p.seed ^ ((producer as u64 + 1) << 56) ^ counter.wrapping_mul(0xA24B_AED4_963E_E407));
    let h = r.next();
    let len = 8 + (r.below(p.payload as u64 + 1) as usize);
    let mut buf = Vec::with_capacity(len);
    buf.extend_from_slice(&(((producer as u64) << 48) | (counter & 0xFFFF_FFFF_FFFF)).to_le_bytes());
    while buf.len() < len {
        buf.push(r.next() as u8);
    }
    let data = match reg {
        Some(reg) => {
            reg.created.fetch_add(1, Ordering::SeqCst);
            Bytes::from_owner(Tracked {
                reg: reg.clone(),
                producer,
                counter,
                buf,
            })
        }
        None => Bytes::from(buf),
    };
    let addr = if h & 4 != 0 {
        Some(std::net::SocketAddr::from(([127, 0, 0, (h >> 8) as u8], (h >> 16) as u16)))
    } else {
        None
    };
    if p.video {
        MediaSample::Video(VideoFrame {
            rtp_timestamp: (h >> 32) as u32,
            width: (h >> 3) as u16,
            height: (h >> 19) as u16,
            rotation_deg: [0u16, 90, 180, 270][(h & 3) as usize],
            is_last_packet: h & 1 != 0,
            data,
            csrcs: (0..(h % 3)).map(|i| (h >> i) as u32).collect(),
            sequence_number: Some(counter as u16),
            payload_type: Some(96 + producer as u8),
            source_addr: addr,
            ..VideoFrame::default()
        })
    } else {
        MediaSample::Audio(AudioFrame {
            rtp_timestamp: (h >> 32) as u32,
            clock_rate: 48000,
            data,
            sequence_number: Some(counter as u16),
            payload_type: Some(96 + producer as u8),
            marker: h & 1 != 0,
            source_addr: addr,
            ..AudioFrame::default()
        })
    }
}

fn clip(s: &str, n: usize) -> String {
    if s.len() <= n { s.to_string() } else { format!("{}..", s.chars().take(n).collect::<String>()) }
}

fn sample_data(s: &MediaSample) -> &Bytes {
    match s {
        MediaSample::Audio(f) => &f.data,
        MediaSample::Video(f) => &f.data,
    }
}

// ------------------------------------------------------------------ scheduling points
//
// rustrtc built with `--cfg rustrtc_verif` calls `media::verif_sched::point(name)` between the individual
// steps of push / pop / send / recv / stop / Drop. The callback below yields there now and then, which makes
// the narrow windows (two instructions wide natively) reachable: under Miri a yield hands the CPU to another
// thread; natively a busy-wait of a few microseconds lets the other side run a whole operation in between.
// The callback uses only Relaxed atomics and a thread-local PRNG, so it adds NO happens-before edge that
// could hide a data race from Miri / TSan.

pub const SCHED_POINTS: [&str; 12] = [
    "spsc.push.before_publish",
    "spsc.pop.before_release",
    "track.stop.before_notify",
    "track.send.after_push",
    "track.send.full",
    "track.drop.before_close",
    "track.drop.before_notify",
    "track.recv.after_empty_pop",
    "track.recv.before_wait",
    "pipeline.recv.after_empty_pop",
    "pipeline.drop.before_close",
    "other",
];
static SCHED_DENOM: AtomicU64 = AtomicU64::new(0);
static SCHED_SEED: AtomicU64 = AtomicU64::new(1);
static SCHED_HITS: [AtomicU64; 12] = [const { AtomicU64::new(0) }; 12];
static SCHED_YIELDS: [AtomicU64; 12] = [const { AtomicU64::new(0) }; 12];
thread_local! {
    static SCHED_RNG: std::cell::Cell<u64> = const { std::cell::Cell::new(0) };
    /// yields left for this thread in this scenario (a yield costs milliseconds on a loaded machine)
    static SCHED_BUDGET: std::cell::Cell<u32> = const { std::cell::Cell::new(0) };
}
const SCHED_BUDGET_PER_THREAD: u32 = 48;

fn sched_seed_thread(seed: u64, tag: u64) {
    SCHED_RNG.with(|c| c.set((seed ^ tag.wrapping_mul(0x9E37_79B9_7F4A_7C15)) | 1));
    SCHED_BUDGET.with(|c| c.set(SCHED_BUDGET_PER_THREAD));
}

fn sched_callback(name: &'static str) {
    let d = SCHED_DENOM.load(Ordering::Relaxed);
    if d == 0 {
        return;
    }
    let idx = SCHED_POINTS.iter().position(|n| *n == name).unwrap_or(SCHED_POINTS.len() - 1);
    SCHED_HITS[idx].fetch_add(1, Ordering::Relaxed);
    let x = SCHED_RNG.with(|c| {
        let mut s = c.get();
        if s == 0 {
            s = SCHED_SEED.load(Ordering::Relaxed) | 1;
        }
        // xorshift64*
        s ^= s >> 12;
        s ^= s << 25;
        s ^= s >> 27;
        c.set(s);
        s.wrapping_mul(0x2545_F491_4F6C_DD1D) >> 16
    });
    if x % d == 0 {
        let left = SCHED_BUDGET.with(|c| {
            let b = c.get();
            c.set(b.saturating_sub(1));
            b
        });
        if left == 0 {
            return;
        }
        SCHED_YIELDS[idx].fetch_add(1, Ordering::Relaxed);
        // Natively: busy-wait 0.2 .. 6 us (no syscall - sched_yield / sleep cost milliseconds on a loaded
        // machine); the other threads keep running on their cores meanwhile. Under Miri: hand over.
        #[cfg(not(miri))]
        {
            let ns = 200 + ((x >> 20) % 5800);
            let t0 = std::time::Instant::now();
            while (t0.elapsed().as_nanos() as u64) < ns {
                std::hint::spin_loop();
            }
        }
        #[cfg(miri)]
        std::thread::yield_now();
    }
}

fn sched_begin(p: &Params) -> Vec<(u64, u64)> {
    #[cfg(rustrtc_verif)]
    rustrtc::media::verif_sched::set_callback(Some(sched_callback));
    SCHED_SEED.store(p.seed ^ 0x5c4e_d000, Ordering::Relaxed);
    SCHED_DENOM.store(p.sched as u64, Ordering::Relaxed);
    (0..SCHED_POINTS.len())
        .map(|i| (SCHED_HITS[i].load(Ordering::Relaxed), SCHED_YIELDS[i].load(Ordering::Relaxed)))
        .collect()
}

fn sched_end(before: &[(u64, u64)]) -> Vec<(&'static str, u64, u64)> {
    SCHED_DENOM.store(0, Ordering::Relaxed);
    let mut v = vec![];
    for (i, name) in SCHED_POINTS.iter().enumerate() {
        let h = SCHED_HITS[i].load(Ordering::Relaxed) - before[i].0;
        let y = SCHED_YIELDS[i].load(Ordering::Relaxed) - before[i].1;
        if h > 0 {
            v.push((*name, h, y));
        }
    }
    v
}

/// true when this build of rustrtc has the scheduling-point hook
pub fn sched_available() -> bool {
    cfg!(rustrtc_verif)
}

// ------------------------------------------------------------------ outcome

#[derive(Clone, Debug)]
pub struct Violation {
    pub key: String,
    pub what: String,
}

#[derive(Clone, Debug, Default)]
pub struct Outcome {
    pub violations: Vec<Violation>,
    /// harness-side trouble (never a violation)
    pub inconclusive: Option<String>,
    pub received: u64,
    pub eos: bool,
    pub stuck: bool,
    /// polls of recv() that returned Pending / wake() calls seen by the counting waker
    pub pendings: u64,
    pub wakes: u64,
    pub push_ok: u64,
    pub push_wouldblock: u64,
    pub push_closed: u64,
    pub push_other_err: u64,
    pub attempted: u64,
    pub created: u64,
    pub dropped: u64,
    /// live payload buffers when the consumer saw EndOfStream (only meaningful without stop)
    pub live_at_eos: i64,
    pub stop_called: bool,
    /// scheduling points passed / points at which the harness yielded, per point name
    pub sched: Vec<(&'static str, u64, u64)>,
}

impl Outcome {
    fn violate(&mut self, key: String, what: String) {
        if !self.violations.iter().any(|v| v.key == key) {
            self.violations.push(Violation { key, what });
        }
    }
    /// accepted by the queue but never received (overflow / stop): allowed, reported as coverage
    pub fn lost(&self) -> u64 {
        self.push_ok.saturating_sub(self.received)
    }
}

// ------------------------------------------------------------------ counting waker + control block

struct Ctl {
    wakes: AtomicU64,
    /// all producer threads joined AND every source handle dropped
    all_done: AtomicBool,
    mx: Mutex<()>,
    cv: Condvar,
}

impl Ctl {
    fn new() -> Arc<Ctl> {
        Arc::new(Ctl {
            wakes: AtomicU64::new(0),
            all_done: AtomicBool::new(false),
            mx: Mutex::new(()),
            cv: Condvar::new(),
        })
    }
    fn set_all_done(&self) {
        self.all_done.store(true, Ordering::SeqCst);
        let _g = self.mx.lock().unwrap_or_else(|e| e.into_inner());
        self.cv.notify_all();
    }
}

impl Wake for Ctl {
    fn wake(self: Arc<Self>) {
        self.wake_by_ref()
    }
    fn wake_by_ref(self: &Arc<Self>) {
        self.wakes.fetch_add(1, Ordering::SeqCst);
        let _g = self.mx.lock().unwrap_or_else(|e| e.into_inner());
        self.cv.notify_all();
    }
}

enum Driven<T> {
    Ready(T),
    /// Lost wake-up witness. The poll began after `all_done` was observed true - i.e. every producer
    /// thread had been joined and every source handle dropped, so every wake-up any of them will
    /// ever issue happened-before this poll - it returned Pending, and the waker was not called
    /// during the poll. Nobody is left who could ever call the waker: the future can never complete.
    Stuck,
}

/// Minimal executor for one future. Parks on a condvar until the waker fires or `all_done` flips.
fn drive<T>(ctl: &Arc<Ctl>, fut: &mut Pin<Box<dyn Future<Output = T> + Send + '_>>, pendings: &mut u64) -> Driven<T> {
    let waker = Waker::from(ctl.clone());
    let mut cx = Context::from_waker(&waker);
    loop {
        let done_before = ctl.all_done.load(Ordering::SeqCst);
        let w0 = ctl.wakes.load(Ordering::SeqCst);
        match fut.as_mut().poll(&mut cx) {
            Poll::Ready(v) => return Driven::Ready(v),
            Poll::Pending => {
                *pendings += 1;
                if done_before && ctl.wakes.load(Ordering::SeqCst) == w0 {
                    return Driven::Stuck;
                }
                let mut g = ctl.mx.lock().unwrap_or_else(|e| e.into_inner());
                while ctl.wakes.load(Ordering::SeqCst) == w0
                    && ctl.all_done.load(Ordering::SeqCst) == done_before
                {
                    g = ctl.cv.wait(g).unwrap_or_else(|e| e.into_inner());
                }
            }
        }
    }
}

// ------------------------------------------------------------------ receive-side checker

struct Checker {
    /// last counter received per producer
    last: Vec<Option<u64>>,
    seen: Vec<std::collections::HashSet<u64>>,
    max_counter: Vec<u64>,
}

impl Checker {
    fn new(producers: usize) -> Checker {
        Checker {
            last: vec![None; producers],
            seen: (0..producers).map(|_| Default::default()).collect(),
            max_counter: vec![0; producers],
        }
    }

    fn check(&mut self, p: &Params, got: &MediaSample, out: &mut Outcome) {
        let class = p.class();
        let d = sample_data(got);
        if d.len() < 8 {
            out.violate(
                format!("hist:corrupt:{class}"),
                format!("received sample with a {}-byte payload; every pushed payload has >= 8 bytes", d.len()),
            );
            return;
        }
        let mut idb = [0u8; 8];
        idb.copy_from_slice(&d[..8]);
        let id = u64::from_le_bytes(idb);
        let prod = (id >> 48) as usize;
        let counter = id & 0xFFFF_FFFF_FFFF;
        if prod >= p.producers || counter > (p.ops as u64) * 4 + 4 {
            out.violate(
                format!("hist:corrupt:{class}"),
                format!("received sample carries id (producer {prod}, counter {counter}) that no producer ever built"),
            );
            return;
        }
        let want = make_sample(p, prod, counter, None);
        if *got != want {
            out.violate(
                format!("hist:corrupt:{class}"),
                format!(
                    "received sample (producer {prod}, counter {counter}) differs from the pushed one: got {} want {}",
                    clip(&format!("{got:?}"), 300),
                    clip(&format!("{want:?}"), 300)
                ),
            );
            return;
        }
        if !self.seen[prod].insert(counter) {
            out.violate(
                format!("hist:duplicate:{class}"),
                format!("sample (producer {prod}, counter {counter}) received twice"),
            );
            return;
        }
        if let Some(prev) = self.last[prod] {
            if counter <= prev {
                out.violate(
                    format!("hist:reorder:{class}"),
                    format!("producer {prod}: counter {counter} received after counter {prev}"),
                );
            }
        }
        self.last[prod] = Some(counter);
        self.max_counter[prod] = self.max_counter[prod].max(counter);
    }
}

// ------------------------------------------------------------------ producers

#[derive(Default)]
struct ProdStats {
    attempted: u64,
    ok: u64,
    wouldblock: u64,
    closed: u64,
    other: u64,
    stop_called: bool,
}

enum Handle {
    Own(SampleStreamSource),
    Shared(Arc<SampleStreamSource>),
    Chan(SampleQueueSender),
}

impl Handle {
    fn src(&self) -> Option<&SampleStreamSource> {
        match self {
            Handle::Own(s) => Some(s),
            Handle::Shared(s) => Some(s),
            Handle::Chan(_) => None,
        }
    }
}

fn tally(st: &mut ProdStats, r: Result<(), MediaError>, n: u64) {
    match r {
        Ok(()) => st.ok += n,
        Err(MediaError::WouldBlock) => st.wouldblock += 1,
        Err(MediaError::Closed) => st.closed += 1,
        Err(_) => st.other += 1,
    }
}

fn producer_thread(
    p: Params,
    me: usize,
    handle: Handle,
    track: Option<Arc<SampleStreamTrack>>,
    reg: Arc<Registry>,
    barrier: Arc<Barrier>,
) -> ProdStats {
    let mut st = ProdStats::default();
    sched_seed_thread(p.seed, 100 + me as u64);
    let mut rng = Sm(p.seed ^ 0x5151_0000 ^ ((me as u64) << 32));
    let mut counter: u64 = 0;
    let ops: Vec<u8> = [0u8, 1, 2].into_iter().filter(|b| p.mix & (1 << b) != 0).collect();
    barrier.wait();
    for i in 0..p.ops {
        if me == 0 && p.stop == Stop::Producer(i) {
            if let Some(t) = &track {
                t.stop();
                st.stop_called = true;
            }
        }
        let op = ops[rng.below(ops.len() as u64) as usize];
        match (&handle, op) {
            (Handle::Chan(tx), 1) => {
                let s = make_sample(&p, me, counter, Some(&reg));
                counter += 1;
                st.attempted += 1;
                match tx.try_send(s) {
                    Ok(()) => st.ok += 1,
                    Err(_back) => st.wouldblock += 1,
                }
            }
            (Handle::Chan(tx), _) => {
                let s = make_sample(&p, me, counter, Some(&reg));
                counter += 1;
                st.attempted += 1;
                match tx.send(s) {
                    Ok(()) => st.ok += 1,
                    Err(()) => st.closed += 1,
                }
            }
            (h, 0) => {
                let s = make_sample(&p, me, counter, Some(&reg));
                counter += 1;
                st.attempted += 1;
                let r = h.src().map(|x| x.send(s)).unwrap_or(Ok(()));
                tally(&mut st, r, 1);
            }
            (h, 1) => {
                let s = make_sample(&p, me, counter, Some(&reg));
                counter += 1;
                st.attempted += 1;
                let r = h.src().map(|x| x.try_send(s)).unwrap_or(Ok(()));
                tally(&mut st, r, 1);
            }
            (h, _) => {
                let k = 1 + rng.below(4);
                let v: Vec<MediaSample> = (0..k)
                    .map(|j| make_sample(&p, me, counter + j, Some(&reg)))
                    .collect();
                counter += k;
                st.attempted += k;
                let r = h.src().map(|x| x.send_many(v)).unwrap_or(Ok(()));
                tally(&mut st, r, k);
            }
        }
        if p.churn && rng.below(6) == 0 {
            if let Some(s) = handle.src() {
                let extra = s.clone();
                if rng.below(2) == 0 {
                    let smp = make_sample(&p, me, counter, Some(&reg));
                    counter += 1;
                    st.attempted += 1;
                    let r = extra.send(smp);
                    tally(&mut st, r, 1);
                }
                drop(extra);
            }
        }
        if p.pace & 4 != 0 || (p.pace & 1 != 0 && rng.below(4) == 0) {
            std::thread::yield_now();
        }
    }
    if me == 0 && p.stop == Stop::Producer(p.ops) {
        // stop() as the very last action before this producer lets go of its handle
        if let Some(t) = &track {
            t.stop();
            st.stop_called = true;
        }
    }
    drop(handle); // this producer's source handle goes away here
    st
}

// ------------------------------------------------------------------ the scenario

enum Rx {
    Track(Arc<SampleStreamTrack>),
    Chan(Option<ChannelMediaSource>),
}

/// Run one scenario to completion and judge it.
pub fn run(p_in: &Params) -> Outcome {
    let mut p = p_in.clone();
    p.sanitize();
    let before = sched_begin(&p);
    sched_seed_thread(p.seed, 1);
    let mut out = if p.queue == Queue::Ring { run_ring(&p) } else { run_queue(&p) };
    out.sched = sched_end(&before);
    out
}

fn run_queue(p: &Params) -> Outcome {
    let p = p.clone();
    let mut out = Outcome::default();
    let class = p.class();
    let kind = if p.video { MediaKind::Video } else { MediaKind::Audio };
    let reg = Registry::new(p.producers, p.ops * 5 + 8);
    let ctl = Ctl::new();
    let barrier = Arc::new(Barrier::new(p.producers + 1));

    // --- build the queue and one handle per producer
    let mut handles: Vec<Handle> = vec![];
    let rx;
    let mut track_for_stop: Option<Arc<SampleStreamTrack>> = None;
    // whatever the coordinator still owns of the sending side
    let mut keep_own: Option<SampleStreamSource> = None;
    let mut keep_shared: Option<Arc<SampleStreamSource>> = None;
    let mut _feedback = None;
    match p.queue {
        Queue::Track => {
            let (source, track, fb) = sample_track(kind, p.cap);
            _feedback = Some(fb);
            track_for_stop = Some(track.clone());
            rx = Rx::Track(track);
            if p.shared {
                let a = Arc::new(source);
                for _ in 0..p.producers {
                    handles.push(Handle::Shared(a.clone()));
                }
                keep_shared = Some(a);
            } else {
                for _ in 0..p.producers {
                    handles.push(Handle::Own(source.clone()));
                }
                keep_own = Some(source);
            }
        }
        Queue::Chan => {
            let (tx, src) = ChannelMediaSource::channel(kind, p.cap);
            handles.push(Handle::Chan(tx));
            rx = Rx::Chan(Some(src));
        }
        Queue::Ring => unreachable!(),
    }
    if !p.hold {
        keep_own = None;
        keep_shared = None;
    }

    // --- consumer thread
    let consumer = {
        let p = p.clone();
        let ctl = ctl.clone();
        let reg = reg.clone();
        let barrier = barrier.clone();
        std::thread::Builder::new()
            .name("c20-consumer".into())
            .spawn(move || consumer_thread(p, rx, ctl, reg, barrier))
    };
    let consumer = match consumer {
        Ok(c) => c,
        Err(e) => {
            out.inconclusive = Some(format!("cannot spawn consumer thread: {e}"));
            return out;
        }
    };

    // --- producer threads
    let mut joins = vec![];
    for (i, h) in handles.into_iter().enumerate() {
        let p2 = p.clone();
        let reg2 = reg.clone();
        let b2 = barrier.clone();
        let t2 = if i == 0 { track_for_stop.clone() } else { None };
        match std::thread::Builder::new()
            .name(format!("c20-producer-{i}"))
            .spawn(move || producer_thread(p2, i, h, t2, reg2, b2))
        {
            Ok(j) => joins.push(j),
            Err(e) => {
                // cannot finish the barrier protocol any more: give up on this process
                eprintln!("cannot spawn producer thread: {e}");
                std::process::exit(97);
            }
        }
    }
    drop(track_for_stop);

    let mut attempted_per: Vec<u64> = vec![];
    for j in joins {
        match j.join() {
            Ok(st) => {
                out.attempted += st.attempted;
                out.push_ok += st.ok;
                out.push_wouldblock += st.wouldblock;
                out.push_closed += st.closed;
                out.push_other_err += st.other;
                out.stop_called |= st.stop_called;
                attempted_per.push(st.attempted);
            }
            Err(_) => {
                out.violate(
                    format!("hist:panic-in-producer:{class}"),
                    "a producer thread panicked inside send/try_send/send_many".into(),
                );
                attempted_per.push(u64::MAX);
            }
        }
    }
    drop(keep_own);
    drop(keep_shared);
    // From here on nobody can push or wake any more.
    ctl.set_all_done();

    match consumer.join() {
        Ok(c) => {
            out.received = c.received;
            out.eos = c.eos;
            out.stuck = c.stuck;
            out.pendings = c.pendings;
            out.live_at_eos = c.live_at_eos;
            out.stop_called |= c.stop_called;
            let how = if out.stop_called { "stop" } else { "close" };
            for v in c.out.violations {
                out.violate(v.key.replace("@HOW@", how), v.what);
            }
            if out.inconclusive.is_none() {
                out.inconclusive = c.out.inconclusive;
            }
            // "equals exactly one PUSHED sample": the counter must have been attempted
            for (prod, mx) in c.max_counter.iter().enumerate() {
                let att = attempted_per.get(prod).copied().unwrap_or(0);
                if c.any[prod] && att != u64::MAX && *mx >= att {
                    out.violate(
                        format!("hist:corrupt:{class}"),
                        format!("received (producer {prod}, counter {mx}) but that producer only built counters < {att}"),
                    );
                }
            }
        }
        Err(_) => {
            out.violate(
                format!("hist:panic-in-consumer:{class}"),
                "the consumer thread panicked inside recv()".into(),
            );
        }
    }
    out.wakes = ctl.wakes.load(Ordering::SeqCst);

    // Everything (track, sources, received samples, the recv future) is dropped now.
    drop(_feedback);
    out.created = reg.created.load(Ordering::SeqCst);
    out.dropped = reg.dropped.load(Ordering::SeqCst);
    let dd = reg.double_drops.load(Ordering::SeqCst);
    if dd > 0 {
        out.violate(
            format!("hist:double-drop:{class}"),
            format!("{dd} payload buffer(s) were dropped twice"),
        );
    }
    if out.created != out.dropped {
        out.violate(
            format!("hist:leak:{class}"),
            format!(
                "after dropping track, sources and all received samples: {} payload buffers created, {} dropped",
                out.created, out.dropped
            ),
        );
    } else if !out.stop_called && out.eos && out.live_at_eos != 0 {
        // Nobody called stop(), the consumer saw EndOfStream (=> the last source was gone, so every push and
        // every overflow-drop had happened-before), yet `live_at_eos` samples were still sitting in the queue.
        out.violate(
            format!("hist:eos-before-drain:{class}"),
            format!(
                "EndOfStream returned while {} accepted sample(s) were still queued (never delivered; freed only when the queue was dropped)",
                out.live_at_eos
            ),
        );
    }
    out
}

struct ConsumerResult {
    out: Outcome,
    received: u64,
    eos: bool,
    stuck: bool,
    pendings: u64,
    live_at_eos: i64,
    stop_called: bool,
    max_counter: Vec<u64>,
    any: Vec<bool>,
}

fn consumer_thread(p: Params, mut rx: Rx, ctl: Arc<Ctl>, reg: Arc<Registry>, barrier: Arc<Barrier>) -> ConsumerResult {
    let class = p.class();
    sched_seed_thread(p.seed, 7);
    let mut chk = Checker::new(p.producers);
    let mut res = ConsumerResult {
        out: Outcome::default(),
        received: 0,
        eos: false,
        stuck: false,
        pendings: 0,
        live_at_eos: 0,
        stop_called: false,
        max_counter: vec![],
        any: vec![],
    };
    barrier.wait();
    loop {
        if let Stop::Consumer(n) = p.stop {
            if !res.stop_called && res.received >= n as u64 {
                res.stop_called = true;
                match &mut rx {
                    Rx::Track(t) => t.stop(),
                    Rx::Chan(c) => {
                        // the pipeline receiver has no stop(); its "stop" is dropping it
                        *c = None;
                        break;
                    }
                }
            }
        }
        let r = {
            let mut fut: Pin<Box<dyn Future<Output = Result<MediaSample, MediaError>> + Send + '_>> = match &mut rx {
                Rx::Track(t) => t.recv(),
                Rx::Chan(Some(c)) => c.next_sample(),
                Rx::Chan(None) => break,
            };
            drive(&ctl, &mut fut, &mut res.pendings)
        };
        match r {
            Driven::Ready(Ok(s)) => {
                res.received += 1;
                chk.check(&p, &s, &mut res.out);
                drop(s);
                if p.pace & 2 != 0 {
                    std::thread::yield_now();
                }
            }
            Driven::Ready(Err(MediaError::EndOfStream)) => {
                res.eos = true;
                res.live_at_eos = reg.live();
                break;
            }
            Driven::Ready(Err(e)) => {
                // the statement says nothing about other errors; stop observing
                res.out.inconclusive = Some(format!("recv() returned unexpected error {e:?}"));
                break;
            }
            Driven::Stuck => {
                res.stuck = true;
                // "@HOW@" becomes "stop" or "close" in run(), which knows whether stop() was really called
                res.out.violate(
                    format!("hist:lost-wakeup:{class}:@HOW@"),
                    format!(
                        "all producers joined and every source handle dropped, yet recv() polled afterwards returned Pending \
                         and its waker was not called: the consumer can never observe EndOfStream (received {} samples so far)",
                        res.received
                    ),
                );
                break;
            }
        }
    }
    res.max_counter = chk.max_counter.clone();
    res.any = chk.last.iter().map(|x| x.is_some()).collect();
    res
}

// ------------------------------------------------------------------ bare ring, used as documented

/// One pusher thread, one popper thread, nothing else touches the ring. Contract: exact FIFO, no loss
/// (push returns the value when full; the pusher retries), no duplicate, no leak.
fn run_ring(p: &Params) -> Outcome {
    let mut out = Outcome::default();
    let class = p.class();
    let reg = Registry::new(1, p.ops + 8);
    let ring: Arc<SpscRing<MediaSample>> = Arc::new(SpscRing::with_capacity(p.cap));
    let done = Arc::new(AtomicBool::new(false));
    let n = p.ops as u64;
    // leave `leave` samples inside so that Drop of a non-empty ring is exercised too
    let leave = (p.seed % 3).min(p.cap as u64).min(n);
    let prod = {
        let (ring, reg, p, done) = (ring.clone(), reg.clone(), p.clone(), done.clone());
        std::thread::spawn(move || {
            for c in 0..n {
                let mut s = make_sample(&p, 0, c, Some(&reg));
                loop {
                    match ring.push(s) {
                        Ok(()) => break,
                        Err(back) => {
                            s = back;
                            std::thread::yield_now();
                        }
                    }
                }
            }
            done.store(true, Ordering::SeqCst);
        })
    };
    let mut chk = Checker::new(1);
    let mut next = 0u64;
    while next < n - leave {
        match ring.pop() {
            Some(s) => {
                out.received += 1;
                chk.check(p, &s, &mut out);
                if chk.last[0] != Some(next) {
                    out.violate(
                        format!("hist:reorder:{class}"),
                        format!("ring popped counter {:?} where {next} was due (FIFO, nothing may be lost)", chk.last[0]),
                    );
                    break;
                }
                next += 1;
            }
            None => {
                out.pendings += 1;
                std::thread::yield_now();
            }
        }
    }
    // if the loop above bailed out on a violation the producer may spin on a full ring: keep popping
    while !done.load(Ordering::SeqCst) {
        if out.violations.is_empty() {
            std::thread::yield_now();
        } else {
            let _ = ring.pop();
        }
    }
    if prod.join().is_err() {
        out.violate(format!("hist:panic-in-producer:{class}"), "ring pusher panicked".into());
    }
    out.attempted = n;
    out.push_ok = n;
    out.eos = true;
    drop(ring);
    out.created = reg.created.load(Ordering::SeqCst);
    out.dropped = reg.dropped.load(Ordering::SeqCst);
    if reg.double_drops.load(Ordering::SeqCst) > 0 {
        out.violate(format!("hist:double-drop:{class}"), "payload dropped twice".into());
    }
    if out.created != out.dropped {
        out.violate(
            format!("hist:leak:{class}"),
            format!("ring dropped with {leave} element(s) inside: {} payloads created, {} dropped", out.created, out.dropped),
        );
    }
    out
}
