//! `trackprog key=value ...` - runs C20 scenarios (see scenario.rs) under a sanitizer.
//! Extra keys: reps=N (run N scenarios, seed, seed+1, ...), vary=1 (derive cap / mix / pace of each
//! repetition from its seed, for stress runs).
//! Output protocol (stdout), parsed by the engine:
//!   RESULT rep=<i> received=.. eos=.. stuck=.. pendings=.. lost=.. created=.. dropped=..
//!   ORACLE-VIOLATION key=<key> what=<text>
//!   ORACLE-INCONCLUSIVE <text>
//! Exit code 3 when the oracle saw a violation, 0 otherwise (sanitizer failures have their own codes).

mod scenario;

fn main() {
    let args: Vec<String> = std::env::args().skip(1).collect();
    let (base, rest) = match scenario::Params::from_args(&args) {
        Ok(x) => x,
        Err(e) => {
            eprintln!("trackprog: {e}");
            std::process::exit(2);
        }
    };
    let mut reps = 1u64;
    let mut vary = false;
    for (k, v) in rest {
        match k.as_str() {
            "reps" => reps = v.parse().unwrap_or(1),
            "vary" => vary = v != "0",
            _ => {
                eprintln!("trackprog: unknown key {k}");
                std::process::exit(2);
            }
        }
    }
    let mut bad = false;
    for i in 0..reps {
        let mut p = base.clone();
        p.seed = base.seed.wrapping_add(i);
        if vary {
            let mut r = scenario::Sm(p.seed ^ 0x7a7a);
            p.cap = [1, 2, 3, 4, 8, 16, 64][r.below(7) as usize].min(base.cap.max(1));
            p.pace = [0, 0, 1, 2, 3, 4][r.below(6) as usize];
            p.sched = [0, 0, 2, 3, 5, 10][r.below(6) as usize];
            p.shared = r.below(2) == 0;
            p.hold = r.below(2) == 0;
        }
        let out = scenario::run(&p);
        println!(
            "RESULT rep={i} received={} eos={} stuck={} pendings={} wakes={} lost={} push_ok={} wouldblock={} created={} dropped={}",
            out.received,
            out.eos as u8,
            out.stuck as u8,
            out.pendings,
            out.wakes,
            out.lost(),
            out.push_ok,
            out.push_wouldblock,
            out.created,
            out.dropped
        );
        if let Some(w) = &out.inconclusive {
            println!("ORACLE-INCONCLUSIVE {w}");
        }
        for v in &out.violations {
            bad = true;
            println!("ORACLE-VIOLATION key={} what={}", v.key, v.what.replace('\n', " "));
        }
    }
    if bad {
        std::process::exit(3);
    }
}
