//! Shared machinery: PRNG, CLI args, three-valued verdicts, evidence writer,
//! known-findings lookup, replay files, panic recorder, small helpers.

use serde_json::{Value, json};
use std::collections::{BTreeMap, BTreeSet, HashSet};
use std::path::{Path, PathBuf};
use std::sync::atomic::{AtomicU64, Ordering};
use std::time::Instant;

// ---------------------------------------------------------------- PRNG

/// SplitMix64 – the only source of harness randomness (seeded by VERIF_SEED).
#[derive(Clone, Debug)]
pub struct Rng(pub u64);

impl Rng {
    pub fn new(seed: u64) -> Self {
        Rng(seed.wrapping_mul(0x9E37_79B9_7F4A_7C15) ^ 0xD1B5_4A32_D192_ED03)
    }
    /// Derive an independent stream (e.g. one per scenario index).
    pub fn fork(&self, salt: u64) -> Rng {
        let mut r = Rng(self.0 ^ salt.wrapping_mul(0xBF58_476D_1CE4_E5B9).rotate_left(17));
        r.next_u64();
        r
    }
    pub fn next_u64(&mut self) -> u64 {
        self.0 = self.0.wrapping_add(0x9E37_79B9_7F4A_7C15);
        let mut z = self.0;
        z = (z ^ (z >> 30)).wrapping_mul(0xBF58_476D_1CE4_E5B9);
        z = (z ^ (z >> 27)).wrapping_mul(0x94D0_49BB_1331_11EB);
        z ^ (z >> 31)
    }
    pub fn u32(&mut self) -> u32 {
        (self.next_u64() >> 32) as u32
    }
    pub fn u16(&mut self) -> u16 {
        (self.next_u64() >> 48) as u16
    }
    pub fn u8(&mut self) -> u8 {
        (self.next_u64() >> 56) as u8
    }
    /// uniform in 0..n (n>0)
    pub fn below(&mut self, n: u64) -> u64 {
        if n == 0 {
            return 0;
        }
        self.next_u64() % n
    }
    pub fn usize_below(&mut self, n: usize) -> usize {
        self.below(n as u64) as usize
    }
    /// uniform in lo..=hi
    pub fn range(&mut self, lo: u64, hi: u64) -> u64 {
        lo + self.below(hi - lo + 1)
    }
    pub fn chance(&mut self, num: u64, den: u64) -> bool {
        self.below(den) < num
    }
    pub fn bool(&mut self) -> bool {
        self.next_u64() & 1 == 1
    }
    pub fn bytes(&mut self, n: usize) -> Vec<u8> {
        let mut v = Vec::with_capacity(n);
        while v.len() + 8 <= n {
            v.extend_from_slice(&self.next_u64().to_le_bytes());
        }
        while v.len() < n {
            v.push(self.u8());
        }
        v
    }
    pub fn pick<'a, T>(&mut self, xs: &'a [T]) -> &'a T {
        &xs[self.usize_below(xs.len())]
    }
    pub fn shuffle<T>(&mut self, xs: &mut [T]) {
        for i in (1..xs.len()).rev() {
            let j = self.usize_below(i + 1);
            xs.swap(i, j);
        }
    }
}

pub fn fnv64(data: &[u8]) -> u64 {
    let mut h: u64 = 0xcbf29ce484222325;
    for b in data {
        h ^= *b as u64;
        h = h.wrapping_mul(0x100000001b3);
    }
    h
}

pub fn hex(data: &[u8]) -> String {
    let mut s = String::with_capacity(data.len() * 2);
    for b in data {
        s.push_str(&format!("{:02x}", b));
    }
    s
}

pub fn unhex(s: &str) -> Vec<u8> {
    let s: Vec<u8> = s.bytes().filter(|b| b.is_ascii_hexdigit()).collect();
    s.chunks(2)
        .filter(|c| c.len() == 2)
        .map(|c| u8::from_str_radix(std::str::from_utf8(c).unwrap(), 16).unwrap())
        .collect()
}

/// hex with a cap, for witnesses
pub fn hex_cap(data: &[u8], cap: usize) -> String {
    if data.len() <= cap {
        hex(data)
    } else {
        format!("{}..(+{}B)", hex(&data[..cap]), data.len() - cap)
    }
}

// ---------------------------------------------------------------- args

#[derive(Clone, Copy, Debug, PartialEq, Eq)]
pub enum Tier {
    Quick,
    Thorough,
}

impl Tier {
    pub fn name(&self) -> &'static str {
        match self {
            Tier::Quick => "quick",
            Tier::Thorough => "thorough",
        }
    }
    pub fn pick<T>(&self, quick: T, thorough: T) -> T {
        match self {
            Tier::Quick => quick,
            Tier::Thorough => thorough,
        }
    }
}

#[derive(Clone, Debug)]
pub struct Args {
    pub prop: String,
    pub tier: Tier,
    pub seed: u64,
    pub replay: Option<PathBuf>,
    pub root: PathBuf,
    pub extra: Vec<String>,
}

impl Args {
    pub fn parse(argv: &[String]) -> Args {
        let mut a = Args {
            prop: argv.first().cloned().unwrap_or_default(),
            tier: Tier::Quick,
            seed: std::env::var("VERIF_SEED")
                .ok()
                .and_then(|s| s.parse().ok())
                .unwrap_or(1),
            replay: None,
            root: PathBuf::from(std::env::var("VERIF_ROOT").unwrap_or_else(|_| "/verif".into())),
            extra: vec![],
        };
        if let Ok(t) = std::env::var("VERIF_TIER") {
            if t == "thorough" {
                a.tier = Tier::Thorough;
            }
        }
        let mut i = 1;
        while i < argv.len() {
            match argv[i].as_str() {
                "--tier" => {
                    i += 1;
                    a.tier = if argv.get(i).map(|s| s.as_str()) == Some("thorough") {
                        Tier::Thorough
                    } else {
                        Tier::Quick
                    };
                }
                "--seed" => {
                    i += 1;
                    a.seed = argv.get(i).and_then(|s| s.parse().ok()).unwrap_or(a.seed);
                }
                "--replay" => {
                    i += 1;
                    a.replay = argv.get(i).map(PathBuf::from);
                }
                other => a.extra.push(other.to_string()),
            }
            i += 1;
        }
        a
    }
    pub fn has_flag(&self, f: &str) -> bool {
        self.extra.iter().any(|x| x == f)
    }
    pub fn opt(&self, name: &str) -> Option<String> {
        let mut it = self.extra.iter();
        while let Some(x) = it.next() {
            if x == name {
                return it.next().cloned();
            }
            if let Some(v) = x.strip_prefix(&format!("{name}=")) {
                return Some(v.to_string());
            }
        }
        None
    }
}

// ---------------------------------------------------------------- verdicts

#[derive(Clone, Debug)]
pub enum Verdict {
    Held,
    /// `key` is the precise signature matched against known_findings.json.
    Violated {
        key: String,
        what: String,
        witness: Value,
    },
    Inconclusive(String),
}

impl Verdict {
    pub fn violated(key: impl Into<String>, what: impl Into<String>, witness: Value) -> Verdict {
        Verdict::Violated {
            key: key.into(),
            what: what.into(),
            witness,
        }
    }
    pub fn is_violated(&self) -> bool {
        matches!(self, Verdict::Violated { .. })
    }
}

#[derive(Clone, Debug)]
pub struct Finding {
    pub property: String,
    pub key: String,
    pub status: String,
    pub what: String,
}

pub fn load_findings(root: &Path) -> Vec<Finding> {
    let p = root.join("known_findings.json");
    let Ok(s) = std::fs::read_to_string(&p) else {
        return vec![];
    };
    let Ok(v) = serde_json::from_str::<Value>(&s) else {
        eprintln!("warning: {} does not parse", p.display());
        return vec![];
    };
    let mut out = vec![];
    if let Some(arr) = v.get("findings").and_then(|x| x.as_array()) {
        for f in arr {
            out.push(Finding {
                property: f["property"].as_str().unwrap_or("").to_string(),
                key: f["key"].as_str().unwrap_or("").to_string(),
                status: f["status"].as_str().unwrap_or("").to_string(),
                what: f["what"].as_str().unwrap_or("").to_string(),
            });
        }
    }
    out
}

// ---------------------------------------------------------------- report / evidence

pub struct Report {
    pub prop: String,
    pub tier: Tier,
    pub seed: u64,
    pub level: String,
    pub root: PathBuf,
    pub start: Instant,
    pub rule: String,
    pub assumptions: Vec<String>,
    pub evaluations: u64,
    pub held: u64,
    pub nontrivial: HashSet<u64>,
    pub samples: Vec<Value>,
    pub max_samples: usize,
    pub counters: BTreeMap<String, u64>,
    pub sets: BTreeMap<String, BTreeSet<String>>,
    pub inconclusive: Vec<String>,
    pub inconclusive_n: u64,
    pub violations: Vec<(String, String, String)>, // key, what, replay path
    pub known_hits: BTreeMap<String, (String, u64)>,
    pub notes: Vec<String>,
    pub extra: BTreeMap<String, Value>,
    pub exhaustive: Option<bool>,
    findings: Vec<Finding>,
    replay_mode: bool,
}

impl Report {
    pub fn new(args: &Args, level: &str, rule: &str) -> Report {
        Report {
            prop: args.prop.clone(),
            tier: args.tier,
            seed: args.seed,
            level: level.to_string(),
            root: args.root.clone(),
            start: Instant::now(),
            rule: rule.to_string(),
            assumptions: vec![],
            evaluations: 0,
            held: 0,
            nontrivial: HashSet::new(),
            samples: vec![],
            max_samples: 6,
            counters: BTreeMap::new(),
            sets: BTreeMap::new(),
            inconclusive: vec![],
            inconclusive_n: 0,
            violations: vec![],
            known_hits: BTreeMap::new(),
            notes: vec![],
            extra: BTreeMap::new(),
            exhaustive: None,
            findings: load_findings(&args.root),
            replay_mode: args.replay.is_some(),
        }
    }

    pub fn assume(&mut self, s: &str) {
        self.assumptions.push(s.to_string());
    }
    pub fn note(&mut self, s: impl Into<String>) {
        self.notes.push(s.into());
    }
    pub fn count(&mut self, k: &str, n: u64) {
        *self.counters.entry(k.to_string()).or_insert(0) += n;
    }
    /// record a distinct observed thing (state, wire pattern, rule fired …)
    pub fn seen(&mut self, set: &str, item: impl Into<String>) {
        let s = self.sets.entry(set.to_string()).or_default();
        if s.len() < 100_000 {
            s.insert(item.into());
        }
    }
    pub fn sample(&mut self, v: Value) {
        if self.samples.len() < self.max_samples {
            self.samples.push(v);
        }
    }

    /// Record one scenario outcome. `scenario` must be a self-contained replayable JSON value.
    /// `nontrivial_hash`: Some(h) if the monitored mechanism was exercised (h = hash of the
    /// normalised scenario, for distinct counting).
    pub fn record(&mut self, scenario: &Value, nontrivial_hash: Option<u64>, verdict: Verdict) {
        self.evaluations += 1;
        if let Some(h) = nontrivial_hash {
            self.nontrivial.insert(h);
        }
        match verdict {
            Verdict::Held => {
                self.held += 1;
            }
            Verdict::Inconclusive(why) => {
                self.inconclusive_n += 1;
                if self.inconclusive.len() < 20 {
                    self.inconclusive.push(why);
                }
            }
            Verdict::Violated { key, what, witness } => {
                self.violation(scenario, &key, &what, witness);
            }
        }
    }

    /// Report a violation without counting an evaluation (for monitors that fire inside a run).
    pub fn violation(&mut self, scenario: &Value, key: &str, what: &str, witness: Value) {
        let known = self
            .findings
            .iter()
            .find(|f| f.property == self.prop && f.status == "open" && f.key == key)
            .cloned();
        if let Some(f) = known {
            let e = self
                .known_hits
                .entry(key.to_string())
                .or_insert((f.what.clone(), 0));
            if e.1 == 0 {
                println!("KNOWN-FINDING: property={} key={} {}", self.prop, key, f.what);
            }
            e.1 += 1;
            return;
        }
        // de-duplicate identical keys: one replay file per key, count the rest
        if let Some(_v) = self.violations.iter().find(|v| v.0 == key) {
            self.count(&format!("violation_repeat:{key}"), 1);
            return;
        }
        let body = json!({
            "property": self.prop,
            "key": key,
            "what": what,
            "seed": self.seed,
            "tier": self.tier.name(),
            "scenario": scenario,
            "witness": witness,
        });
        let text = serde_json::to_string_pretty(&body).unwrap();
        let h = fnv64(format!("{}{}", key, scenario).as_bytes());
        let dir = self.root.join("replays");
        let _ = std::fs::create_dir_all(&dir);
        let path = dir.join(format!("{}-{:016x}.json", self.prop, h));
        if !self.replay_mode {
            let _ = std::fs::write(&path, text);
        }
        println!("VIOLATION property={} replay={}", self.prop, path.display());
        println!("  key={key}");
        println!("  what={what}");
        self.violations
            .push((key.to_string(), what.to_string(), path.display().to_string()));
    }

    pub fn distinct_nontrivial(&self) -> u64 {
        self.nontrivial.len() as u64
    }

    /// Write evidence and return the process exit code.
    /// `min_verdicts`: fewer decided (held/violated/known) scenarios than this ⇒ broken run (2).
    pub fn finish(mut self, min_verdicts: u64, min_nontrivial: u64) -> i32 {
        let wall = self.start.elapsed().as_secs_f64();
        let decided = self.evaluations - self.inconclusive_n;
        let mut cov = serde_json::Map::new();
        cov.insert("evaluations".into(), json!(self.evaluations));
        cov.insert("distinct_nontrivial".into(), json!(self.distinct_nontrivial()));
        cov.insert("rule".into(), json!(self.rule));
        if self.samples.is_empty() {
            self.samples.push(json!({"note": "no sample recorded"}));
        }
        cov.insert("samples".into(), json!(self.samples));
        cov.insert("held".into(), json!(self.held));
        cov.insert("inconclusive".into(), json!(self.inconclusive_n));
        cov.insert("inconclusive_reasons".into(), json!(self.inconclusive));
        cov.insert("counters".into(), json!(self.counters));
        let mut sets = serde_json::Map::new();
        for (k, s) in &self.sets {
            let items: Vec<&String> = s.iter().take(40).collect();
            sets.insert(k.clone(), json!({"distinct": s.len(), "first": items}));
        }
        cov.insert("distinct_observed".into(), Value::Object(sets));
        let kh: Vec<Value> = self
            .known_hits
            .iter()
            .map(|(k, (w, n))| json!({"key": k, "what": w, "hits": n}))
            .collect();
        cov.insert("known_finding_hits".into(), json!(kh));
        let vs: Vec<Value> = self
            .violations
            .iter()
            .map(|(k, w, p)| json!({"key": k, "what": w, "replay": p}))
            .collect();
        cov.insert("violation_list".into(), json!(vs));
        cov.insert("notes".into(), json!(self.notes));
        if let Some(e) = self.exhaustive {
            cov.insert("exhaustive".into(), json!(e));
        }
        for (k, v) in std::mem::take(&mut self.extra) {
            cov.insert(k, v);
        }
        let ev = json!({
            "property_id": self.prop,
            "tier": self.tier.name(),
            "seed": self.seed,
            "level": self.level,
            "coverage": Value::Object(cov),
            "assumptions": self.assumptions,
            "wall_s": (wall * 1000.0).round() / 1000.0,
            "violations": self.violations.len(),
        });
        let code = if !self.violations.is_empty() {
            1
        } else if decided < min_verdicts || self.distinct_nontrivial() < min_nontrivial.max(2) {
            eprintln!(
                "BROKEN-RUN property={} decided={} (min {}) distinct_nontrivial={} (min {}) inconclusive={}",
                self.prop,
                decided,
                min_verdicts,
                self.distinct_nontrivial(),
                min_nontrivial.max(2),
                self.inconclusive_n
            );
            for r in &self.inconclusive {
                eprintln!("  inconclusive: {r}");
            }
            2
        } else {
            0
        };
        if !self.replay_mode {
            let dir = self.root.join("evidence");
            let _ = std::fs::create_dir_all(&dir);
            let path = dir.join(format!("{}.json", self.prop));
            if let Err(e) = std::fs::write(&path, serde_json::to_string_pretty(&ev).unwrap()) {
                eprintln!("cannot write evidence {}: {e}", path.display());
                return 2;
            }
        }
        println!(
            "SUMMARY property={} tier={} seed={} evaluations={} held={} nontrivial={} inconclusive={} known={} violations={} wall_s={:.1} exit={}",
            self.prop,
            self.tier.name(),
            self.seed,
            self.evaluations,
            self.held,
            self.distinct_nontrivial(),
            self.inconclusive_n,
            self.known_hits.len(),
            self.violations.len(),
            wall,
            code
        );
        code
    }
}

/// Load the scenario out of a replay file.
pub fn load_replay(path: &Path) -> Option<Value> {
    let s = std::fs::read_to_string(path).ok()?;
    let v: Value = serde_json::from_str(&s).ok()?;
    Some(v.get("scenario").cloned().unwrap_or(v))
}

pub fn hash_value(v: &Value) -> u64 {
    fnv64(v.to_string().as_bytes())
}

// ---------------------------------------------------------------- panic recorder

pub static PANIC_COUNT: AtomicU64 = AtomicU64::new(0);
static PANIC_LOG: parking_lot::Mutex<Vec<PanicRecord>> = parking_lot::Mutex::new(Vec::new());

#[derive(Clone, Debug)]
pub struct PanicRecord {
    pub thread: String,
    pub message: String,
    pub location: String,
}

/// Install a hook that records every panic in any thread / task (tokio catches task panics,
/// so without the hook they would be invisible). The default printing is suppressed unless
/// RTCMON_PANIC_TRACE is set.
pub fn install_panic_recorder() {
    let verbose = std::env::var("RTCMON_PANIC_TRACE").is_ok();
    let prev = std::panic::take_hook();
    std::panic::set_hook(Box::new(move |info| {
        PANIC_COUNT.fetch_add(1, Ordering::SeqCst);
        let msg = if let Some(s) = info.payload().downcast_ref::<&str>() {
            s.to_string()
        } else if let Some(s) = info.payload().downcast_ref::<String>() {
            s.clone()
        } else {
            "<non-string panic>".to_string()
        };
        let loc = info
            .location()
            .map(|l| format!("{}:{}", l.file(), l.line()))
            .unwrap_or_default();
        let th = std::thread::current().name().unwrap_or("?").to_string();
        let mut g = PANIC_LOG.lock();
        if g.len() < 10_000 {
            g.push(PanicRecord {
                thread: th,
                message: msg,
                location: loc,
            });
        }
        drop(g);
        if verbose {
            prev(info);
        }
    }));
}

pub fn panic_count() -> u64 {
    PANIC_COUNT.load(Ordering::SeqCst)
}

pub fn take_panics() -> Vec<PanicRecord> {
    std::mem::take(&mut *PANIC_LOG.lock())
}

/// normalise a panic location to `src/...:line` relative to the repo when possible
pub fn norm_location(loc: &str) -> String {
    if let Some(i) = loc.find("/repo/") {
        loc[i + 6..].to_string()
    } else if let Some(i) = loc.find("/registry/src/") {
        let rest = &loc[i + 14..];
        match rest.find('/') {
            Some(j) => rest[j + 1..].to_string(),
            None => rest.to_string(),
        }
    } else {
        loc.to_string()
    }
}

// ---------------------------------------------------------------- misc

pub fn thread_cpu_ns() -> u64 {
    let mut ts = libc::timespec {
        tv_sec: 0,
        tv_nsec: 0,
    };
    unsafe {
        libc::clock_gettime(libc::CLOCK_THREAD_CPUTIME_ID, &mut ts);
    }
    ts.tv_sec as u64 * 1_000_000_000 + ts.tv_nsec as u64
}

pub fn socket_fd_count() -> usize {
    let mut n = 0;
    if let Ok(rd) = std::fs::read_dir("/proc/self/fd") {
        for e in rd.flatten() {
            if let Ok(t) = std::fs::read_link(e.path()) {
                if t.to_string_lossy().starts_with("socket:") {
                    n += 1;
                }
            }
        }
    }
    n
}

pub fn build_runtime(threads: usize) -> tokio::runtime::Runtime {
    tokio::runtime::Builder::new_multi_thread()
        .worker_threads(threads)
        .enable_all()
        .build()
        .expect("tokio runtime")
}
