use rtcmon::common::Args;

// Counting allocator (DESIGN.md 2.4): per-thread allocated-bytes counter + sharded live-bytes
// estimate; a few ns per allocation, harmless for engines that do not read it.
#[global_allocator]
static GLOBAL: rtcmon::alloc_count::CountingAlloc = rtcmon::alloc_count::CountingAlloc;

fn main() {
    let argv: Vec<String> = std::env::args().skip(1).collect();
    if argv.is_empty() {
        eprintln!("usage: rtcmon <PROPERTY-ID> [--tier quick|thorough] [--seed N] [--replay file]");
        std::process::exit(2);
    }
    let args = Args::parse(&argv);
    rtcmon::common::install_panic_recorder();
    let code = match args.prop.as_str() {
        "C01" | "C12" | "C13" => rtcmon::engines::sctp_rig::run(&args),
        "C18" => rtcmon::engines::latch_enum::run(&args),
        "C15" => rtcmon::engines::codec_diff::run(&args),
        "C14" => rtcmon::engines::srtp_gate::run(&args),
        "C04" | "C05" => rtcmon::engines::srtp_diff::run(&args),
        "C03" => rtcmon::engines::dtls_rec::run(&args),
        "C02" | "C11" => rtcmon::engines::dtls_rig::run(&args),
        "C19" => rtcmon::engines::demux_bridge::run(&args),
        "C16" => rtcmon::engines::stun_diff::run(&args),
        "C06" => rtcmon::engines::ice_attack::run(&args),
        "C09" => rtcmon::engines::jsep_fsm::run(&args),
        "C08" => rtcmon::engines::sdp_neg::run(&args),
        "C17" => rtcmon::engines::lifecycle::run(&args),
        "C07" => rtcmon::engines::totality::run(&args),
        "C10" => rtcmon::engines::lattice::run(&args),
        "C20" => rtcmon::engines::track_hist::run(&args),
        other => {
            eprintln!("unknown property/engine {other}");
            2
        }
    };
    std::process::exit(code);
}
