use rtcmon::common::Args;

fn main() {
    let argv: Vec<String> = std::env::args().skip(1).collect();
    if argv.is_empty() {
        eprintln!("usage: rtcmon <PROPERTY-ID> [--tier quick|thorough] [--seed N] [--replay file]");
        std::process::exit(2);
    }
    let args = Args::parse(&argv);
    rtcmon::common::install_panic_recorder();
    let code = match args.prop.as_str() {
        other => {
            eprintln!("unknown property/engine {other}");
            2
        }
    };
    std::process::exit(code);
}
