//! C19 – inbound RTP reaches only the right receiver; bridged streams stay continuous.
//!
//! Two monitors over the real `rustrtc::transports::rtp::RtpTransport` (public API only):
//!
//! *Demux.*  A generated history of registrations (SSRC / RID / MID / payload-type list / single
//! payload type / provisional; overlapping PT lists; listeners closed or kept full by the harness)
//! and raw RTP packets (arbitrary SSRC / PT / CSRC count / one-byte and two-byte header extensions,
//! valid, absent, non-UTF-8, wrong id, malformed) is fed to `RtpTransport::receive`.  After every
//! packet all listener channels are drained.  The oracle is *safety only* – dropping a packet is
//! always accepted:
//!   (i)   at most one listener received the packet;
//!   (ii)  a packet that carries a RID registered to a live listener L reached L or nobody;
//!   (iii) else, a packet that carries a MID registered to a live listener L reached L or nobody;
//!   (iv)  else, a packet whose SSRC is bound (explicit registration, or learnt from the latest
//!         earlier packet of that SSRC that carried a registered RID/MID) reached the bound listener
//!         or nobody;
//!   (v)   else it did not reach a listener whose payload-type list is non-empty, lacks the packet's
//!         PT, while another live listener's list contains it ("handed to another media section");
//!   (vi)  a listener whose channel the harness closed never receives anything again;
//!   (vii) else the receiver is *identified* at all: it is the only live listener listing the PT
//!         ("unambiguous payload type") or the only live provisional listener.
//! What the statement leaves open is accepted: fall-back order between unambiguous-PT and
//! single-provisional routing; an SSRC binding the implementation may have learnt from an earlier
//! unambiguous-PT match ("soft" binding: delivery to that listener is accepted, not demanded);
//! registrations of closed listeners are void from the moment of closing, but because the
//! implementation learns about a closed channel lazily, a packet whose RID/MID points at a closed
//! listener may be dropped *or* fall through, and an explicit binding of that SSRC may or may not
//! survive it ("loose"); malformed extension blocks are judged under every reasonable reading.
//! The monitor's tracker records only what was registered and which bindings the packets imply;
//! the extension blocks are read by the harness's own RFC 8285 reader (cross-checked against the
//! reference `rtp` crate for the evidence counters).
//!
//! *Bridge.*  Rule tables (legacy params, catch-all, per-PT, DTMF remap, fixed SSRC / offset, MID
//! stamping, strip, optional video target) × 1–6 interleaved source SSRCs whose timestamps walk by
//! small steps (≤ 48 000 ticks, both signs = reorder), jump (≥ 10 M ticks, both directions) and
//! wrap 2^32; the output sequence counter wraps 2^16.  Output is captured from the target
//! transport's real UDP socket on loopback, in lock-step with the input (one `receive` → at most
//! one datagram), and parsed by the harness.  Oracle per source SSRC: one output SSRC (and it is
//! the SSRC some rule matched by the stream prescribes); output PT = matching rule's PT, else
//! unchanged; output sequence numbers +1 mod 2^16 in arrival order; `out_ts − src_ts` equal for
//! consecutive arrivals whose source step is small; and the per-stream output of the interleaved
//! run equals (up to the random initial sequence number / timestamp offset) the output of the same
//! stream sent alone through a fresh bridge.  MID stamping, stripping, payload and target choice
//! are *observed* (counters) – the statement does not constrain them.
//!
//! *Bridge, timeline clause ("continuous piece").*  The statement exempts *source discontinuities*;
//! a discontinuity is a property of the source stream's timeline, not of the order in which packets
//! happen to arrive – a reordered / late packet does not create one.  The consecutive-arrival rule
//! above cannot see an offset change that happens on the arrival *after* a late packet when that
//! arrival is far from the late packet but close to the stream's newest packet.  So the monitor
//! also keeps, per source stream, a *continuous piece*: a set of arrivals that began at an
//! unambiguous origin (the first packet of the stream, or a packet whose circular distance from
//! every earlier arrival of the stream is ≥ 10 M ticks – a discontinuity under any reading) and to
//! which a new arrival p belongs iff, on the source timeline unwrapped inside the piece,
//!   (a) p lies within `CONT_GAP` = 450 000 ticks of some member that arrived earlier, and
//!   (b) p is not older than the newest member by more than `LATE_MAX` = 600 000 ticks.
//! Every member has a continuous chain of earlier-arrived members (links ≤ 450 000) back to the
//! origin, at every moment, so no source discontinuity separates any two members and
//! `out_ts − src_ts` must be the same for all of them, whatever the arrival order.  An arrival
//! that neither joins nor is an unambiguous discontinuity (a grey step) ends the piece and nothing
//! is claimed by this clause until the next unambiguous origin (the statement is silent there);
//! the consecutive-arrival rule keeps applying everywhere.  Both bounds are the monitor's own
//! reading of "continuous" / "late" and deliberately far from the implementation's 900 000-tick
//! constant (any bridge whose discontinuity threshold is ≥ 450 000 and whose reorder tolerance is
//! ≥ 600 000 satisfies the clause; the pattern from a fault report "late by 3 000, then a pause of
//! 898 000" is *not* judged – 898 000 is a grey step).  The generator feeds this clause with
//! long-but-continuous pauses (48 001..450 000), stragglers (a packet up to 600 000 behind the
//! newest one, the stream then continuing from the newest) and the motif "pauses, straggler,
//! pause".

use crate::common::*;
use bytes::Bytes;
use futures::FutureExt;
use rustrtc::rtp::{RtpHeader, RtpPacket};
use rustrtc::transports::PacketReceiver;
use rustrtc::transports::ice::IceSocketWrapper;
use rustrtc::transports::ice::conn::IceConn;
use rustrtc::transports::rtp::RtpTransport;
use rustrtc::{RtpRewriteBridgeOptions, RtpRewriteBridgeParams, RtpRewriteRule};
use serde_json::{Value, json};
use std::collections::{BTreeMap, BTreeSet, HashMap, HashSet};
use std::net::SocketAddr;
use std::sync::Arc;
use tokio::sync::{mpsc, watch};

const SMALL_STEP: u32 = 48_000;
/// timeline clause: a member of a continuous piece lies within this many ticks of an earlier member
const CONT_GAP: i64 = 450_000;
/// timeline clause: a member is at most this much older than the newest member of its piece
const LATE_MAX: i64 = 600_000;
/// a step of at least this many ticks (circular distance) is a discontinuity under any reading
const JUMP_MIN: u32 = 10_000_000;
const DUMMY_TS: u32 = 0xFFFF_FFFF;

// =====================================================================================
// harness-own RTP reader / writer
// =====================================================================================

#[derive(Clone, Debug)]
struct Parsed {
    marker: bool,
    pt: u8,
    seq: u16,
    ts: u32,
    ssrc: u32,
    ext: Option<(u16, Vec<u8>)>,
    payload: Vec<u8>,
}

/// Strict RTP v2 reader (RFC 3550 §5.1). `None` = not a well-formed RTP packet.
fn parse_rtp(b: &[u8]) -> Option<Parsed> {
    if b.len() < 12 || b[0] >> 6 != 2 {
        return None;
    }
    let padding = b[0] & 0x20 != 0;
    let has_ext = b[0] & 0x10 != 0;
    let cc = (b[0] & 0x0F) as usize;
    let mut o = 12 + cc * 4;
    if b.len() < o {
        return None;
    }
    let mut ext = None;
    if has_ext {
        if b.len() < o + 4 {
            return None;
        }
        let profile = u16::from_be_bytes([b[o], b[o + 1]]);
        let words = u16::from_be_bytes([b[o + 2], b[o + 3]]) as usize;
        o += 4;
        if b.len() < o + words * 4 {
            return None;
        }
        ext = Some((profile, b[o..o + words * 4].to_vec()));
        o += words * 4;
    }
    let mut end = b.len();
    if padding {
        let p = *b.last()? as usize;
        if p == 0 || p > end - o {
            return None;
        }
        end -= p;
    }
    Some(Parsed {
        marker: b[1] & 0x80 != 0,
        pt: b[1] & 0x7F,
        seq: u16::from_be_bytes([b[2], b[3]]),
        ts: u32::from_be_bytes([b[4], b[5], b[6], b[7]]),
        ssrc: u32::from_be_bytes([b[8], b[9], b[10], b[11]]),
        ext,
        payload: b[o..end].to_vec(),
    })
}

struct ExtView {
    elems: Vec<(u8, Vec<u8>)>,
    /// false ⇒ the block is not a well-formed RFC 8285 block (readers may legitimately differ)
    clean: bool,
    form: &'static str,
}

/// RFC 8285 reader. One-byte form: profile 0xBEDE, id 15 terminates (elements before it count),
/// a zero byte is padding. Two-byte form: profile 0x100 | appbits (appbits are to be ignored by a
/// receiver, §4.3), zero byte is padding, length may be 0. Any other profile carries no elements.
fn parse_ext(profile: u16, d: &[u8]) -> ExtView {
    parse_ext_mode(profile, d, 0)
}

/// `mode` only matters for the one undefined one-byte case "id 0 with a non-zero length nibble":
/// 0 = stop reading, 1 = skip it like an element of that length, 2 = skip it like a padding byte.
/// In every mode the block is reported as not clean.
fn parse_ext_mode(profile: u16, d: &[u8], mode: u8) -> ExtView {
    let mut elems = vec![];
    let mut clean = true;
    if profile == 0xBEDE {
        let mut o = 0;
        while o < d.len() {
            let b = d[o];
            if b == 0 {
                o += 1;
                continue;
            }
            let id = b >> 4;
            let len = (b & 0x0F) as usize + 1;
            if id == 15 {
                break;
            }
            if id == 0 {
                // id 0 with a non-zero length nibble: not defined by RFC 8285
                clean = false;
                match mode {
                    1 => {
                        o += 1 + len;
                        continue;
                    }
                    2 => {
                        o += 1;
                        continue;
                    }
                    _ => break,
                }
            }
            if o + 1 + len > d.len() {
                clean = false;
                break;
            }
            elems.push((id, d[o + 1..o + 1 + len].to_vec()));
            o += 1 + len;
        }
        ExtView { elems, clean, form: "one" }
    } else if profile & 0xFFF0 == 0x1000 {
        let mut o = 0;
        while o < d.len() {
            let id = d[o];
            if id == 0 {
                o += 1;
                continue;
            }
            if o + 1 >= d.len() {
                clean = false;
                break;
            }
            let len = d[o + 1] as usize;
            if o + 2 + len > d.len() {
                clean = false;
                break;
            }
            elems.push((id, d[o + 2..o + 2 + len].to_vec()));
            o += 2 + len;
        }
        ExtView { elems, clean, form: if profile == 0x1000 { "two" } else { "two_appbits" } }
    } else {
        ExtView { elems, clean: true, form: "other" }
    }
}

/// what the reference `rtp` crate reads for extension `id` (None also when it rejects the packet)
fn ref_ext(raw: &[u8], id: u8) -> Option<Vec<u8>> {
    use webrtc_util::marshal::Unmarshal;
    // the reference reader itself panics on some malformed blocks (bytes::advance out of bounds)
    std::panic::catch_unwind(|| {
        let mut b = raw;
        let h = rtp::header::Header::unmarshal(&mut b).ok()?;
        h.get_extension(id).map(|x| x.to_vec())
    })
    .unwrap_or(None)
}

#[derive(Clone, Debug, Default)]
struct PktSpec {
    marker: bool,
    pt: u8,
    seq: u16,
    ts: u32,
    ssrc: u32,
    csrcs: Vec<u32>,
    /// (profile, raw block bytes – padded to 4 by the builder)
    ext: Option<(u16, Vec<u8>)>,
    payload: Vec<u8>,
}

fn build_rtp(p: &PktSpec) -> Vec<u8> {
    let mut v = Vec::with_capacity(64);
    v.push(0x80 | if p.ext.is_some() { 0x10 } else { 0 } | (p.csrcs.len() as u8 & 0x0F));
    v.push((p.pt & 0x7F) | if p.marker { 0x80 } else { 0 });
    v.extend_from_slice(&p.seq.to_be_bytes());
    v.extend_from_slice(&p.ts.to_be_bytes());
    v.extend_from_slice(&p.ssrc.to_be_bytes());
    for c in &p.csrcs {
        v.extend_from_slice(&c.to_be_bytes());
    }
    if let Some((profile, data)) = &p.ext {
        let mut d = data.clone();
        while d.len() % 4 != 0 {
            d.push(0);
        }
        v.extend_from_slice(&profile.to_be_bytes());
        v.extend_from_slice(&((d.len() / 4) as u16).to_be_bytes());
        v.extend_from_slice(&d);
    }
    v.extend_from_slice(&p.payload);
    v
}

fn one_byte_block(elems: &[(u8, Vec<u8>)], rng: &mut Rng, pad: bool) -> Vec<u8> {
    let mut d = vec![];
    for (id, val) in elems {
        if pad && rng.chance(1, 5) {
            d.push(0);
        }
        d.push((id << 4) | ((val.len() as u8).wrapping_sub(1) & 0x0F));
        d.extend_from_slice(val);
    }
    d
}

fn two_byte_block(elems: &[(u8, Vec<u8>)], rng: &mut Rng, pad: bool) -> Vec<u8> {
    let mut d = vec![];
    for (id, val) in elems {
        if pad && rng.chance(1, 5) {
            d.push(0);
        }
        d.push(*id);
        d.push(val.len() as u8);
        d.extend_from_slice(val);
    }
    d
}

/// location of the most recent recorded panic of the calling thread (the recorder is process-wide)
fn my_last_panic() -> String {
    let me = std::thread::current().name().unwrap_or("?").to_string();
    let all = take_panics();
    all.iter().rev().find(|p| p.thread == me).map(|p| norm_location(&p.location)).unwrap_or_default()
}

// =====================================================================================
// outcome plumbing
// =====================================================================================

#[derive(Default)]
struct Outcome {
    violations: Vec<(String, String, Value)>,
    inconclusive: Option<String>,
    nontrivial: bool,
    counters: BTreeMap<String, u64>,
    seen: Vec<(String, String)>,
    summary: Value,
}

impl Outcome {
    fn count(&mut self, k: &str, n: u64) {
        *self.counters.entry(k.to_string()).or_insert(0) += n;
    }
    fn seen(&mut self, set: &str, item: impl Into<String>) {
        self.seen.push((set.to_string(), item.into()));
    }
    fn violate(&mut self, key: impl Into<String>, what: impl Into<String>, witness: Value) {
        let key = key.into();
        if self.violations.iter().any(|v| v.0 == key) {
            return;
        }
        self.violations.push((key, what.into(), witness));
    }
}

// =====================================================================================
// DEMUX
// =====================================================================================

const SSRC_POOL: [u32; 8] = [0x1111, 0x2222, 0x3333, 0x4444, 0xdead_beef, 0, 0xffff_ffff, 1];
const PT_POOL: [u8; 8] = [0, 8, 96, 97, 98, 101, 111, 127];
const MID_POOL: [&str; 8] = ["0", "1", "2", "a", "audio", "video", "0123456789abcdef", "é"];
const RID_POOL: [&str; 6] = ["h", "m", "l", "hi", "0", "a"];

struct GenCtx {
    rid_ext: Option<u8>,
    mid_ext: Option<u8>,
    rids: Vec<String>,
    mids: Vec<String>,
}

fn pick_ext_id(rng: &mut Rng) -> Option<u8> {
    match rng.below(10) {
        0 => None,
        1 => Some(rng.range(15, 255) as u8), // reachable in the two-byte form only
        _ => Some(rng.range(1, 14) as u8),
    }
}

fn gen_value(rng: &mut Rng, registered: &[String], pool: &[&str]) -> Vec<u8> {
    match rng.below(20) {
        0..=12 if !registered.is_empty() => rng.pick(registered).as_bytes().to_vec(),
        13..=15 => rng.pick(pool).as_bytes().to_vec(),
        16 => {
            // not UTF-8
            let n = rng.range(1, 6) as usize;
            let mut v = rng.bytes(n);
            v[0] = 0xFF;
            v
        }
        17 => vec![],
        _ => {
            let n = rng.range(1, 16) as usize;
            (0..n).map(|_| b'a' + rng.below(26) as u8).collect()
        }
    }
}

fn gen_demux_pkt(rng: &mut Rng, ctx: &GenCtx, idx: u32) -> Vec<u8> {
    let mut p = PktSpec {
        marker: rng.chance(1, 10),
        pt: if rng.chance(17, 20) { *rng.pick(&PT_POOL) } else { rng.below(128) as u8 },
        seq: idx as u16,
        ts: idx,
        ssrc: if rng.chance(4, 5) { *rng.pick(&SSRC_POOL) } else { rng.u32() },
        csrcs: if rng.chance(1, 5) { (0..rng.range(1, 3)).map(|_| rng.u32()).collect() } else { vec![] },
        ext: None,
        payload: {
            let n = rng.below(40) as usize;
            rng.bytes(n)
        },
    };
    // element list
    let mut elems: Vec<(u8, Vec<u8>)> = vec![];
    if let Some(id) = ctx.rid_ext {
        if rng.chance(7, 20) {
            let id = if rng.chance(1, 15) { id.wrapping_add(1).max(1) } else { id }; // wrong id
            elems.push((id, gen_value(rng, &ctx.rids, &RID_POOL)));
        }
    }
    if let Some(id) = ctx.mid_ext {
        if rng.chance(11, 20) {
            let id = if rng.chance(1, 15) { id.wrapping_add(1).max(1) } else { id };
            elems.push((id, gen_value(rng, &ctx.mids, &MID_POOL)));
        }
    }
    for _ in 0..rng.below(3) {
        let id = rng.range(1, 14) as u8;
        if Some(id) == ctx.rid_ext || Some(id) == ctx.mid_ext {
            if !rng.chance(1, 8) {
                continue; // a duplicate of a routing id only rarely (ambiguous reading)
            }
        }
        let n = rng.range(1, 8) as usize;
        elems.push((id, rng.bytes(n)));
    }
    rng.shuffle(&mut elems);
    let kind = rng.below(100);
    if kind < 25 {
        // no extension at all
    } else if kind < 62 {
        // one-byte form: ids 1..14, 1..16 bytes
        let mut e: Vec<(u8, Vec<u8>)> = elems
            .iter()
            .filter(|(id, v)| (1..=14).contains(id) && !v.is_empty() && v.len() <= 16)
            .cloned()
            .collect();
        let mut d;
        if rng.chance(1, 12) && !e.is_empty() {
            // id-15 terminator somewhere: what follows must not be considered
            let cut = rng.usize_below(e.len() + 1);
            let tail = e.split_off(cut);
            d = one_byte_block(&e, rng, true);
            d.push(0xF0 | rng.below(16) as u8);
            d.extend_from_slice(&one_byte_block(&tail, rng, false));
        } else {
            d = one_byte_block(&e, rng, true);
        }
        p.ext = Some((0xBEDE, d));
    } else if kind < 85 {
        let e: Vec<(u8, Vec<u8>)> = elems.iter().filter(|(_, v)| v.len() <= 255).cloned().collect();
        let profile = if rng.chance(1, 25) { 0x1000 | rng.range(1, 15) as u16 } else { 0x1000 };
        p.ext = Some((profile, two_byte_block(&e, rng, true)));
    } else if kind < 89 {
        // a profile that is neither form: the bytes look like one-byte elements but carry nothing
        let e: Vec<(u8, Vec<u8>)> = elems
            .iter()
            .filter(|(id, v)| (1..=14).contains(id) && !v.is_empty() && v.len() <= 16)
            .cloned()
            .collect();
        let profile = *rng.pick(&[0xBEDFu16, 0x1234, 0x0000, 0x2000, 0xBEDD]);
        p.ext = Some((profile, one_byte_block(&e, rng, false)));
    } else {
        // malformed
        let e: Vec<(u8, Vec<u8>)> = elems
            .iter()
            .filter(|(id, v)| (1..=14).contains(id) && !v.is_empty() && v.len() <= 16)
            .cloned()
            .collect();
        let mut d = one_byte_block(&e, rng, false);
        match rng.below(5) {
            0 => {
                // last element claims more bytes than the block has
                d.push(((rng.range(1, 14) as u8) << 4) | 0x0F);
                d.push(b'x');
            }
            1 => {
                // id 0 with a length nibble in front
                d.insert(0, 0x03);
            }
            2 => {
                // two-byte block whose last length overruns
                d = two_byte_block(&elems, rng, false);
                d.push(rng.range(1, 255) as u8);
                d.push(200);
            }
            3 => {
                // header claims a longer extension than the packet holds
                let mut raw = build_rtp(&PktSpec { ext: Some((0xBEDE, d.clone())), payload: vec![], ..p.clone() });
                let o = 12 + p.csrcs.len() * 4 + 2;
                raw[o] = 0x7F;
                return raw;
            }
            _ => {
                // truncated fixed header or wrong version
                let mut raw = build_rtp(&p);
                if rng.bool() {
                    raw.truncate(rng.range(1, 11) as usize);
                } else {
                    raw[0] = (raw[0] & 0x3F) | ((rng.below(2) as u8 * 3) << 6); // version 0 or 3
                }
                return raw;
            }
        }
        p.ext = Some((if rng.chance(4, 5) { 0xBEDE } else { 0x1000 }, d));
    }
    build_rtp(&p)
}

fn gen_demux(rng: &mut Rng) -> Value {
    let n = rng.range(2, 6) as usize;
    let caps: Vec<u64> = (0..n).map(|_| rng.range(1, 4)).collect();
    let mut ops: Vec<Value> = vec![];
    let mut ctx = GenCtx { rid_ext: pick_ext_id(rng), mid_ext: pick_ext_id(rng), rids: vec![], mids: vec![] };
    if rng.chance(1, 25) {
        ctx.rid_ext = ctx.mid_ext; // same id for both
    }
    ops.push(json!({"op": "ext_ids", "rid": ctx.rid_ext, "mid": ctx.mid_ext}));
    // a PT universe for this scenario, small so that lists overlap
    let mut universe: Vec<u8> = PT_POOL.to_vec();
    rng.shuffle(&mut universe);
    universe.truncate(rng.range(2, 6) as usize);
    let gen_reg = |rng: &mut Rng, ctx: &mut GenCtx, l: usize, ops: &mut Vec<Value>| {
        match rng.below(12) {
            0 | 1 => ops.push(json!({"op": "reg_ssrc", "l": l, "ssrc": *rng.pick(&SSRC_POOL)})),
            2 => {
                let rid = if rng.chance(1, 6) && !ctx.rids.is_empty() {
                    rng.pick(&ctx.rids).clone() // duplicate registration of a RID
                } else {
                    rng.pick(&RID_POOL).to_string()
                };
                ctx.rids.push(rid.clone());
                ops.push(json!({"op": "reg_rid", "l": l, "rid": rid}));
            }
            3 | 4 | 5 => {
                let mid = if rng.chance(1, 8) && !ctx.mids.is_empty() {
                    rng.pick(&ctx.mids).clone()
                } else {
                    rng.pick(&MID_POOL).to_string()
                };
                ctx.mids.push(mid.clone());
                ops.push(json!({"op": "reg_mid", "l": l, "mid": mid}));
            }
            6 | 7 | 8 => {
                let k = rng.below(4) as usize;
                let mut pts: Vec<u8> = (0..k).map(|_| *rng.pick(&universe)).collect();
                if rng.chance(1, 10) {
                    pts.push(rng.below(128) as u8);
                }
                ops.push(json!({"op": "reg_pts", "l": l, "pts": pts}));
            }
            9 => ops.push(json!({"op": "reg_pt", "l": l, "pt": *rng.pick(&universe)})),
            _ => ops.push(json!({"op": "reg_prov", "l": l})),
        }
    };
    for l in 0..n {
        for _ in 0..rng.range(1, 4) {
            gen_reg(rng, &mut ctx, l, &mut ops);
        }
    }
    let mut idx: u32 = 1;
    // directed history (1 in 5 scenarios): a listener key (MID or RID) registered by one listener
    // and then again by a second one, the first listener goes away and a packet still reaches it
    // through a stale SSRC binding (closed-listener removal runs), then the key is used on a new
    // SSRC: the packet belongs to the listener that is still registered for the key
    if n >= 3 && rng.chance(1, 5) {
        let use_mid = rng.chance(3, 4);
        if use_mid && ctx.mid_ext.map_or(true, |i| i > 14) {
            ctx.mid_ext = Some(rng.range(1, 14) as u8);
        }
        if !use_mid && ctx.rid_ext.map_or(true, |i| i > 14) {
            ctx.rid_ext = Some(rng.range(1, 14) as u8);
        }
        if ctx.mid_ext == ctx.rid_ext {
            if use_mid { ctx.rid_ext = None } else { ctx.mid_ext = None }
        }
        ops.push(json!({"op": "ext_ids", "rid": ctx.rid_ext, "mid": ctx.mid_ext}));
        let key = if use_mid { rng.pick(&MID_POOL[..6]).to_string() } else { rng.pick(&RID_POOL).to_string() };
        let ext_id = if use_mid { ctx.mid_ext.unwrap() } else { ctx.rid_ext.unwrap() };
        let mut order: Vec<usize> = (0..n).collect();
        rng.shuffle(&mut order);
        let (first, second, other) = (order[0], order[1], order[2]);
        let reg_op = if use_mid { "reg_mid" } else { "reg_rid" };
        let field = if use_mid { "mid" } else { "rid" };
        let pt = *rng.pick(&universe);
        let s_old = 0x5000_0000 | rng.below(0x1000) as u32;
        let keyed = |ssrc: u32, idx: u32, with_key: bool| -> Value {
            let p = PktSpec {
                pt,
                seq: idx as u16,
                ts: idx,
                ssrc,
                ext: if with_key {
                    let mut d = vec![(ext_id << 4) | ((key.len() as u8 - 1) & 0x0F)];
                    d.extend_from_slice(key.as_bytes());
                    Some((0xBEDE, d))
                } else {
                    None
                },
                payload: vec![idx as u8; 4],
                ..Default::default()
            };
            json!({"op": "pkt", "hex": hex(&build_rtp(&p))})
        };
        ops.push(json!({"op": reg_op, "l": first, field: key.clone()}));
        if use_mid { ctx.mids.push(key.clone()) } else { ctx.rids.push(key.clone()) }
        // bind an SSRC to the first listener: explicitly or by a packet carrying the key
        if rng.bool() {
            ops.push(json!({"op": "reg_ssrc", "l": first, "ssrc": s_old}));
        } else {
            ops.push(keyed(s_old, idx, true));
            idx += 1;
        }
        ops.push(json!({"op": reg_op, "l": second, field: key.clone()}));
        // another media section that could wrongly take the traffic
        match rng.below(3) {
            0 => ops.push(json!({"op": "reg_prov", "l": other})),
            1 => ops.push(json!({"op": "reg_pts", "l": other, "pts": [pt]})),
            _ => {
                ops.push(json!({"op": "reg_prov", "l": other}));
                ops.push(json!({"op": "reg_pts", "l": other, "pts": [pt]}));
                ops.push(json!({"op": "reg_pts", "l": second, "pts": [pt]}));
            }
        }
        ops.push(json!({"op": "close", "l": first}));
        for _ in 0..rng.range(1, 2) {
            ops.push(keyed(s_old, idx, false));
            idx += 1;
        }
        for k in 0..rng.range(1, 3) {
            ops.push(keyed(0x6000_0000 | (k as u32) << 8 | rng.below(0x100) as u32, idx, true));
            idx += 1;
            if rng.bool() {
                ops.push(keyed(0x6000_0000 | (k as u32) << 8, idx, false));
                idx += 1;
            }
        }
    }
    let total = rng.range(20, 90);
    for _ in 0..total {
        match rng.below(100) {
            0..=71 => {
                let raw = gen_demux_pkt(rng, &ctx, idx);
                idx += 1;
                ops.push(json!({"op": "pkt", "hex": hex(&raw)}));
            }
            72..=85 => {
                let l = rng.usize_below(n);
                gen_reg(rng, &mut ctx, l, &mut ops);
            }
            86..=90 => ops.push(json!({"op": "close", "l": rng.usize_below(n)})),
            91..=94 => ops.push(json!({"op": "fill", "l": rng.usize_below(n)})),
            95..=97 => ops.push(json!({"op": "unfill", "l": rng.usize_below(n)})),
            _ => {
                if rng.bool() {
                    ctx.rid_ext = pick_ext_id(rng);
                } else {
                    ctx.mid_ext = pick_ext_id(rng);
                }
                ops.push(json!({"op": "ext_ids", "rid": ctx.rid_ext, "mid": ctx.mid_ext}));
            }
        }
    }
    json!({"kind": "demux", "caps": caps, "ops": ops})
}

type Item = (RtpPacket, SocketAddr);

struct Lst {
    tx: mpsc::Sender<Item>,
    rx: mpsc::Receiver<Item>,
    closed: bool,
    filled: bool,
    // what was registered (a record of the API calls, not of routing)
    pts: Vec<u8>,
    prov: bool,
}

#[derive(Default, Clone, Debug)]
struct SsrcState {
    /// definitely-bound listener (explicit registration or RID/MID-learnt)
    hard: Option<usize>,
    /// the hard binding may have been erased by a packet that pointed at a closed listener
    loose: bool,
    /// listeners the implementation may have bound this SSRC to after an unambiguous-PT match
    soft: BTreeSet<usize>,
    /// a packet with a malformed / ambiguous extension block made the binding unknowable
    unknown: bool,
}

/// registrants of one RID / MID string, in registration order
#[derive(Default, Clone, Debug)]
struct Registrants(Vec<usize>);

struct Target {
    live: Vec<usize>,
    closed_any: bool,
    /// the most recent registrant of the string, if it is still live: registering a RID / MID
    /// again replaces the earlier registration, so this is the receiver the string identifies
    /// now - whatever happened to earlier registrants
    current: Option<usize>,
}

struct Model {
    rid: BTreeMap<String, Registrants>,
    mid: BTreeMap<String, Registrants>,
    ssrc: HashMap<u32, SsrcState>,
    rid_ext: Option<u8>,
    mid_ext: Option<u8>,
}

impl Model {
    fn target(map: &BTreeMap<String, Registrants>, val: &Option<Vec<u8>>, ls: &[Lst]) -> Option<Target> {
        let v = val.as_ref()?;
        let s = std::str::from_utf8(v).ok()?;
        let r = map.get(s)?;
        if r.0.is_empty() {
            return None;
        }
        let mut live: Vec<usize> = vec![];
        let mut closed_any = false;
        for &l in &r.0 {
            if ls[l].closed {
                closed_any = true;
            } else if !live.contains(&l) {
                live.push(l);
            }
        }
        let current = r.0.last().copied().filter(|&l| !ls[l].closed);
        Some(Target { live, closed_any, current })
    }
}

fn live_listing(ls: &[Lst], pt: u8, except: Option<usize>) -> Vec<usize> {
    (0..ls.len())
        .filter(|&i| Some(i) != except && !ls[i].closed && ls[i].pts.contains(&pt))
        .collect()
}

fn live_prov(ls: &[Lst], except: Option<usize>) -> Vec<usize> {
    (0..ls.len()).filter(|&i| Some(i) != except && !ls[i].closed && ls[i].prov).collect()
}

/// Is delivery of this packet to listener `l` acceptable under one reading (rid, mid) of its
/// extension block?  Ok(class of identification) or Err((clause, detail)).
fn judge(
    m: &Model,
    ls: &[Lst],
    l: usize,
    ssrc: u32,
    pt: u8,
    rid: &Option<Vec<u8>>,
    mid: &Option<Vec<u8>>,
) -> Result<&'static str, (&'static str, String)> {
    if let Some(t) = Model::target(&m.rid, rid, ls) {
        if t.live.contains(&l) {
            return Ok("rid");
        }
        if !t.closed_any {
            return Err(("ii", format!("rid registered to {:?}", t.live)));
        }
        if let Some(c) = t.current {
            return Err(("ii", format!("rid currently registered to {c} (earlier registrants closed)")));
        }
    }
    if let Some(t) = Model::target(&m.mid, mid, ls) {
        if t.live.contains(&l) {
            return Ok("mid");
        }
        if !t.closed_any {
            return Err(("iii", format!("mid registered to {:?}", t.live)));
        }
        if let Some(c) = t.current {
            return Err(("iii", format!("mid currently registered to {c} (earlier registrants closed)")));
        }
    }
    let st = m.ssrc.get(&ssrc).cloned().unwrap_or_default();
    if st.unknown {
        return Ok("unknown_binding");
    }
    if st.hard == Some(l) {
        return Ok("ssrc");
    }
    if let Some(h) = st.hard {
        if !st.loose {
            return Err(("iv", format!("ssrc bound to {h}")));
        }
    }
    if st.soft.contains(&l) {
        return Ok("ssrc_learnt_from_pt");
    }
    let listed = ls[l].pts.contains(&pt);
    let others = live_listing(ls, pt, Some(l));
    if !ls[l].pts.is_empty() && !listed && !others.is_empty() {
        return Err((
            "v",
            format!(
                "receiver lists {:?}, pt {pt} is listed by {:?}; receiver_provisional={}",
                ls[l].pts, others, ls[l].prov
            ),
        ));
    }
    if listed && others.is_empty() {
        return Ok("pt");
    }
    if ls[l].prov && live_prov(ls, Some(l)).is_empty() {
        return Ok(if !ls[l].pts.is_empty() && !listed { "provisional_unlisted_pt" } else { "provisional" });
    }
    if listed {
        Err(("vii", format!("pt {pt} ambiguous: also listed by {:?}", others)))
    } else {
        Err(("vii", format!("no registration of the receiver identifies the packet (pt {pt})")))
    }
}

/// Update the binding tracker for one reading of the packet. `delivered`: who got it.
fn track(m: &mut Model, ls: &[Lst], ssrc: u32, pt: u8, rid: &Option<Vec<u8>>, mid: &Option<Vec<u8>>, delivered: Option<usize>) {
    let rt = Model::target(&m.rid, rid, ls);
    let mt = Model::target(&m.mid, mid, ls);
    let st = m.ssrc.entry(ssrc).or_default();
    let mut fell_through_closed = false;
    for t in [rt, mt].into_iter().flatten() {
        if t.closed_any {
            if t.live.is_empty() {
                // only closed registrants: the packet was dropped there, or the stale entry had
                // already been pruned and the packet fell through to the next stage
                fell_through_closed = true;
                continue;
            }
            // a closed registrant may shadow the live one(s): drop, delivery to a live registrant
            // and fall-through are all possible, and so is every binding outcome
            st.unknown = true;
            return;
        }
        if let Some(d) = delivered {
            if t.live.contains(&d) {
                *st = SsrcState { hard: Some(d), ..Default::default() };
                return;
            }
        }
        if t.live.len() == 1 {
            // selected even if the channel was full: the binding is learnt from the packet.
            // If an earlier stage (RID) pointed at a closed listener the implementation may instead
            // have selected that one, failed, and erased the SSRC entry: the binding is then loose.
            *st = SsrcState { hard: Some(t.live[0]), loose: fell_through_closed, ..Default::default() };
            return;
        }
        // several live registrants and none of them got it: which one was selected is unknowable
        st.unknown = true;
        return;
    }
    if fell_through_closed && st.hard.is_some() {
        st.loose = true;
    }
    if st.unknown {
        return;
    }
    if st.hard.is_none() || st.loose {
        let listing = live_listing(ls, pt, None);
        if listing.len() == 1 {
            st.soft.insert(listing[0]);
        }
    }
}

fn candidates(view: &ExtView, raw: &[u8], id: Option<u8>) -> Vec<Option<Vec<u8>>> {
    let Some(id) = id else { return vec![None] };
    let mut out: Vec<Option<Vec<u8>>> = vec![];
    for (i, v) in &view.elems {
        if *i == id && !out.contains(&Some(v.clone())) {
            out.push(Some(v.clone()));
        }
    }
    if !view.clean {
        if !out.contains(&None) {
            out.push(None);
        }
        if let Some((profile, data)) = parse_rtp(raw).and_then(|p| p.ext) {
            for mode in [1u8, 2] {
                for (i, v) in &parse_ext_mode(profile, &data, mode).elems {
                    if *i == id && !out.contains(&Some(v.clone())) {
                        out.push(Some(v.clone()));
                    }
                }
            }
        }
        let r = ref_ext(raw, id);
        if !out.contains(&r) {
            out.push(r);
        }
    }
    if out.is_empty() {
        out.push(None);
    }
    out
}

async fn run_demux(scn: &Value) -> Outcome {
    let mut out = Outcome::default();
    let caps: Vec<usize> = scn["caps"].as_array().map(|a| a.iter().map(|c| c.as_u64().unwrap_or(1).max(1) as usize).collect()).unwrap_or_default();
    let empty = vec![];
    let ops = scn["ops"].as_array().unwrap_or(&empty);
    if caps.is_empty() {
        out.inconclusive = Some("scenario without listeners".into());
        return out;
    }
    let (_sock_tx, sock_rx) = watch::channel(None::<IceSocketWrapper>);
    let conn = IceConn::new(sock_rx, "127.0.0.1:1234".parse().unwrap(), None);
    let transport = RtpTransport::new(conn, false);
    let addr: SocketAddr = "127.0.0.1:5000".parse().unwrap();
    let mut ls: Vec<Lst> = caps
        .iter()
        .map(|&c| {
            let (tx, rx) = mpsc::channel::<Item>(c);
            Lst { tx, rx, closed: false, filled: false, pts: vec![], prov: false }
        })
        .collect();
    let mut m = Model { rid: BTreeMap::new(), mid: BTreeMap::new(), ssrc: HashMap::new(), rid_ext: None, mid_ext: None };
    let mut marshal_buf = Vec::with_capacity(1500);
    let mut delivered_total = 0u64;
    let mut dropped_total = 0u64;
    let mut classes: BTreeSet<&'static str> = BTreeSet::new();

    for (opi, op) in ops.iter().enumerate() {
        let l = op["l"].as_u64().unwrap_or(0) as usize % ls.len();
        match op["op"].as_str().unwrap_or("") {
            "ext_ids" => {
                m.rid_ext = op["rid"].as_u64().map(|x| x as u8);
                m.mid_ext = op["mid"].as_u64().map(|x| x as u8);
                transport.set_rid_extension_id(m.rid_ext);
                transport.set_sdes_mid_extension_id(m.mid_ext);
            }
            "reg_ssrc" => {
                let s = op["ssrc"].as_u64().unwrap_or(0) as u32;
                transport.register_listener_sync(s, ls[l].tx.clone());
                // an explicit registration replaces whatever was known about this SSRC; registering
                // a closed listener leaves the SSRC unbound (the stale entry can only drop)
                let st = SsrcState { hard: if ls[l].closed { None } else { Some(l) }, ..Default::default() };
                m.ssrc.insert(s, st);
                out.count("reg.ssrc", 1);
            }
            "reg_rid" => {
                let s = op["rid"].as_str().unwrap_or("").to_string();
                transport.register_rid_listener(s.clone(), ls[l].tx.clone());
                m.rid.entry(s).or_default().0.push(l);
                out.count("reg.rid", 1);
            }
            "reg_mid" => {
                let s = op["mid"].as_str().unwrap_or("").to_string();
                transport.register_mid_listener(s.clone(), ls[l].tx.clone());
                m.mid.entry(s).or_default().0.push(l);
                out.count("reg.mid", 1);
            }
            "reg_pts" => {
                let pts: Vec<u8> = op["pts"].as_array().map(|a| a.iter().map(|x| x.as_u64().unwrap_or(0) as u8).collect()).unwrap_or_default();
                transport.register_payload_list_listener(pts.clone(), ls[l].tx.clone());
                ls[l].pts.clear(); // documented: replaces the list
                for p in pts {
                    if !ls[l].pts.contains(&p) {
                        ls[l].pts.push(p);
                    }
                }
                out.count("reg.pt_list", 1);
            }
            "reg_pt" => {
                let p = op["pt"].as_u64().unwrap_or(0) as u8;
                transport.register_pt_listener(p, ls[l].tx.clone());
                if !ls[l].pts.contains(&p) {
                    ls[l].pts.push(p);
                }
                out.count("reg.pt", 1);
            }
            "reg_prov" => {
                transport.register_provisional_listener(ls[l].tx.clone());
                ls[l].prov = true;
                out.count("reg.provisional", 1);
            }
            "close" => {
                if !ls[l].closed {
                    ls[l].rx.close();
                    while ls[l].rx.try_recv().is_ok() {}
                    ls[l].closed = true;
                    ls[l].filled = false;
                    // all registrations and bindings of this listener are void from now on
                    for st in m.ssrc.values_mut() {
                        if st.hard == Some(l) {
                            st.hard = None;
                            st.loose = false;
                        }
                        st.soft.remove(&l);
                    }
                    out.count("op.close", 1);
                }
            }
            "fill" => {
                if !ls[l].closed && !ls[l].filled {
                    // the harness itself fills the channel to capacity: every delivery now drops
                    loop {
                        let d = RtpPacket::new(RtpHeader::new(127, 0, DUMMY_TS, 0), vec![]);
                        if ls[l].tx.try_send((d, addr)).is_err() {
                            break;
                        }
                    }
                    ls[l].filled = true;
                    out.count("op.fill", 1);
                }
            }
            "unfill" => {
                if ls[l].filled {
                    while let Ok((p, _)) = ls[l].rx.try_recv() {
                        if p.header.timestamp != DUMMY_TS {
                            out.inconclusive = Some("harness: a full channel held a real packet".into());
                        }
                    }
                    ls[l].filled = false;
                }
            }
            "pkt" => {
                let raw = unhex(op["hex"].as_str().unwrap_or(""));
                let fut = transport.receive(Bytes::from(raw.clone()), addr, &mut marshal_buf);
                let r = std::panic::AssertUnwindSafe(fut).catch_unwind().await;
                if r.is_err() {
                    let loc = my_last_panic();
                    out.count("panic_in_receive", 1);
                    out.inconclusive = Some(format!("panic inside RtpTransport::receive at {loc} (a C07 matter); scenario abandoned"));
                    return out;
                }
                // drain everything
                let mut got: Vec<usize> = vec![];
                let parsed = parse_rtp(&raw);
                let want_ts = parsed.as_ref().map(|p| p.ts);
                for (i, li) in ls.iter_mut().enumerate() {
                    if li.filled {
                        continue;
                    }
                    while let Ok((p, _)) = li.rx.try_recv() {
                        if li.closed {
                            out.violate(
                                "demux.vi.closed_listener_received",
                                "a listener whose channel had been closed received a packet",
                                json!({"op_index": opi, "listener": i}),
                            );
                        }
                        if Some(p.header.timestamp) != want_ts {
                            out.violate(
                                "demux.delivered_packet_differs",
                                "a listener received something that is not the packet just fed (timestamp differs)",
                                json!({"op_index": opi, "listener": i, "got_ts": p.header.timestamp, "fed": hex_cap(&raw, 64)}),
                            );
                        }
                        got.push(i);
                    }
                }
                out.count("packets", 1);
                if got.len() > 1 {
                    out.violate(
                        "demux.i.multi_delivery",
                        "one packet was delivered more than once",
                        json!({"op_index": opi, "receivers": got, "packet": hex_cap(&raw, 64)}),
                    );
                }
                let Some(p) = parsed else {
                    out.count("pkt.not_rtp", 1);
                    if !got.is_empty() {
                        out.count("obs.delivered_although_harness_reader_rejects", 1);
                    }
                    continue;
                };
                if (192..=208).contains(&raw[1]) {
                    out.count("pkt.rtcp_range", 1);
                    if !got.is_empty() {
                        out.count("obs.rtcp_range_delivered", 1);
                    }
                    continue;
                }
                let view = match &p.ext {
                    Some((profile, data)) => parse_ext(*profile, data),
                    None => ExtView { elems: vec![], clean: true, form: "none" },
                };
                out.count(&format!("pkt.ext_form.{}{}", view.form, if view.clean { "" } else { ".malformed" }), 1);
                let rids = candidates(&view, &raw, m.rid_ext);
                let mids = candidates(&view, &raw, m.mid_ext);
                if view.clean && (view.form == "one" || view.form == "two") {
                    // evidence only: does the reference reader see the same values?
                    for (id, c) in [(m.rid_ext, &rids), (m.mid_ext, &mids)] {
                        if let (Some(id), 1) = (id, c.len()) {
                            let r = ref_ext(&raw, id);
                            // the reference crate reports a zero-length element as Some(empty)
                            if r == c[0] {
                                out.count("ref_reader.agree", 1);
                            } else {
                                out.count("ref_reader.differ", 1);
                            }
                        }
                    }
                }
                let readings: Vec<(Option<Vec<u8>>, Option<Vec<u8>>)> =
                    rids.iter().flat_map(|r| mids.iter().map(move |mm| (r.clone(), mm.clone()))).collect();
                if readings.len() > 1 {
                    out.count("pkt.ambiguous_readings", 1);
                }
                let receiver = got.first().copied();
                if let Some(l) = receiver {
                    delivered_total += 1;
                    let mut verdicts = vec![];
                    for (r, mm) in &readings {
                        verdicts.push(judge(&m, &ls, l, p.ssrc, p.pt, r, mm));
                    }
                    if let Some(Ok(class)) = verdicts.iter().find(|v| v.is_ok()) {
                        out.count(&format!("delivered.by.{class}"), 1);
                        classes.insert(class);
                        if *class == "provisional_unlisted_pt" {
                            out.count("obs.single_provisional_got_pt_outside_its_own_list", 1);
                        }
                    } else if let Some(Err((clause, detail))) = verdicts.first() {
                        let mut key = match *clause {
                            "ii" => "demux.ii.rid_misdelivered".to_string(),
                            "iii" => "demux.iii.mid_misdelivered".to_string(),
                            "iv" => "demux.iv.ssrc_bound_misdelivered".to_string(),
                            "v" => {
                                // signature of the situation, from the registrations alone
                                let role = if !ls[l].prov {
                                    "not_provisional"
                                } else if live_prov(&ls, Some(l)).is_empty() {
                                    "single_provisional"
                                } else {
                                    "one_of_several_provisional"
                                };
                                let others = live_listing(&ls, p.pt, Some(l)).len();
                                format!("demux.v.other_section_pt:receiver={role},pt_listed_by_others={}", if others >= 2 { "2+" } else { "1" })
                            }
                            _ => {
                                if ls[l].pts.contains(&p.pt) {
                                    "demux.vii.unidentified_receiver:pt_ambiguous".to_string()
                                } else {
                                    "demux.vii.unidentified_receiver:no_route".to_string()
                                }
                            }
                        };
                        if (*clause == "ii" || *clause == "iii") && view.form != "one" && view.form != "two" {
                            key.push_str(&format!(":ext={}", view.form));
                        }
                        let regs: Vec<Value> = ls
                            .iter()
                            .enumerate()
                            .map(|(i, x)| json!({"l": i, "closed": x.closed, "full": x.filled, "pts": x.pts, "provisional": x.prov}))
                            .collect();
                        out.violate(
                            key,
                            format!("clause ({clause}): packet delivered to listener {l}, but {detail}"),
                            json!({
                                "op_index": opi, "receiver": l, "packet": hex_cap(&raw, 80),
                                "ssrc": p.ssrc, "pt": p.pt,
                                "rid_read": rids.iter().map(|x| x.as_ref().map(|v| String::from_utf8_lossy(v).to_string())).collect::<Vec<_>>(),
                                "mid_read": mids.iter().map(|x| x.as_ref().map(|v| String::from_utf8_lossy(v).to_string())).collect::<Vec<_>>(),
                                "ext_form": view.form,
                                "binding": format!("{:?}", m.ssrc.get(&p.ssrc)),
                                "rid_ext": m.rid_ext, "mid_ext": m.mid_ext,
                                "listeners": regs,
                                "mid_registrants": m.mid.iter().map(|(k, v)| json!([k, v.0])).collect::<Vec<_>>(),
                                "rid_registrants": m.rid.iter().map(|(k, v)| json!([k, v.0])).collect::<Vec<_>>(),
                            }),
                        );
                    }
                } else {
                    dropped_total += 1;
                    out.count("dropped", 1);
                }
                if std::env::var("C19_TRACE").is_ok() {
                    eprintln!("op {opi}: ssrc {:#x} pt {} form {} rids {:?} mids {:?} -> receiver {:?}; state before {:?}", p.ssrc, p.pt, view.form, rids, mids, receiver, m.ssrc.get(&p.ssrc));
                }
                if !out.violations.is_empty() {
                    // the tracker may be out of step with the implementation from here on
                    break;
                }
                // tracker update
                let appbits_target = view.form == "two_appbits"
                    && readings.iter().any(|(r, mm)| Model::target(&m.rid, r, &ls).is_some() || Model::target(&m.mid, mm, &ls).is_some());
                if appbits_target {
                    // rustrtc does not read two-byte blocks whose profile has non-zero appbits (reported
                    // through clauses (ii)/(iii) when it misdelivers such a packet). Whether this packet
                    // taught it a binding is therefore unknowable – do not derive later verdicts from it.
                    m.ssrc.entry(p.ssrc).or_default().unknown = true;
                    out.count("pkt.appbits_routing_ext_binding_unknown", 1);
                } else if readings.len() == 1 {
                    let (r, mm) = &readings[0];
                    track(&mut m, &ls, p.ssrc, p.pt, r, mm, receiver);
                } else {
                    let any_target = readings.iter().any(|(r, mm)| {
                        Model::target(&m.rid, r, &ls).is_some() || Model::target(&m.mid, mm, &ls).is_some()
                    });
                    if any_target {
                        m.ssrc.entry(p.ssrc).or_default().unknown = true;
                    } else {
                        track(&mut m, &ls, p.ssrc, p.pt, &None, &None, receiver);
                    }
                }
            }
            _ => {}
        }
    }
    out.nontrivial = delivered_total >= 1 && dropped_total >= 1;
    for c in &classes {
        out.seen("demux.identification_classes", *c);
    }
    let mut cs: Vec<&str> = classes.iter().copied().collect();
    cs.sort();
    out.seen("demux.class_combinations", cs.join("+"));
    out.summary = json!({"kind": "demux", "listeners": ls.len(), "ops": ops.len(), "delivered": delivered_total, "dropped": dropped_total, "classes": cs});
    out
}

// =====================================================================================
// BRIDGE
// =====================================================================================

#[derive(Clone, Debug)]
struct RuleSpec {
    match_pt: Option<u8>,
    fixed: Option<u32>,
    offset: u32,
    out_pt: Option<u8>,
    mid_ext: Option<u8>,
    mid: Option<String>,
}

fn opt_u(v: &Value) -> Option<u64> {
    v.as_u64()
}

/// The rule table the scenario asks for, as documented for `RtpRewriteBridgeParams`
/// (catch-all + optional DTMF rule sharing the SSRC rewrite) or given explicitly.
fn rules_of(scn: &Value) -> Vec<RuleSpec> {
    if scn["mode"] == "legacy" {
        let p = &scn["legacy"];
        let fixed = opt_u(&p["fixed"]).map(|x| x as u32);
        let offset = opt_u(&p["ssrc_offset"]).unwrap_or(0) as u32;
        let mut v = vec![RuleSpec { match_pt: None, fixed, offset, out_pt: opt_u(&p["pt"]).map(|x| x as u8), mid_ext: None, mid: None }];
        if let Some(d) = p["dtmf"].as_array() {
            if d.len() == 2 {
                v.push(RuleSpec {
                    match_pt: Some(d[0].as_u64().unwrap_or(0) as u8),
                    fixed,
                    offset,
                    out_pt: Some(d[1].as_u64().unwrap_or(0) as u8),
                    mid_ext: None,
                    mid: None,
                });
            }
        }
        v
    } else {
        scn["rules"]
            .as_array()
            .map(|a| {
                a.iter()
                    .map(|r| RuleSpec {
                        match_pt: opt_u(&r["match_pt"]).map(|x| x as u8),
                        fixed: opt_u(&r["fixed"]).map(|x| x as u32),
                        offset: opt_u(&r["offset"]).unwrap_or(0) as u32,
                        out_pt: opt_u(&r["out_pt"]).map(|x| x as u8),
                        mid_ext: opt_u(&r["mid_ext"]).map(|x| x as u8),
                        mid: r["mid"].as_str().map(|s| s.to_string()),
                    })
                    .collect()
            })
            .unwrap_or_default()
    }
}

/// rules that may apply to a packet with this PT: the exact-PT rules if any exist (if several have
/// the same PT the statement does not say which – any is accepted), else the catch-all rules.
fn matching(rules: &[RuleSpec], pt: u8) -> Vec<&RuleSpec> {
    let exact: Vec<&RuleSpec> = rules.iter().filter(|r| r.match_pt == Some(pt)).collect();
    if !exact.is_empty() {
        return exact;
    }
    rules.iter().filter(|r| r.match_pt.is_none()).collect()
}

fn spec_from_json(s: &Value, ssrc: u32) -> PktSpec {
    let ext = match s["ext"]["form"].as_str() {
        Some("one") | Some("two") => {
            let elems: Vec<(u8, Vec<u8>)> = s["ext"]["elems"]
                .as_array()
                .map(|a| a.iter().map(|e| (e[0].as_u64().unwrap_or(1) as u8, unhex(e[1].as_str().unwrap_or("")))).collect())
                .unwrap_or_default();
            let mut dummy = Rng::new(0);
            if s["ext"]["form"] == "one" {
                Some((0xBEDE, one_byte_block(&elems, &mut dummy, false)))
            } else {
                Some((0x1000, two_byte_block(&elems, &mut dummy, false)))
            }
        }
        _ => None,
    };
    let idx = s["idx"].as_u64().unwrap_or(0) as u32;
    let mut payload = idx.to_be_bytes().to_vec();
    let extra = s["len"].as_u64().unwrap_or(0) as usize;
    payload.extend((0..extra).map(|i| (idx as usize * 31 + i * 7) as u8));
    PktSpec {
        marker: s["m"].as_bool().unwrap_or(false),
        pt: s["pt"].as_u64().unwrap_or(0) as u8,
        seq: s["seq"].as_u64().unwrap_or(0) as u16,
        ts: s["ts"].as_u64().unwrap_or(0) as u32,
        ssrc,
        csrcs: vec![],
        ext,
        payload,
    }
}

#[derive(Clone, Debug, PartialEq)]
struct OutPkt {
    p: ParsedEq,
    from_video_target: bool,
}

#[derive(Clone, Debug, PartialEq)]
struct ParsedEq {
    marker: bool,
    pt: u8,
    seq: u16,
    ts: u32,
    ssrc: u32,
    ext: Option<(u16, Vec<u8>)>,
    payload: Vec<u8>,
}

/// Build source → bridge → target(s) → capture socket, feed `arrivals` in order and return, per
/// arrival, what the capture socket saw. Err = harness trouble (inconclusive).
async fn bridge_run(scn: &Value, arrivals: &[PktSpec]) -> Result<Vec<Option<OutPkt>>, String> {
    use tokio::net::UdpSocket;
    let cap = UdpSocket::bind("127.0.0.1:0").await.map_err(|e| format!("bind capture: {e}"))?;
    let cap_addr = cap.local_addr().map_err(|e| e.to_string())?;
    let (_stx, srx) = watch::channel(None::<IceSocketWrapper>);
    let src = RtpTransport::new(IceConn::new(srx, "127.0.0.1:9".parse().unwrap(), None), false);

    let mk_target = || async {
        let s = Arc::new(UdpSocket::bind("127.0.0.1:0").await.map_err(|e| format!("bind target: {e}"))?);
        // the fast path uses try_send_to, which needs the socket's write readiness to be known
        s.writable().await.map_err(|e| e.to_string())?;
        let local = s.local_addr().map_err(|e| e.to_string())?;
        let (tx, rx) = watch::channel(Some(IceSocketWrapper::Udp(s)));
        let t = Arc::new(RtpTransport::new(IceConn::new(rx, cap_addr, None), false));
        Ok::<_, String>((t, tx, local))
    };
    let (dst, _keep1, _dst_local) = mk_target().await?;
    let o = &scn["options"];
    let options = RtpRewriteBridgeOptions {
        strip_extensions: o["strip"].as_bool().unwrap_or(false),
        initial_sequence_number: opt_u(&o["init_seq"]).map(|x| x as u16),
        initial_timestamp_offset: opt_u(&o["init_off"]).map(|x| x as u32),
        initial_output_timestamp: opt_u(&o["init_out_ts"]).map(|x| x as u32),
    };
    let mut video_local = None;
    let mut _keep2 = None;
    match scn["mode"].as_str().unwrap_or("rules") {
        "legacy" => {
            let p = &scn["legacy"];
            src.bridge_rewrite_to(
                dst.clone(),
                RtpRewriteBridgeParams {
                    ssrc_offset: opt_u(&p["ssrc_offset"]).unwrap_or(0) as u32,
                    fixed_out_ssrc: opt_u(&p["fixed"]).map(|x| x as u32),
                    payload_type: opt_u(&p["pt"]).map(|x| x as u8),
                    dtmf_payload_type: p["dtmf"].as_array().filter(|d| d.len() == 2).map(|d| (d[0].as_u64().unwrap_or(0) as u8, d[1].as_u64().unwrap_or(0) as u8)),
                    initial_sequence_number: options.initial_sequence_number,
                    initial_timestamp_offset: options.initial_timestamp_offset,
                    strip_extensions: options.strip_extensions,
                },
            );
        }
        mode => {
            let rules: Vec<RtpRewriteRule> = rules_of(scn)
                .into_iter()
                .map(|r| RtpRewriteRule {
                    match_payload_type: r.match_pt,
                    fixed_out_ssrc: r.fixed,
                    ssrc_offset: r.offset,
                    out_payload_type: r.out_pt,
                    sdes_mid_extension_id: r.mid_ext,
                    sdes_mid: r.mid,
                })
                .collect();
            if mode == "video" {
                let (vdst, keep, vlocal) = mk_target().await?;
                video_local = Some(vlocal);
                _keep2 = Some(keep);
                let vpts: HashSet<u8> = scn["video_pts"].as_array().map(|a| a.iter().map(|x| x.as_u64().unwrap_or(0) as u8).collect()).unwrap_or_default();
                src.bridge_rewrite_rules_to_with_video(dst.clone(), Some(vdst), vpts, options, rules);
            } else {
                src.bridge_rewrite_rules_to(dst.clone(), options, rules);
            }
        }
    }
    let feed_addr: SocketAddr = "127.0.0.1:5000".parse().unwrap();
    let mut marshal_buf = Vec::with_capacity(1500);
    let mut outs = Vec::with_capacity(arrivals.len());
    let mut buf = vec![0u8; 2048];
    for a in arrivals {
        let raw = build_rtp(a);
        let fut = src.receive(Bytes::from(raw), feed_addr, &mut marshal_buf);
        let r = std::panic::AssertUnwindSafe(fut).catch_unwind().await;
        if r.is_err() {
            let loc = my_last_panic();
            return Err(format!("panic inside the bridge path at {loc} (a C07 matter)"));
        }
        match tokio::time::timeout(std::time::Duration::from_millis(5000), cap.recv_from(&mut buf)).await {
            Ok(Ok((n, from))) => match parse_rtp(&buf[..n]) {
                Some(p) => outs.push(Some(OutPkt {
                    p: ParsedEq { marker: p.marker, pt: p.pt, seq: p.seq, ts: p.ts, ssrc: p.ssrc, ext: p.ext, payload: p.payload },
                    from_video_target: Some(from) == video_local,
                })),
                None => return Err(format!("output datagram is not readable RTP: {}", hex_cap(&buf[..n], 48))),
            },
            Ok(Err(e)) => return Err(format!("capture socket: {e}")),
            Err(_) => outs.push(None),
        }
    }
    Ok(outs)
}

fn small(a: u32, b: u32) -> bool {
    let d = b.wrapping_sub(a);
    d <= SMALL_STEP || d >= 0u32.wrapping_sub(SMALL_STEP)
}

async fn run_bridge(scn: &Value) -> Outcome {
    let mut out = Outcome::default();
    let empty = vec![];
    let streams = scn["streams"].as_array().unwrap_or(&empty);
    let order: Vec<usize> = scn["order"].as_array().map(|a| a.iter().map(|x| x.as_u64().unwrap_or(0) as usize).collect()).unwrap_or_default();
    let rules = rules_of(scn);
    let strip = scn["options"]["strip"].as_bool().unwrap_or(false);
    // per-stream specs and the interleaved arrival list
    let per: Vec<Vec<PktSpec>> = streams
        .iter()
        .map(|s| {
            let ssrc = s["ssrc"].as_u64().unwrap_or(0) as u32;
            s["pkts"].as_array().map(|a| a.iter().map(|p| spec_from_json(p, ssrc)).collect()).unwrap_or_default()
        })
        .collect();
    let mut cursor = vec![0usize; per.len()];
    let mut arrivals: Vec<PktSpec> = vec![];
    let mut owner: Vec<usize> = vec![];
    for &s in &order {
        if s < per.len() && cursor[s] < per[s].len() {
            arrivals.push(per[s][cursor[s]].clone());
            owner.push(s);
            cursor[s] += 1;
        }
    }
    if arrivals.is_empty() {
        out.inconclusive = Some("empty bridge scenario".into());
        return out;
    }
    let outs = match bridge_run(scn, &arrivals).await {
        Ok(o) => o,
        Err(e) => {
            if e.contains("panic") {
                out.count("panic_in_bridge", 1);
            }
            out.inconclusive = Some(e);
            return out;
        }
    };
    let missing = outs.iter().filter(|o| o.is_none()).count();
    if missing > 0 {
        out.count("bridge.missing_outputs", missing as u64);
        out.inconclusive = Some(format!("{missing} of {} forwarded packets never reached the capture socket", outs.len()));
        return out;
    }
    let outs: Vec<OutPkt> = outs.into_iter().flatten().collect();
    out.count("bridge.outputs", outs.len() as u64);

    // group by source stream in arrival order
    let mut by: Vec<Vec<(usize, &PktSpec, &OutPkt)>> = vec![vec![]; per.len()];
    for (i, (a, o)) in arrivals.iter().zip(outs.iter()).enumerate() {
        // lock-step attribution is double-checked through the payload tag (observation only)
        if !strip && o.p.payload != a.payload {
            out.count("obs.bridge.payload_changed", 1);
        }
        if o.from_video_target {
            out.count("bridge.via_video_target", 1);
        }
        by[owner[i]].push((i, a, o));
    }
    let mode = scn["mode"].as_str().unwrap_or("rules").to_string();
    out.seen("bridge.modes", mode.clone());
    for (si, st) in by.iter().enumerate() {
        if st.is_empty() {
            continue;
        }
        let src_ssrc = st[0].1.ssrc;
        // ---- one output SSRC for the whole stream
        let out_ssrc = st[0].2.p.ssrc;
        if let Some((i, _, o)) = st.iter().find(|x| x.2.p.ssrc != out_ssrc) {
            out.violate(
                "bridge.ssrc.unstable",
                "a source stream was forwarded under more than one output SSRC",
                json!({"stream": si, "src_ssrc": src_ssrc, "first_out_ssrc": out_ssrc, "arrival": i, "out_ssrc": o.p.ssrc}),
            );
        }
        // ---- and it is an SSRC that a rule matched by this stream prescribes (src SSRC if no rule)
        let mut allowed: BTreeSet<u32> = BTreeSet::new();
        for (_, a, _) in st {
            let ms = matching(&rules, a.pt);
            if ms.is_empty() {
                allowed.insert(src_ssrc);
            }
            for r in ms {
                allowed.insert(r.fixed.unwrap_or(src_ssrc.wrapping_add(r.offset)));
            }
        }
        if !allowed.contains(&out_ssrc) {
            out.violate(
                "bridge.ssrc.not_from_rule",
                "the output SSRC of a stream is not the one any rule matched by the stream prescribes",
                json!({"stream": si, "src_ssrc": src_ssrc, "out_ssrc": out_ssrc, "allowed": allowed}),
            );
        }
        // ---- timeline clause: the current continuous piece (see the module header)
        //      members: (position on the piece's unwrapped source timeline, arrival index, out_ts - src_ts)
        let mut piece: Option<Vec<(i64, usize, u32)>> = None;
        let mut last_pos: i64 = 0;
        for (k, (i, a, o)) in st.iter().enumerate() {
            {
                let off_now = o.p.ts.wrapping_sub(a.ts);
                let far_from_all_earlier = st[..k].iter().all(|(_, e, _)| {
                    let d = a.ts.wrapping_sub(e.ts);
                    d.min(d.wrapping_neg()) >= JUMP_MIN
                });
                let step = if k == 0 { 0 } else { a.ts.wrapping_sub(st[k - 1].1.ts) as i32 as i64 };
                let pos = last_pos + step;
                let mut joined = false;
                if let Some(members) = piece.as_mut() {
                    let newest = members.iter().map(|m| m.0).max().unwrap_or(0);
                    let near = members.iter().any(|m| (m.0 - pos).abs() <= CONT_GAP);
                    if near && newest - pos <= LATE_MAX {
                        joined = true;
                        out.count("bridge.piece.joined", 1);
                        if newest - pos > SMALL_STEP as i64 {
                            out.count("bridge.piece.straggler_joined", 1);
                        }
                        if pos - newest > SMALL_STEP as i64 {
                            out.count("bridge.piece.long_pause_joined", 1);
                        }
                        let prev_late = members.last().map(|m| newest - m.0).unwrap_or(0);
                        if prev_late > 0 && pos > newest {
                            out.count("bridge.piece.forward_after_late", 1);
                            if prev_late + (pos - newest) > 2 * CONT_GAP {
                                out.count("bridge.piece.forward_after_late.far_from_late_packet", 1);
                            }
                        }
                        let (p0, i0, off0) = members[0];
                        if off_now != off0 {
                            // the consecutive-arrival rule below reports the small-step case under its own key
                            let prev_small = k > 0 && small(st[k - 1].1.ts, a.ts);
                            if !prev_small {
                                let prev = members.last().copied().unwrap_or((p0, i0, off0));
                                let shape = if prev.0 < newest && pos > newest {
                                    "forward_step_after_late_packet"
                                } else if pos > newest {
                                    "forward_step"
                                } else {
                                    "late_packet"
                                };
                                out.violate(
                                    format!("bridge.ts.offset_changed_inside_continuous_piece:{shape}"),
                                    "out_ts - src_ts differs between two packets of one source stream that belong to one continuous piece of the source timeline \
                                     (every packet within 450 000 ticks of an earlier one, none more than 600 000 ticks late): no source discontinuity lies between them",
                                    json!({"stream": si, "arrival": i, "src_ts": a.ts, "out_ts": o.p.ts, "offset": off_now, "piece_offset": off0,
                                           "piece_origin_arrival": i0, "ticks_ahead_of_newest": pos - newest, "ticks_from_previous_arrival": pos - prev.0,
                                           "piece_positions": members.iter().map(|m| m.0).collect::<Vec<_>>(), "position": pos}),
                                );
                            }
                            // restart from here so that one re-basing is reported once
                            *members = vec![(pos, *i, off_now)];
                        } else {
                            members.push((pos, *i, off_now));
                        }
                    }
                }
                if !joined {
                    if k == 0 || far_from_all_earlier {
                        piece = Some(vec![(0, *i, off_now)]);
                        last_pos = 0;
                        out.count("bridge.piece.started", 1);
                    } else {
                        if piece.is_some() {
                            out.count("bridge.piece.ended_by_grey_step", 1);
                        }
                        piece = None;
                        last_pos = 0;
                    }
                } else {
                    last_pos = pos;
                }
            }
            // ---- payload type
            let ms = matching(&rules, a.pt);
            let mut ok_pts: BTreeSet<u8> = BTreeSet::new();
            if ms.is_empty() {
                ok_pts.insert(a.pt);
                out.count("bridge.rule.none", 1);
            }
            for r in &ms {
                ok_pts.insert(r.out_pt.unwrap_or(a.pt) & 0x7F);
                out.count(if r.match_pt.is_some() { "bridge.rule.exact_pt" } else { "bridge.rule.catch_all" }, 1);
            }
            if !ok_pts.contains(&o.p.pt) {
                out.violate(
                    "bridge.pt.mismatch",
                    "output payload type is not the matching rule's payload type (or the source's when no rule rewrites it)",
                    json!({"stream": si, "arrival": i, "src_pt": a.pt, "out_pt": o.p.pt, "expected_one_of": ok_pts}),
                );
            }
            // ---- observations: MID stamping / strip
            if strip {
                out.count(if o.p.ext.is_none() { "obs.bridge.stripped" } else { "obs.bridge.strip_left_extension" }, 1);
            } else if let Some(r) = ms.first() {
                if let (Some(id), Some(mid)) = (r.mid_ext, &r.mid) {
                    let seen = o.p.ext.as_ref().map(|(pf, d)| parse_ext(*pf, d)).and_then(|v| v.elems.iter().find(|e| e.0 == id).map(|e| e.1.clone()));
                    if seen.as_deref() == Some(mid.as_bytes()) {
                        out.count("obs.bridge.mid_stamped", 1);
                    } else {
                        out.count("obs.bridge.mid_not_stamped", 1);
                    }
                }
            }
            if k == 0 {
                continue;
            }
            let (pi, pa, po) = &st[k - 1];
            // ---- sequence numbers consecutive in arrival order
            if o.p.seq != po.p.seq.wrapping_add(1) {
                out.violate(
                    "bridge.seq.not_consecutive",
                    "output sequence numbers of one source stream are not consecutive in arrival order",
                    json!({"stream": si, "arrivals": [pi, i], "out_seq": [po.p.seq, o.p.seq]}),
                );
            }
            if po.p.seq == 0xFFFF {
                out.count("bridge.out_seq_wraps", 1);
            }
            // ---- timestamp offset constant across a small source step
            let off_prev = po.p.ts.wrapping_sub(pa.ts);
            let off_now = o.p.ts.wrapping_sub(a.ts);
            if small(pa.ts, a.ts) {
                out.count("bridge.small_pairs", 1);
                if a.ts < pa.ts && a.ts.wrapping_sub(pa.ts) <= SMALL_STEP {
                    out.count("bridge.src_ts_wraps", 1);
                }
                if po.p.ts.wrapping_add(a.ts.wrapping_sub(pa.ts)) < po.p.ts && a.ts.wrapping_sub(pa.ts) <= SMALL_STEP {
                    out.count("bridge.out_ts_wraps", 1);
                }
                if off_prev != off_now {
                    // input-only qualifier: the pair straddles the antipode (2^31) of an earlier arrival
                    let antipode = st[..k - 1].iter().any(|(_, e, _)| {
                        let da = pa.ts.wrapping_sub(e.ts);
                        let db = a.ts.wrapping_sub(e.ts);
                        (da >= 0x8000_0000) != (db >= 0x8000_0000) && da.abs_diff(0x8000_0000) <= 2 * SMALL_STEP && db.abs_diff(0x8000_0000) <= 2 * SMALL_STEP
                    });
                    out.violate(
                        format!("bridge.ts.offset_changed_on_small_step{}", if antipode { ":straddles_antipode_of_earlier_packet" } else { "" }),
                        "out_ts - src_ts changed between two consecutive arrivals of one stream although the source step is small",
                        json!({"stream": si, "arrivals": [pi, i], "src_ts": [pa.ts, a.ts], "out_ts": [po.p.ts, o.p.ts], "offsets": [off_prev, off_now],
                               "src_ts_history": st[..=k].iter().map(|x| x.1.ts).collect::<Vec<_>>()}),
                    );
                }
            } else {
                out.count(if off_prev != off_now { "bridge.jump_pairs.reanchored" } else { "bridge.jump_pairs.offset_kept" }, 1);
            }
        }
    }
    // ---- independence: every stream alone through a fresh bridge gives the same output,
    //      up to the random initial sequence number and timestamp offset
    let populated: Vec<usize> = (0..per.len()).filter(|&s| !by[s].is_empty()).collect();
    if populated.len() >= 2 {
        for &si in &populated {
            let alone_in: Vec<PktSpec> = by[si].iter().map(|x| x.1.clone()).collect();
            let alone = match bridge_run(scn, &alone_in).await {
                Ok(o) if o.iter().all(|x| x.is_some()) => o.into_iter().flatten().collect::<Vec<_>>(),
                Ok(_) => {
                    out.inconclusive = Some("lost output in the stand-alone run".into());
                    return out;
                }
                Err(e) => {
                    out.inconclusive = Some(e);
                    return out;
                }
            };
            let inter: Vec<&OutPkt> = by[si].iter().map(|x| x.2).collect();
            let norm = |v: &[&OutPkt]| -> Vec<(u16, u32, u8, bool, u32, Option<(u16, Vec<u8>)>, Vec<u8>, bool)> {
                let s0 = v[0].p.seq;
                let t0 = v[0].p.ts;
                v.iter()
                    .map(|o| (o.p.seq.wrapping_sub(s0), o.p.ts.wrapping_sub(t0), o.p.pt, o.p.marker, o.p.ssrc, o.p.ext.clone(), o.p.payload.clone(), o.from_video_target))
                    .collect()
            };
            let a_refs: Vec<&OutPkt> = alone.iter().collect();
            let (na, ni) = (norm(&a_refs), norm(&inter));
            out.count("bridge.independence_checks", 1);
            if na != ni {
                let k = na.iter().zip(ni.iter()).position(|(x, y)| x != y).unwrap_or(0);
                let field = {
                    let (x, y) = (&na[k], &ni[k]);
                    if x.0 != y.0 { "seq" } else if x.1 != y.1 { "ts" } else if x.2 != y.2 { "pt" } else if x.4 != y.4 { "ssrc" } else { "other" }
                };
                out.violate(
                    format!("bridge.independence.differs:{field}"),
                    "a stream's output differs between the interleaved run and the same stream sent alone",
                    json!({"stream": si, "position_in_stream": k, "alone": format!("{:?}", (na[k].0, na[k].1, na[k].2, na[k].4)), "interleaved": format!("{:?}", (ni[k].0, ni[k].1, ni[k].2, ni[k].4))}),
                );
            }
        }
    }
    out.nontrivial = outs.len() >= 2;
    out.seen("bridge.stream_counts", format!("{}", populated.len()));
    out.summary = json!({"kind": "bridge", "mode": mode, "streams": populated.len(), "arrivals": arrivals.len(), "rules": rules.len(), "strip": strip});
    out
}

// ---------------------------------------------------------------- bridge generator

fn gen_rule(rng: &mut Rng, match_pt: Option<u8>) -> Value {
    let fixed = if rng.chance(2, 5) { Some(*rng.pick(&[0xABCDu32, 0, 0xFFFF_FFFF, 0x1111, 777])) } else { None };
    let offset = *rng.pick(&[0u32, 1, 900, 0xFFFF_FFFF, 0x8000_0000]);
    let out_pt = if rng.chance(3, 5) { Some(*rng.pick(&[0u8, 8, 96, 102, 110, 127])) } else { None };
    let (mid_ext, mid) = if rng.chance(2, 5) {
        let id = match rng.below(12) {
            0 => 0u8,
            1 => 15,
            2 => 20,
            _ => rng.range(1, 14) as u8,
        };
        let mid = match rng.below(10) {
            0 => String::new(),
            1 => "0123456789abcdefX".to_string(), // 17 bytes: cannot be stamped in the one-byte form
            2 => "0123456789abcdef".to_string(),
            _ => rng.pick(&["0", "1", "audio", "v"]).to_string(),
        };
        (Some(id), Some(mid))
    } else {
        (None, None)
    };
    json!({"match_pt": match_pt, "fixed": fixed, "offset": offset, "out_pt": out_pt, "mid_ext": mid_ext, "mid": mid})
}

fn gen_bridge(rng: &mut Rng) -> Value {
    let src_pts: [u8; 5] = [0, 8, 100, 101, 98];
    let mode = match rng.below(10) {
        0..=2 => "legacy",
        3..=7 => "rules",
        _ => "video",
    };
    let edge16 = |rng: &mut Rng| match rng.below(4) {
        0 => None,
        1 => Some(0xFFFFu64 - rng.below(12)),
        2 => Some(rng.below(3)),
        _ => Some(rng.u16() as u64),
    };
    let edge32 = |rng: &mut Rng| match rng.below(4) {
        0 => None,
        1 => Some(0xFFFF_FFFFu64 - rng.below(100_000)),
        2 => Some(rng.below(1000)),
        _ => Some(rng.u32() as u64),
    };
    let options = json!({
        "strip": rng.chance(1, 4),
        "init_seq": edge16(rng),
        "init_off": edge32(rng),
        "init_out_ts": if mode != "legacy" && rng.chance(1, 4) { edge32(rng) } else { None },
    });
    let legacy = json!({
        "ssrc_offset": *rng.pick(&[0u32, 900, 1, 0xFFFF_FFFF]),
        "fixed": if rng.chance(1, 3) { Some(0xABCDu32) } else { None },
        "pt": if rng.bool() { Some(96u8) } else { None },
        "dtmf": if rng.bool() { Some([101u8, 110u8]) } else { None },
    });
    let mut rules = vec![];
    if rng.chance(4, 5) {
        rules.push(gen_rule(rng, None));
    }
    let mut used: Vec<u8> = vec![];
    for _ in 0..rng.below(4) {
        let pt = *rng.pick(&src_pts);
        if used.contains(&pt) && !rng.chance(1, 10) {
            continue;
        }
        used.push(pt);
        rules.push(gen_rule(rng, Some(pt)));
    }
    rng.shuffle(&mut rules);
    let nstreams = rng.range(1, 6) as usize;
    let base_ssrc = rng.u32();
    let mut streams = vec![];
    let mut order = vec![];
    let mut idx = 0u64;
    for s in 0..nstreams {
        // adjacent / colliding SSRC values on purpose (src+offset of one == src of another)
        let ssrc = match rng.below(4) {
            0 => base_ssrc.wrapping_add(s as u32),
            1 => base_ssrc.wrapping_add(900 * s as u32),
            2 => [0u32, 0xFFFF_FFFF, 1, 0xABCD, 0x8000_0000, 777][s],
            _ => rng.u32().wrapping_add(s as u32) | 1 << (s + 3),
        };
        if streams.iter().any(|x: &Value| x["ssrc"] == ssrc) {
            continue;
        }
        let n = rng.range(3, 40);
        let main_pt = *rng.pick(&src_pts);
        let mut ts: u32 = match rng.below(4) {
            0 => 0xFFFF_FFFF - rng.below(200_000) as u32,
            1 => rng.below(100_000) as u32,
            2 => 0x8000_0000u32.wrapping_add(rng.below(100_000) as u32).wrapping_sub(50_000),
            _ => rng.u32(),
        };
        let mut seq: u16 = if rng.bool() { 0xFFF0 + rng.below(16) as u16 } else { rng.u16() };
        let base_step = *rng.pick(&[160u32, 960, 3000, 1, 48_000]);
        let ext_form = *rng.pick(&["none", "none", "one", "one", "two"]);
        let antipode_play = rng.chance(1, 12);
        // motif of the timeline clause: long-but-continuous pauses, a straggler, another pause
        let motif_at = if rng.chance(1, 3) { Some(rng.range(1, n.max(2) - 1)) } else { None };
        // the run since the last jump, in ticks relative to the cursor `ts`: the arrivals so far cover
        // [ts - below, ts + above] without a gap larger than the largest forward step (<= 450 000)
        let (mut below, mut above): (u64, u64) = (0, 0);
        let mut pkts = vec![];
        let mut first = true;
        for k in 0..n {
            // timestamps emitted in this round (the cursor `ts` is where the stream continues from)
            let mut emit: Vec<u32> = vec![];
            let fwd = |ts: &mut u32, below: &mut u64, above: &mut u64, d: u32| {
                *ts = ts.wrapping_add(d);
                *below += d as u64;
                *above = above.saturating_sub(d as u64);
            };
            let back = |ts: &mut u32, below: &mut u64, above: &mut u64, d: u32| {
                *ts = ts.wrapping_sub(d);
                *above += d as u64;
                *below = below.saturating_sub(d as u64);
            };
            if k == 0 {
                emit.push(ts);
            } else if motif_at == Some(k) {
                // continue from the newest packet, pause 1..3 times, then a straggler, then a pause
                let up = above as u32;
                fwd(&mut ts, &mut below, &mut above, up);
                for _ in 0..rng.range(1, 3) {
                    let d = rng.range(150_000, CONT_GAP as u64) as u32;
                    fwd(&mut ts, &mut below, &mut above, d);
                    emit.push(ts);
                }
                let max_late = below.min(LATE_MAX as u64).max(1);
                let late = match rng.below(3) {
                    0 => rng.range(1, max_late.min(SMALL_STEP as u64)),
                    1 => rng.range(1, max_late),
                    _ => rng.range(max_late - max_late / 6, max_late),
                } as u32;
                emit.push(ts.wrapping_sub(late));
                let d = match rng.below(4) {
                    0 => base_step,
                    1 => rng.range(SMALL_STEP as u64 + 1, CONT_GAP as u64) as u32,
                    _ => rng.range(400_000, CONT_GAP as u64) as u32,
                };
                fwd(&mut ts, &mut below, &mut above, d);
                emit.push(ts);
            } else {
                match rng.below(100) {
                    0..=63 => fwd(&mut ts, &mut below, &mut above, base_step),
                    64..=69 => {} // same timestamp (several packets of one frame)
                    70..=76 => {
                        // reorder / late packet, the stream continuing from it
                        let d = rng.range(1, SMALL_STEP as u64) as u32;
                        back(&mut ts, &mut below, &mut above, d);
                    }
                    77..=80 => {
                        let d = rng.range(1, SMALL_STEP as u64) as u32;
                        fwd(&mut ts, &mut below, &mut above, d);
                    }
                    81..=84 => {
                        // long-but-continuous pause
                        let d = rng.range(SMALL_STEP as u64 + 1, CONT_GAP as u64) as u32;
                        fwd(&mut ts, &mut below, &mut above, d);
                    }
                    85..=87 => {
                        // straggler: a packet behind the newest one; the stream continues from the newest
                        let up = above as u32;
                        fwd(&mut ts, &mut below, &mut above, up);
                        let max_late = below.min(LATE_MAX as u64);
                        if max_late >= 1 {
                            let late = if rng.bool() { rng.range(1, max_late) } else { rng.range(max_late - max_late / 6, max_late) };
                            emit.push(ts.wrapping_sub(late as u32));
                        } else {
                            fwd(&mut ts, &mut below, &mut above, base_step);
                        }
                    }
                    88..=92 => {
                        ts = ts.wrapping_add(rng.range(10_000_000, 1_000_000_000) as u32);
                        (below, above) = (0, 0);
                    }
                    93..=97 => {
                        ts = ts.wrapping_sub(rng.range(10_000_000, 1_000_000_000) as u32);
                        (below, above) = (0, 0);
                    }
                    _ => {
                        if antipode_play {
                            // a jump of about half the timestamp space, then small steps around it
                            ts = ts.wrapping_add(0x8000_0000u32.wrapping_add(rng.below(80_000) as u32).wrapping_sub(40_000));
                        } else {
                            ts = ts.wrapping_add(rng.range(10_000_000, 2_000_000_000) as u32);
                        }
                        (below, above) = (0, 0);
                    }
                }
                if emit.is_empty() {
                    emit.push(ts);
                }
            }
            for pkt_ts in emit {
                if !first {
                    seq = if rng.chance(1, 12) { seq.wrapping_sub(rng.range(1, 3) as u16) } else { seq.wrapping_add(1) };
                }
                first = false;
                let pt = match rng.below(20) {
                    0 | 1 => 101,
                    2 => *rng.pick(&src_pts),
                    _ => main_pt,
                };
                let elems: Vec<Value> = match ext_form {
                    "one" => (0..rng.below(3))
                        .map(|_| {
                            let n = rng.range(1, 6) as usize;
                            json!([rng.range(1, 14), hex(&rng.bytes(n))])
                        })
                        .collect(),
                    "two" => (0..rng.below(3))
                        .map(|_| {
                            let n = rng.range(0, 6) as usize;
                            json!([rng.range(1, 40), hex(&rng.bytes(n))])
                        })
                        .collect(),
                    _ => vec![],
                };
                pkts.push(json!({"idx": idx, "seq": seq, "ts": pkt_ts, "pt": pt, "m": rng.chance(1, 8), "len": rng.below(40),
                                 "ext": {"form": ext_form, "elems": elems}}));
                idx += 1;
                order.push(streams.len());
            }
        }
        streams.push(json!({"ssrc": ssrc, "pkts": pkts}));
    }
    // interleaving: shuffle the multiset of stream ids (per-stream order is kept by construction),
    // sometimes in bursts
    if rng.chance(3, 4) {
        rng.shuffle(&mut order);
    }
    json!({"kind": "bridge", "mode": mode, "options": options, "legacy": legacy, "rules": rules,
           "video_pts": [98, 101], "streams": streams, "order": order})
}

// =====================================================================================
// driver
// =====================================================================================

async fn run_scenario(scn: &Value) -> Outcome {
    match scn["kind"].as_str() {
        Some("demux") => run_demux(scn).await,
        Some("bridge") => run_bridge(scn).await,
        _ => Outcome { inconclusive: Some("unknown scenario kind".into()), ..Default::default() },
    }
}

fn absorb(report: &mut Report, scn: &Value, mut o: Outcome) {
    for (k, n) in &o.counters {
        report.count(k, *n);
    }
    for (s, i) in o.seen.drain(..) {
        report.seen(&s, i);
    }
    let nt = if o.nontrivial { Some(hash_value(scn)) } else { None };
    if !o.summary.is_null() {
        // three written-out cases of each kind
        let kind = o.summary["kind"].as_str().unwrap_or("").to_string();
        let have = report.samples.iter().filter(|x| x["kind"] == kind.as_str()).count();
        if have < 3 {
            report.sample(o.summary.clone());
        }
    }
    let mut vs = std::mem::take(&mut o.violations);
    if let Some(why) = o.inconclusive {
        // violations found before the scenario became inconclusive are still reported
        for (k, w, wit) in vs.drain(..) {
            report.violation(scn, &k, &w, wit);
        }
        report.record(scn, nt, Verdict::Inconclusive(why));
        return;
    }
    if vs.is_empty() {
        report.record(scn, nt, Verdict::Held);
    } else {
        let (k, w, wit) = vs.remove(0);
        report.record(scn, nt, Verdict::violated(k, w, wit));
        for (k, w, wit) in vs {
            report.violation(scn, &k, &w, wit);
        }
    }
}

pub fn run(args: &Args) -> i32 {
    let mut report = Report::new(
        args,
        "exploration",
        "demux scenario: at least one generated packet was delivered to a listener and at least one was dropped; \
         bridge scenario: at least two forwarded packets were captured on the target's UDP socket and parsed",
    );
    report.assume("one `RtpTransport::receive` call emits at most one datagram before it returns (bridge output is attributed in lock-step)");
    report.assume("loopback UDP does not lose or reorder datagrams between a target socket and the capture socket (a missing output makes the scenario inconclusive)");
    report.assume("RFC 8285 is the reading of 'carries a RID/MID header extension' (two-byte profile = 0x100|appbits, id 15 terminates a one-byte block); malformed blocks are accepted under any reading");
    report.note("not constrained (observed only): fall-back order between unambiguous-PT and single-provisional routing; MID stamping / extension stripping / payload / target choice of the bridge; SSRC bindings learnt from an unambiguous PT are accepted, not demanded");

    report.note("bridge timeline clause: 'source discontinuity' is read on the source timeline, not on arrival order - packets that form one continuous piece (origin = first packet or a step >= 10 M ticks away from every earlier packet; each later member within 450 000 ticks of an earlier member and at most 600 000 ticks older than the newest) must share out_ts - src_ts; grey steps end the piece and nothing is claimed until the next unambiguous origin");
    report.note("sensitivity (builder run, rustrtc with the three proposed C19 fixes applied, quick tier seed 1): 10/10 mutations of src/transports/rtp.rs reported \
                 – MID overrides RID (ii); first PT match wins (vii); MID match does not bind the SSRC (iv); PT route consulted before the SSRC table (iv); \
                 payload list appended instead of replaced (v/vii); rewrite state keyed by output SSRC (seq/ts/independence); discontinuity threshold 9 000 (ts); \
                 catch-all preferred over exact-PT rule (pt); output SSRC taken per packet (ssrc.unstable); sequence counter saturating at 65535 (seq)");

    if let Some(path) = &args.replay {
        let Some(scn) = load_replay(path) else {
            eprintln!("cannot load replay {}", path.display());
            return 2;
        };
        let rt = tokio::runtime::Builder::new_current_thread().enable_all().build().expect("rt");
        let mut last = None;
        for _ in 0..5 {
            let o = rt.block_on(run_scenario(&scn));
            let hit = !o.violations.is_empty();
            last = Some(o);
            if hit {
                break;
            }
        }
        if let Some(o) = last {
            absorb(&mut report, &scn, o);
        }
        let code = if !report.violations.is_empty() { 1 } else if report.inconclusive_n > 0 { 2 } else { 0 };
        println!("REPLAY property={} violations={} known={} inconclusive={} exit={}", report.prop, report.violations.len(), report.known_hits.len(), report.inconclusive_n, code);
        return code;
    }

    let n_demux: u64 = args.opt("--demux").and_then(|s| s.parse().ok()).unwrap_or(args.tier.pick(120_000, 3_000_000));
    let n_bridge: u64 = args.opt("--bridge").and_then(|s| s.parse().ok()).unwrap_or(args.tier.pick(10_000, 250_000));
    let total = n_demux + n_bridge;
    let threads = std::thread::available_parallelism().map(|n| n.get()).unwrap_or(8).min(16).max(1);
    let root = Rng::new(args.seed);
    let (tx, rx) = std::sync::mpsc::sync_channel::<(u64, Value, Outcome)>(256);
    let mut handles = vec![];
    for t in 0..threads {
        let tx = tx.clone();
        let root = root.clone();
        handles.push(
            std::thread::Builder::new()
                .name(format!("c19-worker-{t}"))
                .spawn(move || {
                    let rt = tokio::runtime::Builder::new_current_thread().enable_all().build().expect("rt");
                    let mut i = t as u64;
                    while i < total {
                        // bridge scenarios are spread evenly among the demux ones
                        let is_bridge = n_bridge > 0 && (i * n_bridge / total) != ((i + 1) * n_bridge / total);
                        let mut rng = root.fork(i);
                        let scn = if is_bridge { gen_bridge(&mut rng) } else { gen_demux(&mut rng) };
                        let o = rt.block_on(run_scenario(&scn));
                        let keep = !o.violations.is_empty() || o.inconclusive.is_some() || i < 64;
                        let nt_hash = if o.nontrivial { Some(hash_value(&scn)) } else { None };
                        let payload = if keep { scn } else { json!({"_h": nt_hash}) };
                        if tx.send((i, payload, o)).is_err() {
                            break;
                        }
                        i += threads as u64;
                    }
                })
                .expect("spawn worker"),
        );
    }
    drop(tx);
    for (_i, scn, o) in rx {
        absorb(&mut report, &scn, o);
    }
    for h in handles {
        if h.join().is_err() {
            report.note("a worker thread of the harness panicked (harness bug)");
            for p in take_panics().iter().filter(|p| !p.location.contains("bytes-")).take(5) {
                eprintln!("HARNESS-PANIC {} at {}", p.message, p.location);
            }
        }
    }
    report.finish(total / 2, total / 4)
}
