//! C07 stage 2, further live targets: raw UDP to a gathered `IceTransport` socket,
//! `RtpTransport::receive` (plain / SRTP / rewrite bridge), remote SDP and candidate strings to
//! `PeerConnection` in several signalling states, and a hostile in-harness TURN server.
//! Same monitors and verdict rules as totality_live.rs.

use super::totality_live::{Body, Camp, End, heap_verdict};
use super::totality_mut as mutators;
use super::totality_pure as pure;
use crate::alloc_count;
use crate::common::*;
use bytes::Bytes;
use futures::FutureExt;
use rustrtc::rtp::{RtpHeader, RtpHeaderExtension, RtpPacket};
use rustrtc::transports::PacketReceiver;
use rustrtc::transports::ice::conn::IceConn;
use rustrtc::transports::ice::stun::{StunAttribute, StunClass, StunMessage, StunMethod};
use rustrtc::transports::ice::{IceParameters, IceSocketWrapper};
use rustrtc::transports::rtp::RtpTransport;
use rustrtc::{
    IceCandidate, IceRole, IceTransport, MediaKind, PeerConnection, RtcConfiguration, RtpRewriteBridgeOptions,
    RtpRewriteRule, SdpType, SessionDescription, SrtpKeyingMaterial, SrtpProfile, SrtpSession, TransceiverDirection,
    TransportMode,
};
use serde_json::{Value, json};
use std::future::Future;
use std::net::SocketAddr;
use std::panic::AssertUnwindSafe;
use std::pin::Pin;
use std::sync::Arc;
use std::time::{Duration, Instant};
use tokio::net::UdpSocket;
use tokio::sync::{mpsc, watch};

// ------------------------------------------------------------------ (3) raw UDP → IceTransport

/// Credentials of the agent under test (its *local* ICE parameters): since the C06 fix a
/// WebRTC-mode agent only answers Binding requests that carry USERNAME "<its ufrag>:<x>" and a
/// MESSAGE-INTEGRITY keyed with its password, so the genuine stimulus has to be authentic.
#[derive(Clone)]
pub struct IceCreds {
    pub ufrag: String,
    pub pwd: String,
}

pub fn stun_binding_request(tid: [u8; 12], use_candidate: bool, creds: &IceCreds) -> Vec<u8> {
    let mut m = StunMessage::binding_request(tid, None);
    m.attributes.push(StunAttribute::Username(format!("{}:remoteufrag", creds.ufrag)));
    m.attributes.push(StunAttribute::Priority(1845501695));
    m.attributes.push(StunAttribute::IceControlling(7));
    if use_candidate {
        m.attributes.push(StunAttribute::UseCandidate);
    }
    m.encode(Some(creds.pwd.as_bytes()), true).unwrap_or_default()
}

/// Binding request → success response with the same transaction id.
async fn ice_probe(sock: &UdpSocket, to: SocketAddr, n: u64, use_candidate: bool, creds: &IceCreds) -> bool {
    let mut buf = vec![0u8; 2048];
    for attempt in 0..5u64 {
        let mut tid = [0u8; 12];
        tid[..8].copy_from_slice(&(n * 16 + attempt + 1).to_be_bytes());
        tid[8..].copy_from_slice(b"c07p");
        let req = stun_binding_request(tid, use_candidate, creds);
        if sock.send_to(&req, to).await.is_err() {
            continue;
        }
        let deadline = Instant::now() + Duration::from_millis(400);
        while Instant::now() < deadline {
            match tokio::time::timeout(Duration::from_millis(50), sock.recv_from(&mut buf)).await {
                Ok(Ok((len, _))) => {
                    if len >= 20 && buf[8..20] == tid && buf[0] == 0x01 && buf[1] == 0x01 {
                        return true;
                    }
                }
                _ => {}
            }
        }
    }
    false
}

struct NullReceiver(std::sync::atomic::AtomicU64);
#[async_trait::async_trait]
impl PacketReceiver for NullReceiver {
    async fn receive(&self, _p: Bytes, _a: SocketAddr, _b: &mut Vec<u8>) {
        self.0.fetch_add(1, std::sync::atomic::Ordering::Relaxed);
    }
}

fn hostile_udp(seeds: &[Vec<u8>], r: &mut Rng) -> Vec<u8> {
    let mut v = match r.below(12) {
        0 => vec![],
        1 => vec![r.u8()],
        2..=6 => mutators::random_mutant(seeds, r),
        7 => mutators::plain_random(seeds, r),
        8 => {
            // TURN ChannelData look-alikes
            let n = r.usize_below(64);
            let mut v = vec![*r.pick(&[0x40u8, 0x41, 0x4f, 0x7f]), r.u8()];
            v.extend_from_slice(&r.pick(&[0u16, 1, 4, 0xffff, n as u16]).to_be_bytes());
            v.extend_from_slice(&r.bytes(n));
            v
        }
        9 => {
            // STUN header with a lying length and nothing / garbage behind it
            let mut v = vec![*r.pick(&[0u8, 1]), *r.pick(&[1u8, 0x01, 0x11, 0x03, 0x13, 0x16, 0x17])];
            v.extend_from_slice(&r.pick(&[0u16, 4, 8, 0xfffc, 0xffff]).to_be_bytes());
            v.extend_from_slice(&[0x21, 0x12, 0xa4, 0x42]);
            let n = r.usize_below(48);
            v.extend_from_slice(&r.bytes(12 + n));
            v
        }
        _ => {
            let n = r.usize_below(1400);
            let mut v = r.bytes(n);
            if let Some(b) = v.first_mut() {
                *b = *r.pick(&[0u8, 1, 2, 3, 20, 22, 63, 64, 79, 127, 128, 144, 191, 192, 255]);
            }
            v
        }
    };
    v.truncate(65000);
    v
}

fn ice_body(mut c: Camp) -> Pin<Box<dyn Future<Output = (Camp, End)> + Send>> {
    Box::pin(async move {
        let state = c.scenario["state"].as_str().unwrap_or("gathered").to_string();
        let n = c.scenario["n"].as_u64().unwrap_or(1000) as usize;
        let mut cfg = RtcConfiguration::default();
        cfg.ice_servers.clear();
        let (ice, runner) = IceTransport::new(cfg);
        tokio::spawn(runner);
        ice.set_role(IceRole::Controlled);
        if let Err(e) = ice.start_gathering() {
            return (c, End::Inconclusive(format!("start_gathering: {e}")));
        }
        let t0 = Instant::now();
        let target: Option<SocketAddr> = loop {
            let l = ice.local_candidates();
            if let Some(cand) = l.iter().find(|x| x.address.ip().is_loopback() && x.transport == "udp") {
                break Some(cand.address);
            }
            if t0.elapsed() > Duration::from_secs(5) {
                break None;
            }
            tokio::time::sleep(Duration::from_millis(20)).await;
        };
        let Some(target) = target else {
            return (c, End::Inconclusive("no loopback UDP host candidate gathered".into()));
        };
        let Ok(sock) = UdpSocket::bind("127.0.0.1:0").await else {
            return (c, End::Inconclusive("bind".into()));
        };
        let recv = Arc::new(NullReceiver(Default::default()));
        let lp = ice.local_parameters();
        let creds = IceCreds { ufrag: lp.username_fragment.clone(), pwd: lp.password.clone() };
        if state != "gathered" {
            let _ = ice.start(IceParameters::new("remoteufrag", "remotepasswordremotepassword"));
        }
        if state == "connected" {
            ice.set_data_receiver(recv.clone()).await;
            let _ = ice_probe(&sock, target, 0, true, &creds).await;
            tokio::time::sleep(Duration::from_millis(100)).await;
            c.seen("live.ice.state_before_injection", format!("{:?}", ice.state()));
        }
        if !ice_probe(&sock, target, 1, false, &creds).await {
            return (c, End::Inconclusive(format!("baseline Binding request unanswered in ICE state {state}")));
        }
        c.rebaseline();
        let mut seeds = pure::stun_seeds();
        // authentic requests among the seeds: their mutants stay close to what passes the
        // USERNAME / MESSAGE-INTEGRITY gate, and unmutated copies go through it
        seeds.push(stun_binding_request([0x11; 12], false, &creds));
        seeds.push(stun_binding_request([0x12; 12], true, &creds));
        seeds.extend(pure::rtp_seeds().into_iter().take(3));
        seeds.extend(pure::record_seeds().into_iter().take(3));
        let mut probes = 0u64;
        let mut end = End::Live;
        // structured flood: thousands of *distinct* transactions from many source ports –
        // authentic Binding requests (each new source is a peer-reflexive candidate for the
        // agent), unauthenticated requests, and success responses nobody asked for
        let flood = c.scenario["flood"].as_str() == Some("transactions");
        let mut extra_socks: Vec<UdpSocket> = vec![];
        if flood {
            for _ in 0..64 {
                if let Ok(s) = UdpSocket::bind("127.0.0.1:0").await { extra_socks.push(s); }
            }
            c.count("live.ice.flood_source_ports", extra_socks.len() as u64);
        }
        for i in 0..n {
            let d = if flood {
                let mut tid = [0u8; 12];
                tid[..8].copy_from_slice(&(i as u64).to_be_bytes());
                tid[8..].copy_from_slice(b"c07f");
                match i % 4 {
                    0 | 1 => stun_binding_request(tid, i % 8 == 0, &creds),
                    2 => StunMessage::binding_request(tid, None).encode(None, true).unwrap_or_default(),
                    _ => {
                        let mut v = stun_binding_request(tid, false, &creds);
                        if v.len() > 1 { v[0] = 0x01; v[1] = 0x01; }
                        v
                    }
                }
            } else {
                hostile_udp(&seeds, &mut c.rng)
            };
            if flood && !extra_socks.is_empty() {
                let k = i % (extra_socks.len() + 1);
                if k < extra_socks.len() {
                    c.fed_quiet(&d, i % 64 == 0);
                    let _ = extra_socks[k].send_to(&d, target).await;
                    if i % 32 == 31 {
                        tokio::task::yield_now().await;
                        // do not let the answers pile up in the kernel
                        let mut buf = [0u8; 2048];
                        for s in &extra_socks { while s.try_recv_from(&mut buf).is_ok() {} }
                    }
                    if i % 100 == 99 {
                        probes += 1;
                        if !ice_probe(&sock, target, probes + 1, false, &creds).await {
                            let st = format!("{:?}", ice.state());
                            end = if !(st.contains("Failed") || st.contains("Closed")) && c.canary_ok(Duration::from_millis(200)).await {
                                End::Unresponsive(format!("Binding request unanswered 5x after {} flood datagrams, ICE state {st}", i + 1))
                            } else {
                                End::CleanEnd(format!("ICE state {st}"))
                            };
                            break;
                        }
                    }
                    continue;
                }
            }
            c.fed(&d);
            let _ = sock.send_to(&d, target).await;
            if i % 32 == 31 {
                tokio::task::yield_now().await;
            }
            if i % 100 == 99 {
                probes += 1;
                if !ice_probe(&sock, target, probes + 1, false, &creds).await {
                    let st = format!("{:?}", ice.state());
                    end = if !(st.contains("Failed") || st.contains("Closed")) && c.canary_ok(Duration::from_millis(200)).await {
                        End::Unresponsive(format!("Binding request unanswered 5x after {} datagrams, ICE state {st}", i + 1))
                    } else {
                        End::CleanEnd(format!("ICE state {st}"))
                    };
                    break;
                }
            }
        }
        c.count("live.ice.binding_probes_ok", probes);
        c.count("live.ice.non_stun_datagrams_delivered_upwards", recv.0.load(std::sync::atomic::Ordering::Relaxed));
        heap_verdict(&mut c, "ice_udp");
        ice.stop();
        (c, end)
    })
}

// ------------------------------------------------------------------ (4) RtpTransport::receive

const MK: [u8; 16] = [0x33; 16];
const MS: [u8; 14] = [0x44; 14];

fn srtp(p: SrtpProfile) -> Option<SrtpSession> {
    let sl = if p == SrtpProfile::AeadAes128Gcm { 12 } else { 14 };
    let k = SrtpKeyingMaterial::new(MK.to_vec(), MS[..sl].to_vec());
    SrtpSession::new(p, k.clone(), k).ok()
}

fn rtp_body(mut c: Camp) -> Pin<Box<dyn Future<Output = (Camp, End)> + Send>> {
    Box::pin(async move {
        let mode = c.scenario["state"].as_str().unwrap_or("plain").to_string();
        let n = c.scenario["n"].as_u64().unwrap_or(2000) as usize;
        let Ok(s1) = UdpSocket::bind("127.0.0.1:0").await else { return (c, End::Inconclusive("bind".into())) };
        let Ok(s2) = UdpSocket::bind("127.0.0.1:0").await else { return (c, End::Inconclusive("bind".into())) };
        let (s1, s2) = (Arc::new(s1), Arc::new(s2));
        let peer: SocketAddr = "127.0.0.1:9".parse().unwrap();
        let (tx1, _) = watch::channel(Some(IceSocketWrapper::Udp(s1.clone())));
        let (tx2, _) = watch::channel(Some(IceSocketWrapper::Udp(s2.clone())));
        let conn = IceConn::new(tx1.subscribe(), peer, None);
        let conn2 = IceConn::new(tx2.subscribe(), s1.local_addr().unwrap_or(peer), None);
        let srtp_on = mode.starts_with("srtp");
        let t = Arc::new(RtpTransport::new(conn.clone(), srtp_on));
        let dst = Arc::new(RtpTransport::new(conn2.clone(), false));
        conn.set_rtp_receiver(t.clone());
        let profile = if mode == "srtp_gcm" { SrtpProfile::AeadAes128Gcm } else { SrtpProfile::Aes128Sha1_80 };
        let mut tx_sess = srtp(profile);
        if srtp_on {
            match srtp(profile) {
                Some(s) => t.start_srtp(s),
                None => return (c, End::Inconclusive("srtp session".into())),
            }
        }
        let (ltx, mut lrx) = mpsc::channel(64);
        let (ptx, mut prx) = mpsc::channel(64);
        let (ctx_, mut crx) = mpsc::channel(64);
        const PROBE_SSRC: u32 = 0x0c07_0c07;
        t.register_listener_sync(PROBE_SSRC, ltx);
        t.register_provisional_listener(ptx);
        t.register_rtcp_listener(ctx_);
        t.set_sdes_mid_extension_id(Some(4));
        t.set_rid_extension_id(Some(10));
        t.set_abs_send_time_extension_id(Some(2));
        if mode == "bridge" {
            // relay with MID stamping: set_extension runs on every received packet
            let rule = RtpRewriteRule {
                match_payload_type: None,
                fixed_out_ssrc: Some(0x1111_2222),
                ssrc_offset: 0,
                out_payload_type: Some(100),
                sdes_mid_extension_id: Some(4),
                sdes_mid: Some("0".into()),
            };
            t.bridge_rewrite_rules_to(dst.clone(), RtpRewriteBridgeOptions::default(), vec![rule]);
        }
        let mut seeds = pure::rtp_seeds();
        seeds.extend(pure::rtcp_seeds());
        let from: SocketAddr = "127.0.0.1:4444".parse().unwrap();
        let mut mb = Vec::new();
        let mut seq = 1u16;
        let mut probes = 0u64;
        let mut end = End::Live;
        c.rebaseline();
        // structured flood: every packet a new SSRC (valid RTP, all payload types), RTCP compound
        // packets whose report blocks / BYE lists / feedback name ever new SSRCs
        let flood = c.scenario["flood"].as_str() == Some("ssrcs");
        for i in 0..n {
            let mut d = if flood {
                let ssrc = 0x1000_0000u32.wrapping_add(i as u32 * 7);
                match i % 8 {
                    6 => {
                        // SR with 31 report blocks + BYE with 31 sources
                        let mut v = vec![0x80 | 31, 200];
                        v.extend_from_slice(&((6 + 31 * 6) as u16).to_be_bytes());
                        v.extend_from_slice(&ssrc.to_be_bytes());
                        v.extend_from_slice(&[0u8; 20]);
                        for k in 0..31u32 {
                            v.extend_from_slice(&ssrc.wrapping_add(1000 + k).to_be_bytes());
                            v.extend_from_slice(&[0u8; 20]);
                        }
                        v.extend_from_slice(&[0x80 | 31, 203]);
                        v.extend_from_slice(&31u16.to_be_bytes());
                        for k in 0..31u32 { v.extend_from_slice(&ssrc.wrapping_add(2000 + k).to_be_bytes()); }
                        v
                    }
                    7 => {
                        // generic NACK with 200 FCI entries for a new media SSRC
                        let mut v = vec![0x80 | 1, 205];
                        v.extend_from_slice(&((2 + 200) as u16).to_be_bytes());
                        v.extend_from_slice(&ssrc.to_be_bytes());
                        v.extend_from_slice(&ssrc.wrapping_add(1).to_be_bytes());
                        for k in 0..200u16 { v.extend_from_slice(&k.wrapping_mul(17).to_be_bytes()); v.extend_from_slice(&0xffffu16.to_be_bytes()); }
                        v
                    }
                    _ => {
                        let mut h = RtpHeader::new((i % 128) as u8, c.rng.u16(), c.rng.u32(), ssrc);
                        h.marker = i % 3 == 0;
                        RtpPacket::new(h, vec![0x5a; 1 + i % 40]).marshal().unwrap_or_default()
                    }
                }
            } else {
                match c.rng.below(8) {
                    0 => mutators::plain_random(&seeds, &mut c.rng),
                    _ => mutators::random_mutant(&seeds, &mut c.rng),
                }
            };
            d.truncate(65000);
            // with SRTP: half of the inputs are authentic (protected with the right key) so that
            // the malformed plaintext gets past authentication, like a genuine-but-buggy peer
            if srtp_on && (flood || c.rng.bool()) {
                // (the sending session is the harness's tool: its per-SSRC table is not the
                // receiving endpoint's memory)
                if let (Some(tx), Ok(p)) = (tx_sess.as_mut(), RtpPacket::parse(&d)) {
                    let mut out = vec![0u8; tx.protected_rtp_len(&p)];
                    if alloc_count::untagged(|| tx.protect_rtp(&p, &mut out)).is_ok() {
                        d = out;
                    }
                }
            }
            c.fed(&d);
            let r = AssertUnwindSafe(t.receive(Bytes::from(d), from, &mut mb)).catch_unwind().await;
            if r.is_err() {
                c.count("live.rtp.receive_unwound", 1);
            }
            while prx.try_recv().is_ok() {}
            while crx.try_recv().is_ok() {}
            if i % 100 == 99 && mode != "bridge" {
                probes += 1;
                let mut ok = false;
                for _ in 0..5 {
                    seq = seq.wrapping_add(1);
                    let h = RtpHeader::new(96, seq, seq as u32 * 160, PROBE_SSRC);
                    let p = RtpPacket::new(h, vec![1, 2, 3, 4]);
                    let bytes = if srtp_on {
                        let Some(tx) = tx_sess.as_mut() else { break };
                        let mut out = vec![0u8; tx.protected_rtp_len(&p)];
                        if tx.protect_rtp(&p, &mut out).is_err() { continue; }
                        out
                    } else {
                        p.marshal().unwrap_or_default()
                    };
                    let _ = AssertUnwindSafe(t.receive(Bytes::from(bytes), from, &mut mb)).catch_unwind().await;
                    if let Ok(Some(_)) = tokio::time::timeout(Duration::from_millis(200), lrx.recv()).await {
                        ok = true;
                        while lrx.try_recv().is_ok() {}
                        break;
                    }
                }
                if !ok {
                    end = if c.canary_ok(Duration::from_millis(100)).await {
                        End::Unresponsive(format!("valid RTP packet for a registered SSRC not delivered to its listener (5 tries) after {} inputs, mode {mode}", i + 1))
                    } else {
                        End::Inconclusive("scheduler starved".into())
                    };
                    break;
                }
            }
        }
        c.count("live.rtp.listener_probes_ok", probes);
        c.count("live.rtp.received_rtp_packets", t.received_rtp_packets());
        heap_verdict(&mut c, "rtp_transport");
        drop((tx1, tx2));
        (c, end)
    })
}

// ------------------------------------------------------------------ (5) PeerConnection signalling

fn pc_config(mode: &str) -> RtcConfiguration {
    let mut cfg = RtcConfiguration::default();
    cfg.ice_servers.clear();
    cfg.transport_mode = match mode {
        "rtp" => TransportMode::Rtp,
        "srtp" => TransportMode::Srtp,
        _ => TransportMode::WebRtc,
    };
    cfg
}

async fn genuine_offer(mode: &str) -> Option<String> {
    let pc = PeerConnection::new(pc_config(mode));
    pc.add_transceiver(MediaKind::Audio, TransceiverDirection::SendRecv);
    pc.add_transceiver(MediaKind::Video, TransceiverDirection::SendRecv);
    if mode == "webrtc" {
        let _ = pc.create_data_channel("d", None);
    }
    let o = pc.create_offer().await.ok()?;
    let s = o.to_sdp_string();
    pc.close();
    Some(s)
}

fn pc_body(mut c: Camp) -> Pin<Box<dyn Future<Output = (Camp, End)> + Send>> {
    Box::pin(async move {
        let mode = c.scenario["mode"].as_str().unwrap_or("webrtc").to_string();
        let sig = c.scenario["state"].as_str().unwrap_or("stable").to_string();
        let n = c.scenario["n"].as_u64().unwrap_or(200) as usize;
        let Some(offer_text) = genuine_offer(&mode).await else {
            return (c, End::Inconclusive("could not create a genuine offer".into()));
        };
        let mut seeds: Vec<Vec<u8>> = vec![offer_text.clone().into_bytes()];
        seeds.push(pure::SDP_WEBRTC.as_bytes().to_vec());
        seeds.push(pure::SDP_SIP.as_bytes().to_vec());
        seeds.push(pure::SDP_T38.as_bytes().to_vec());
        let specials = pure::sdp_specials();
        let cand_seeds = pure::sdp_attr_seeds();
        c.rebaseline();
        let mut accepted = 0u64;
        let mut rejected = 0u64;
        let mut timeouts = 0u64;
        for i in 0..n {
            let text = if i < specials.len() && sig == "stable" {
                specials[i].clone()
            } else if c.rng.chance(1, 6) {
                // boundary mids on an otherwise genuine offer
                let mid = *c.rng.pick(&["65535", "65534", "255", "256", "4294967295", "00", "-0", "0x1"]);
                let t = offer_text.replacen("a=mid:0", &format!("a=mid:{mid}"), 1);
                t.replace("BUNDLE 0", &format!("BUNDLE {mid}")).into_bytes()
            } else {
                mutators::random_text_mutant(&seeds, &mut c.rng)
            };
            let text = String::from_utf8_lossy(&text).into_owned();
            c.fed(text.as_bytes());
            let pc = PeerConnection::new(pc_config(&mode));
            // bring the connection into the signalling state under test
            let remote_type = match sig.as_str() {
                "have_local_offer" => {
                    pc.add_transceiver(MediaKind::Audio, TransceiverDirection::SendRecv);
                    pc.add_transceiver(MediaKind::Video, TransceiverDirection::SendRecv);
                    if let Ok(o) = pc.create_offer().await {
                        let _ = pc.set_local_description(o);
                    }
                    SdpType::Answer
                }
                "negotiated" => {
                    // complete a genuine offer/answer first: the hostile SDP is a re-offer
                    if let Ok(o) = SessionDescription::parse(SdpType::Offer, &offer_text) {
                        let _ = pc.set_remote_description(o).await;
                        if let Ok(a) = pc.create_answer().await {
                            let _ = pc.set_local_description(a);
                        }
                    }
                    SdpType::Offer
                }
                _ => SdpType::Offer,
            };
            let parsed = SessionDescription::parse(remote_type, &text);
            let Ok(desc) = parsed else {
                rejected += 1;
                pc.close();
                continue;
            };
            let fut = async {
                let r = pc.set_remote_description(desc).await;
                if r.is_ok() && remote_type == SdpType::Offer {
                    if let Ok(a) = pc.create_answer().await {
                        let _ = a.to_sdp_string();
                        let _ = pc.set_local_description(a);
                    }
                }
                r.is_ok()
            };
            match tokio::time::timeout(Duration::from_secs(20), AssertUnwindSafe(fut).catch_unwind()).await {
                Ok(Ok(true)) => accepted += 1,
                Ok(Ok(false)) => rejected += 1,
                Ok(Err(_)) => c.count("live.pc.call_unwound", 1),
                Err(_) => timeouts += 1,
            }
            // candidate strings
            for _ in 0..3 {
                let ct = mutators::random_text_mutant(&cand_seeds, &mut c.rng);
                let ct = String::from_utf8_lossy(&ct).into_owned();
                c.fed(ct.as_bytes());
                let r = std::panic::catch_unwind(AssertUnwindSafe(|| {
                    if let Ok(cand) = IceCandidate::from_sdp(&ct) {
                        let _ = pc.add_ice_candidate(cand);
                    }
                }));
                if r.is_err() {
                    c.count("live.pc.call_unwound", 1);
                }
            }
            pc.close();
            if i % 16 == 15 {
                tokio::time::sleep(Duration::from_millis(20)).await;
            }
        }
        c.count(&format!("live.pc.remote_sdp_accepted[{sig}]"), accepted);
        c.count(&format!("live.pc.remote_sdp_rejected[{sig}]"), rejected);
        c.count("live.pc.calls_timed_out_20s", timeouts);
        // liveness: after all that, a fresh genuine negotiation in this process still works
        let pc = PeerConnection::new(pc_config(&mode));
        let ok = match SessionDescription::parse(SdpType::Offer, &offer_text) {
            Ok(o) => match tokio::time::timeout(Duration::from_secs(20), pc.set_remote_description(o)).await {
                Ok(Ok(())) => matches!(tokio::time::timeout(Duration::from_secs(20), pc.create_answer()).await, Ok(Ok(_))),
                _ => false,
            },
            Err(_) => false,
        };
        pc.close();
        tokio::time::sleep(Duration::from_millis(300)).await;
        // PeerConnections were closed: what is still held is retained garbage
        heap_verdict(&mut c, "peer_connection");
        let end = if ok {
            End::Live
        } else {
            // an Err from a genuine offer is a refusal, not a hang; a time-out is only wall clock
            End::Inconclusive("final genuine offer/answer did not succeed".into())
        };
        (c, end)
    })
}

// ------------------------------------------------------------------ registry

pub fn more_specs(args: &Args, push: &mut impl FnMut(&'static str, Body, Value)) {
    let q = args.tier == Tier::Quick;
    let ni = if q { 8000 } else { 40000 };
    for st in ["gathered", "checking", "connected"] {
        push("ice_udp", ice_body, json!({"state":st,"n":ni}));
    }
    let nr = if q { 20000 } else { 150000 };
    for st in ["plain", "bridge", "srtp", "srtp_gcm"] {
        push("rtp_transport", rtp_body, json!({"state":st,"n":nr}));
    }
    let nf = if q { 4000 } else { 20000 };
    for st in ["plain", "srtp"] {
        push("rtp_transport", rtp_body, json!({"state":st,"n":nf,"flood":"ssrcs"}));
    }
    for st in ["checking", "connected"] {
        push("ice_udp", ice_body, json!({"state":st,"n":nf,"flood":"transactions"}));
    }
    let np = if q { 600 } else { 4000 };
    for (mode, st) in [("webrtc", "stable"), ("webrtc", "have_local_offer"), ("webrtc", "negotiated"), ("rtp", "stable"), ("rtp", "negotiated"), ("srtp", "stable"), ("srtp", "have_local_offer")] {
        push("peer_connection", pc_body, json!({"mode":mode,"state":st,"n":np}));
    }
    super::totality_turn::turn_specs(args, push);
}

#[allow(dead_code)]
fn _unused(_: RtpHeaderExtension, _: StunClass, _: StunMethod) {}
