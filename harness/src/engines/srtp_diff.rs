//! srtp_diff – runtime monitor for
//!   C04  SRTP/SRTCP protection round-trips and matches an independent implementation
//!   C05  SRTP rejects forged packets and a rejection never disturbs receiver state
//!
//! Code under test: rustrtc::srtp::{SrtpSession, SrtpContext} (real code, driven through its public
//! API; private per-SSRC state is observed through the additive H4 hooks `verif_rx_snapshot`,
//! `verif_roc_step`, `verif_age_contexts`).
//!
//! Oracles
//!   * webrtc-srtp 0.17 `Context` with the same master key/salt (AES_CM_128_HMAC_SHA1_80/_32,
//!     AEAD_AES_128_GCM) – the independent implementation of the statement.
//!   * RFC 3711 Appendix A index estimation + §3.3.1 update rule, written here from the RFC text,
//!     as the model for the rollover counter (exhaustive over (last,current) pairs).
//!   * a harness-own RFC 3711 AES-CM key derivation / keystream / HMAC-SHA1 tag (module `own`),
//!     validated against RFC 3711 B.3 and byte-for-byte against the reference on every AES-CM
//!     packet, used as the independent receiver/sender for the NULL-cipher profile (for which the
//!     reference has no profile).
//!   * C05: the two-receiver differential self-oracle (R0 genuine stream, R1 genuine + forgeries).

use crate::common::*;
use bytes::BytesMut;
use rustrtc::rtp::{RtpHeader, RtpHeaderExtension, RtpPacket};
use rustrtc::srtp::{
    SrtpContext, SrtpDirection, SrtpKeyingMaterial, SrtpPacket, SrtpProfile, SrtpSession,
};
use serde_json::{Value, json};
use std::collections::{BTreeMap, HashSet};
use std::panic::{AssertUnwindSafe, catch_unwind};
use std::sync::atomic::{AtomicUsize, Ordering};
use webrtc_srtp::context::Context as RefCtx;
use webrtc_srtp::protection_profile::ProtectionProfile as RefProfile;

// ------------------------------------------------------------------------------------ profiles

#[derive(Clone, Copy, PartialEq, Eq, Debug)]
enum Prof {
    P80,
    P32,
    Gcm,
    Null,
}

impl Prof {
    const ALL: [Prof; 4] = [Prof::P80, Prof::P32, Prof::Gcm, Prof::Null];
    fn name(&self) -> &'static str {
        match self {
            Prof::P80 => "AES_CM_128_HMAC_SHA1_80",
            Prof::P32 => "AES_CM_128_HMAC_SHA1_32",
            Prof::Gcm => "AEAD_AES_128_GCM",
            Prof::Null => "NULL_HMAC_SHA1_80",
        }
    }
    fn from_name(s: &str) -> Option<Prof> {
        Prof::ALL.iter().copied().find(|p| p.name() == s)
    }
    fn rustrtc(&self) -> SrtpProfile {
        match self {
            Prof::P80 => SrtpProfile::Aes128Sha1_80,
            Prof::P32 => SrtpProfile::Aes128Sha1_32,
            Prof::Gcm => SrtpProfile::AeadAes128Gcm,
            Prof::Null => SrtpProfile::NullCipherHmac,
        }
    }
    fn reference(&self) -> Option<RefProfile> {
        match self {
            Prof::P80 => Some(RefProfile::Aes128CmHmacSha1_80),
            Prof::P32 => Some(RefProfile::Aes128CmHmacSha1_32),
            Prof::Gcm => Some(RefProfile::AeadAes128Gcm),
            Prof::Null => None,
        }
    }
    fn salt_len(&self) -> usize {
        if *self == Prof::Gcm { 12 } else { 14 }
    }
    /// SRTP tag length (RFC 3711 / 5764 / 7714)
    fn rtp_tag(&self) -> usize {
        match self {
            Prof::P80 | Prof::Null => 10,
            Prof::P32 => 4,
            Prof::Gcm => 16,
        }
    }
    /// SRTCP tag length per RFC 5764 §4.1.2 (80 bits also for the _32 profile)
    fn rfc_rtcp_tag(&self) -> usize {
        match self {
            Prof::Gcm => 16,
            _ => 10,
        }
    }
}

// ------------------------------------------------------------- harness-own RFC 3711 (AES-CM/NULL)

mod own {
    //! Written from RFC 3711 §4.1.1 (AES-CM), §4.2 (HMAC-SHA1), §4.3 (key derivation, kdr=0),
    //! §3.4 (SRTCP). Only the AES block function and HMAC/SHA-1 primitives come from crates.
    use aes::Aes128;
    use aes::cipher::{BlockEncrypt, KeyInit, generic_array::GenericArray};
    use hmac::{Hmac, Mac};
    use sha1::Sha1;

    /// keystream = E(k, IV) || E(k, IV+1) || ...  (IV has its low 16 bits zero)
    pub fn aes_cm(key: &[u8], iv: [u8; 16], data: &mut [u8]) {
        let k = Aes128::new(GenericArray::from_slice(&key[..16]));
        for (j, chunk) in data.chunks_mut(16).enumerate() {
            let mut b = iv;
            let ctr = u16::from_be_bytes([b[14], b[15]]).wrapping_add(j as u16);
            b[14..16].copy_from_slice(&ctr.to_be_bytes());
            let mut blk = GenericArray::clone_from_slice(&b);
            k.encrypt_block(&mut blk);
            for (d, s) in chunk.iter_mut().zip(blk.iter()) {
                *d ^= *s;
            }
        }
    }

    /// §4.3.1: x = (label || 0) XOR master_salt ; key = PRF_n(master_key, x) = AES-CM(master_key, x*2^16)
    pub fn kdf(master_key: &[u8], master_salt: &[u8], label: u8, len: usize) -> Vec<u8> {
        let mut iv = [0u8; 16];
        for (i, b) in master_salt.iter().take(14).enumerate() {
            iv[i] = *b;
        }
        iv[7] ^= label;
        let mut out = vec![0u8; len];
        aes_cm(master_key, iv, &mut out);
        out
    }

    pub struct Keys {
        pub rtp_ck: Vec<u8>,
        pub rtp_ak: Vec<u8>,
        pub rtp_salt: Vec<u8>,
        pub rtcp_ck: Vec<u8>,
        pub rtcp_ak: Vec<u8>,
        pub rtcp_salt: Vec<u8>,
    }

    pub fn derive(master_key: &[u8], master_salt: &[u8]) -> Keys {
        Keys {
            rtp_ck: kdf(master_key, master_salt, 0, 16),
            rtp_ak: kdf(master_key, master_salt, 1, 20),
            rtp_salt: kdf(master_key, master_salt, 2, 14),
            rtcp_ck: kdf(master_key, master_salt, 3, 16),
            rtcp_ak: kdf(master_key, master_salt, 4, 20),
            rtcp_salt: kdf(master_key, master_salt, 5, 14),
        }
    }

    /// IV = (k_s * 2^16) XOR (SSRC * 2^64) XOR (i * 2^16)
    fn iv(salt: &[u8], ssrc: u32, index: u64) -> [u8; 16] {
        let mut iv = [0u8; 16];
        iv[..14].copy_from_slice(&salt[..14]);
        let s = ssrc.to_be_bytes();
        for i in 0..4 {
            iv[4 + i] ^= s[i];
        }
        let x = (index << 16).to_be_bytes(); // 48-bit index placed in bytes 8..14
        for i in 0..8 {
            iv[8 + i] ^= x[i];
        }
        iv
    }

    pub fn hmac(key: &[u8], parts: &[&[u8]]) -> [u8; 20] {
        let mut m = <Hmac<Sha1> as Mac>::new_from_slice(key).expect("hmac key");
        for p in parts {
            m.update(p);
        }
        m.finalize().into_bytes().into()
    }

    /// SRTP protect: `plain` = whole RTP packet, `hdr_len` = clear header length.
    pub fn protect_rtp(
        k: &Keys,
        encrypt: bool,
        tag_len: usize,
        plain: &[u8],
        hdr_len: usize,
        ssrc: u32,
        seq: u16,
        roc: u32,
    ) -> Vec<u8> {
        let mut out = plain.to_vec();
        if encrypt {
            let index = ((roc as u64) << 16) | seq as u64;
            aes_cm(&k.rtp_ck, iv(&k.rtp_salt, ssrc, index), &mut out[hdr_len..]);
        }
        let tag = hmac(&k.rtp_ak, &[&out, &roc.to_be_bytes()]);
        out.extend_from_slice(&tag[..tag_len]);
        out
    }

    /// SRTP unprotect with a known ROC. None = authentication failed / too short.
    pub fn unprotect_rtp(
        k: &Keys,
        encrypt: bool,
        tag_len: usize,
        prot: &[u8],
        hdr_len: usize,
        ssrc: u32,
        seq: u16,
        roc: u32,
    ) -> Option<Vec<u8>> {
        if prot.len() < hdr_len + tag_len {
            return None;
        }
        let (body, tag) = prot.split_at(prot.len() - tag_len);
        let exp = hmac(&k.rtp_ak, &[body, &roc.to_be_bytes()]);
        if exp[..tag_len] != *tag {
            return None;
        }
        let mut out = body.to_vec();
        if encrypt {
            let index = ((roc as u64) << 16) | seq as u64;
            aes_cm(&k.rtp_ck, iv(&k.rtp_salt, ssrc, index), &mut out[hdr_len..]);
        }
        Some(out)
    }

    /// SRTCP protect (§3.4): first 8 octets clear, E||index appended, tag over all of it.
    pub fn protect_rtcp(
        k: &Keys,
        encrypt: bool,
        tag_len: usize,
        plain: &[u8],
        ssrc: u32,
        index: u32,
    ) -> Vec<u8> {
        let mut out = plain.to_vec();
        let mut word = index & 0x7fff_ffff;
        if encrypt {
            aes_cm(&k.rtcp_ck, iv(&k.rtcp_salt, ssrc, index as u64), &mut out[8..]);
            word |= 0x8000_0000;
        }
        out.extend_from_slice(&word.to_be_bytes());
        let tag = hmac(&k.rtcp_ak, &[&out]);
        out.extend_from_slice(&tag[..tag_len]);
        out
    }

    /// SRTCP unprotect; `cipher_is_null`: the negotiated cipher is NULL (identity transform
    /// whatever the E bit says). Returns (plain, index, e_bit).
    pub fn unprotect_rtcp(
        k: &Keys,
        cipher_is_null: bool,
        tag_len: usize,
        prot: &[u8],
    ) -> Option<(Vec<u8>, u32, bool)> {
        if prot.len() < 8 + 4 + tag_len {
            return None;
        }
        let (body, tag) = prot.split_at(prot.len() - tag_len);
        let exp = hmac(&k.rtcp_ak, &[body]);
        if exp[..tag_len] != *tag {
            return None;
        }
        let n = body.len() - 4;
        let word = u32::from_be_bytes([body[n], body[n + 1], body[n + 2], body[n + 3]]);
        let e = word & 0x8000_0000 != 0;
        let index = word & 0x7fff_ffff;
        let ssrc = u32::from_be_bytes([body[4], body[5], body[6], body[7]]);
        let mut out = body[..n].to_vec();
        if e && !cipher_is_null {
            aes_cm(&k.rtcp_ck, iv(&k.rtcp_salt, ssrc, index as u64), &mut out[8..]);
        }
        Some((out, index, e))
    }

    /// RFC 3711 Appendix B.3 key-derivation test vectors. Err(text) = the harness-own code is wrong.
    pub fn selfcheck_b3() -> Result<(), String> {
        let mk = crate::common::unhex("E1F97A0D3E018BE0D64FA32C06DE4139");
        let ms = crate::common::unhex("0EC675AD498AFEEBB6960B3AABE6");
        let ck = kdf(&mk, &ms, 0, 16);
        let cs = kdf(&mk, &ms, 2, 14);
        let ak = kdf(&mk, &ms, 1, 94);
        if crate::common::hex(&ck) != "c61e7a93744f39ee10734afe3ff7a087" {
            return Err(format!("B.3 cipher key: got {}", crate::common::hex(&ck)));
        }
        if crate::common::hex(&cs) != "30cbbc08863d8c85d49db34a9ae1" {
            return Err(format!("B.3 cipher salt: got {}", crate::common::hex(&cs)));
        }
        let exp_ak = "cebe321f6ff7716b6fd4ab49af256a156d38baa48f0a0acf3c34e2359e6cdbce\
                      e049646c43d9327ad175578ef72270986371c10c9a369ac2f94a8c5fbcdddc25\
                      6d6e919a48b610ef17c2041e474035766b68642c59bbfc2f34db60dbdfb2";
        if crate::common::hex(&ak) != exp_ak {
            return Err(format!("B.3 auth key: got {}", crate::common::hex(&ak)));
        }
        Ok(())
    }
}

// ------------------------------------------------------------- RFC 3711 Appendix A / §3.3.1 model

/// Appendix A: estimate v (the ROC of the packet) from s_l, ROC and SEQ.
fn rfc_guess(s_l: u16, roc: u32, seq: u16) -> u32 {
    if s_l < 32768 {
        if (seq as i32) - (s_l as i32) > 32768 {
            roc.wrapping_sub(1)
        } else {
            roc
        }
    } else if (s_l as i32) - 32768 > (seq as i32) {
        roc.wrapping_add(1)
    } else {
        roc
    }
}

/// §3.3.1 update after successful authentication.
fn rfc_update(s_l: u16, roc: u32, seq: u16, v: u32) -> (u32, u16) {
    if v == roc {
        if seq > s_l { (roc, seq) } else { (roc, s_l) }
    } else if v == roc.wrapping_add(1) {
        (v, seq)
    } else {
        (roc, s_l)
    }
}

// ------------------------------------------------------------------------------------ observations

#[derive(Default)]
struct Obs {
    counters: BTreeMap<String, u64>,
    seen: Vec<(String, String)>,
    viols: Vec<(String, String, Value)>,
    nontrivial: bool,
    inconclusive: Option<String>,
    sample: Option<Value>,
}

impl Obs {
    fn count(&mut self, k: &str, n: u64) {
        *self.counters.entry(k.to_string()).or_insert(0) += n;
    }
    fn seen(&mut self, set: &str, item: impl Into<String>) {
        if self.seen.len() < 4000 {
            self.seen.push((set.to_string(), item.into()));
        }
    }
    fn viol(&mut self, key: impl Into<String>, what: impl Into<String>, witness: Value) {
        let key = key.into();
        if self.viols.iter().any(|v| v.0 == key) {
            self.count(&format!("repeat_in_scenario:{key}"), 1);
            return;
        }
        self.viols.push((key, what.into(), witness));
    }
    fn harness_problem(&mut self, why: impl Into<String>) {
        if self.inconclusive.is_none() {
            self.inconclusive = Some(why.into());
        }
    }
}

fn variant<E: std::fmt::Debug>(e: &E) -> String {
    let s = format!("{:?}", e);
    s.split(|c: char| c == '(' || c == '{' || c == ' ')
        .next()
        .unwrap_or("")
        .to_string()
}

enum Rx<T> {
    Ok(T),
    Rejected(String),
    Panic(String),
}

impl<T> Rx<T> {
    fn tag(&self) -> String {
        match self {
            Rx::Ok(_) => "Ok".into(),
            Rx::Rejected(e) => format!("Err({e})"),
            Rx::Panic(l) => format!("panic@{l}"),
        }
    }
    fn is_ok(&self) -> bool {
        matches!(self, Rx::Ok(_))
    }
}

fn last_panic_location() -> String {
    take_panics()
        .last()
        .map(|p| norm_location(&p.location))
        .unwrap_or_else(|| "?".into())
}

fn rx_rtp(s: &mut SrtpSession, bytes: &[u8]) -> Rx<RtpPacket> {
    let r = catch_unwind(AssertUnwindSafe(|| {
        let pkt = SrtpPacket::parse(BytesMut::from(bytes))
            .map_err(|e| format!("parse:{}", variant(&e)))?;
        s.unprotect_rtp(pkt).map_err(|e| variant(&e))
    }));
    match r {
        Ok(Ok(p)) => Rx::Ok(p),
        Ok(Err(e)) => Rx::Rejected(e),
        Err(_) => Rx::Panic(last_panic_location()),
    }
}

fn rx_rtcp(s: &mut SrtpSession, bytes: &[u8]) -> Rx<Vec<u8>> {
    let r = catch_unwind(AssertUnwindSafe(|| {
        let mut v = bytes.to_vec();
        s.unprotect_rtcp(&mut v).map(|_| v).map_err(|e| variant(&e))
    }));
    match r {
        Ok(Ok(p)) => Rx::Ok(p),
        Ok(Err(e)) => Rx::Rejected(e),
        Err(_) => Rx::Panic(last_panic_location()),
    }
}

fn tx_rtp(s: &mut SrtpSession, p: &RtpPacket) -> Result<Vec<u8>, String> {
    let r = catch_unwind(AssertUnwindSafe(|| {
        let mut out = vec![0u8; s.protected_rtp_len(p)];
        s.protect_rtp(p, &mut out).map(|_| out).map_err(|e| variant(&e))
    }));
    match r {
        Ok(x) => x,
        Err(_) => Err(format!("panic@{}", last_panic_location())),
    }
}

fn tx_rtcp(s: &mut SrtpSession, plain: &[u8]) -> Result<Vec<u8>, String> {
    let r = catch_unwind(AssertUnwindSafe(|| {
        let mut v = plain.to_vec();
        s.protect_rtcp(&mut v).map(|_| v).map_err(|e| variant(&e))
    }));
    match r {
        Ok(x) => x,
        Err(_) => Err(format!("panic@{}", last_panic_location())),
    }
}

// ------------------------------------------------------------------------------------ generators

struct Keys {
    k1: (Vec<u8>, Vec<u8>),
    k2: (Vec<u8>, Vec<u8>),
}

fn gen_keys(rng: &mut Rng, prof: Prof) -> Keys {
    let one = |rng: &mut Rng| {
        let (mut k, mut s) = (rng.bytes(16), rng.bytes(prof.salt_len()));
        match rng.below(12) {
            0 => k = vec![0; 16],
            1 => s = vec![0; prof.salt_len()],
            2 => {
                k = vec![0xff; 16];
                s = vec![0xff; prof.salt_len()]
            }
            _ => {}
        }
        (k, s)
    };
    let k1 = one(rng);
    let mut k2 = one(rng);
    if k2 == k1 {
        k2.0[0] ^= 1;
    }
    Keys { k1, k2 }
}

fn material(k: &(Vec<u8>, Vec<u8>)) -> SrtpKeyingMaterial {
    SrtpKeyingMaterial::new(k.0.clone(), k.1.clone())
}

/// side A sends with K1 and receives with K2; side B the other way round.
fn session(prof: Prof, tx: &(Vec<u8>, Vec<u8>), rx: &(Vec<u8>, Vec<u8>)) -> Result<SrtpSession, String> {
    SrtpSession::new(prof.rustrtc(), material(tx), material(rx)).map_err(|e| variant(&e))
}

fn ref_ctx(prof: Prof, k: &(Vec<u8>, Vec<u8>)) -> Option<RefCtx> {
    let p = prof.reference()?;
    RefCtx::new(&k.0, &k.1, p, None, None).ok()
}

/// Well-formed RFC 8285 element list padded with zeros to a multiple of 4.
fn gen_ext_elements(rng: &mut Rng, two_byte: bool) -> Vec<u8> {
    let mut v = vec![];
    let n = rng.below(5);
    for _ in 0..n {
        if two_byte {
            let id = rng.range(1, 255) as u8;
            let len = rng.below(20) as usize;
            v.push(id);
            v.push(len as u8);
            v.extend(rng.bytes(len));
        } else {
            let id = rng.range(1, 14) as u8;
            let len = rng.range(1, 16) as usize;
            v.push((id << 4) | (len as u8 - 1));
            v.extend(rng.bytes(len));
        }
        if v.len() > 56 {
            break;
        }
    }
    while v.len() % 4 != 0 {
        v.push(0);
    }
    if rng.chance(1, 6) {
        v.extend_from_slice(&[0, 0, 0, 0]);
    }
    v
}

/// Returns the packet and whether the reference's RTP header parser can represent it
/// (ill-formed RFC 8285 element lists make *its parser* mis-size the header; such packets are
/// only used for rustrtc's own round trip, not for the differential checks).
fn gen_rtp(rng: &mut Rng, ssrc: u32, seq: u16, small: bool, allow_raw: bool) -> (RtpPacket, bool, &'static str) {
    let mut h = RtpHeader::new(rng.below(128) as u8, seq, rng.u32(), ssrc);
    h.marker = rng.bool();
    if rng.chance(1, 4) {
        let n = if rng.chance(1, 5) { 15 } else { rng.range(1, 15) };
        h.csrcs = (0..n).map(|_| rng.u32()).collect();
    }
    let mut ref_fit = true;
    let mut ext_kind = "none";
    match rng.below(10) {
        0 | 1 => {
            h.extension = Some(RtpHeaderExtension::new(0xBEDE, gen_ext_elements(rng, false)));
            ext_kind = "one-byte";
        }
        2 => {
            h.extension = Some(RtpHeaderExtension::new(0x1000, gen_ext_elements(rng, true)));
            ext_kind = "two-byte";
        }
        3 => {
            let words = rng.below(17) as usize;
            let mut prof = rng.u16();
            if prof == 0xBEDE || prof == 0x1000 {
                prof = 0x1234;
            }
            h.extension = Some(RtpHeaderExtension::new(prof, rng.bytes(words * 4)));
            ext_kind = "rfc3550";
        }
        4 if allow_raw => {
            // arbitrary bytes under an RFC 8285 profile id: legal for SRTP (opaque header bytes)
            let words = rng.range(1, 16) as usize;
            let prof = if rng.bool() { 0xBEDE } else { 0x1000 };
            h.extension = Some(RtpHeaderExtension::new(prof, rng.bytes(words * 4)));
            ref_fit = false;
            ext_kind = "raw-8285";
        }
        _ => {}
    }
    let plen = if small {
        rng.below(65) as usize
    } else {
        match rng.below(12) {
            0 => 0,
            1 => 1,
            2 => *rng.pick(&[15usize, 16, 17, 31, 32, 33]),
            3 => 1400,
            4 | 5 => rng.range(200, 1400) as usize,
            _ => rng.range(1, 200) as usize,
        }
    };
    let mut p = RtpPacket::new(h, rng.bytes(plen));
    p.padding_len = match rng.below(10) {
        0 => 1,
        1 => 255,
        2 => rng.range(2, 40) as u8,
        _ => 0,
    };
    (p, ref_fit, ext_kind)
}

/// Plain RTP bytes built by the harness (RFC 3550 §5.1) – the expectation for the reference.
fn raw_rtp(p: &RtpPacket) -> Vec<u8> {
    let h = &p.header;
    let mut v = Vec::with_capacity(64 + p.payload.len());
    let mut b0 = 0x80u8 | (h.csrcs.len() as u8 & 0x0f);
    if p.padding_len != 0 {
        b0 |= 0x20;
    }
    if h.extension.is_some() {
        b0 |= 0x10;
    }
    v.push(b0);
    v.push((h.payload_type & 0x7f) | if h.marker { 0x80 } else { 0 });
    v.extend_from_slice(&h.sequence_number.to_be_bytes());
    v.extend_from_slice(&h.timestamp.to_be_bytes());
    v.extend_from_slice(&h.ssrc.to_be_bytes());
    for c in &h.csrcs {
        v.extend_from_slice(&c.to_be_bytes());
    }
    if let Some(e) = &h.extension {
        v.extend_from_slice(&e.profile.to_be_bytes());
        v.extend_from_slice(&((e.data.len() / 4) as u16).to_be_bytes());
        v.extend_from_slice(&e.data);
    }
    v.extend_from_slice(&p.payload);
    for _ in 0..p.padding_len {
        v.push(p.padding_len);
    }
    v
}

fn rtp_hdr_len(p: &RtpPacket) -> usize {
    12 + 4 * p.header.csrcs.len() + p.header.extension.as_ref().map_or(0, |e| 4 + e.data.len())
}

/// "decoded to the same packet": header and payload byte-identical, same total length, same
/// padding length octet. The content of the other padding octets is not specified by RFC 3550
/// §5.1, so it is not compared.
fn same_rtp_modulo_padding(got: &[u8], plain: &[u8], padding_len: u8) -> bool {
    if got.len() != plain.len() {
        return false;
    }
    let keep = plain.len() - padding_len as usize;
    got[..keep] == plain[..keep] && (padding_len == 0 || got.last() == plain.last())
}

/// Does the reference's own RTP header parser size this header correctly?
fn ref_parses_header(plain: &[u8], hdr_len: usize) -> bool {
    use webrtc_util::marshal::{MarshalSize, Unmarshal};
    let mut b = plain;
    match rtp::header::Header::unmarshal(&mut b) {
        Ok(h) => h.marshal_size() == hdr_len,
        Err(_) => false,
    }
}

/// RTCP compound packet (RFC 3550 §6): SR or RR first, then optional SDES / BYE / feedback / APP.
fn gen_rtcp(rng: &mut Rng, ssrc: u32, small: bool) -> Vec<u8> {
    fn put(v: &mut Vec<u8>, count: u8, pt: u8, body: &[u8]) {
        debug_assert!(body.len() % 4 == 0);
        v.push(0x80 | (count & 0x1f));
        v.push(pt);
        v.extend_from_slice(&((body.len() / 4) as u16).to_be_bytes());
        v.extend_from_slice(body);
    }
    let mut v = vec![];
    let rc = if rng.chance(1, 3) { 0 } else { rng.below(4) as usize };
    let mut body = ssrc.to_be_bytes().to_vec();
    if rng.bool() {
        body.extend(rng.bytes(20 + 24 * rc));
        put(&mut v, rc as u8, 200, &body);
    } else {
        body.extend(rng.bytes(24 * rc));
        put(&mut v, rc as u8, 201, &body);
    }
    if rng.chance(1, 2) {
        // SDES, one chunk with CNAME
        let n = rng.range(1, 30) as usize;
        let mut b = ssrc.to_be_bytes().to_vec();
        b.push(1);
        b.push(n as u8);
        b.extend(rng.bytes(n).iter().map(|x| b'a' + x % 26));
        b.push(0);
        while b.len() % 4 != 0 {
            b.push(0);
        }
        put(&mut v, 1, 202, &b);
    }
    if rng.chance(1, 4) {
        let mut b = ssrc.to_be_bytes().to_vec();
        b.extend(rng.bytes(4));
        put(&mut v, 1, 206, &b); // PLI
    }
    if rng.chance(1, 4) {
        let mut b = ssrc.to_be_bytes().to_vec();
        let k = 4 + 4 * rng.below(6) as usize;
        b.extend(rng.bytes(k));
        put(&mut v, 1, 205, &b); // NACK
    }
    if !small && rng.chance(1, 6) {
        let mut b = ssrc.to_be_bytes().to_vec();
        b.extend_from_slice(b"VRIF");
        let k = 4 * rng.range(0, 320) as usize;
        b.extend(rng.bytes(k));
        put(&mut v, 0, 204, &b); // APP
    }
    if rng.chance(1, 8) {
        put(&mut v, 1, 203, &ssrc.to_be_bytes()); // BYE
    }
    v
}

// ------------------------------------------------------------------------------------ streams

struct Item {
    ssrc: u32,
    rtcp: bool,
    /// RTP: the true 48-bit packet index (ROC<<16 | SEQ) at the sender; RTCP: 1-based SRTCP index
    index: u64,
    pkt: Option<RtpPacket>,
    plain: Vec<u8>,
    hdr_len: usize,
    ref_fit: bool,
    ext_kind: &'static str,
}

#[derive(Default, Clone)]
struct StreamStats {
    delivered: u64,
    reordered: u64,
    lost: u64,
    dups: u64,
    max_roc: u64,
    filtered: u64,
    near_edge: u64,
}

struct Stream {
    items: Vec<Item>,
    delivery: Vec<(usize, bool)>, // (item, is_duplicate_delivery)
    stats: StreamStats,
    ssrcs: Vec<u32>,
    /// (delivery position, seconds): before that delivery every receive context of the rustrtc
    /// receivers is made `seconds` older (H4 `verif_age_contexts`); empty for ordinary streams
    ages: Vec<(usize, u64)>,
}

fn interleave(rng: &mut Rng, lists: Vec<Vec<(usize, bool)>>) -> Vec<(usize, bool)> {
    let mut pos = vec![0usize; lists.len()];
    let total: usize = lists.iter().map(|l| l.len()).sum();
    let mut out = Vec::with_capacity(total);
    let mut left = total;
    while left > 0 {
        let mut r = rng.usize_below(left);
        for (i, l) in lists.iter().enumerate() {
            let rem = l.len() - pos[i];
            if r < rem {
                out.push(l[pos[i]]);
                pos[i] += 1;
                break;
            }
            r -= rem;
        }
        left -= 1;
    }
    out
}

fn gen_ssrcs(rng: &mut Rng, n: usize) -> Vec<u32> {
    let mut set = HashSet::new();
    let mut v = vec![];
    while v.len() < n {
        let s = match rng.below(20) {
            0 => 0,
            1 => u32::MAX,
            2 => 1,
            _ => rng.u32(),
        };
        if set.insert(s) {
            v.push(s);
        }
    }
    v
}

/// Sender program + a delivery schedule that stays inside the statement's tolerance:
/// every delivered RTP packet is within +/-(2^15-1) of the highest index delivered so far on its
/// SSRC, and the first delivered packet of an SSRC was sent with ROC 0 (a receiver cannot know a
/// different initial ROC – RFC 3711 §3.3.1).
fn gen_stream(rng: &mut Rng, n_ssrc: usize, n_rtp: usize, n_rtcp: usize, mode: &str, small: bool) -> Stream {
    let ssrcs = gen_ssrcs(rng, n_ssrc);
    let mut items: Vec<Item> = vec![];
    let mut send_lists: Vec<Vec<(usize, bool)>> = vec![];
    let mut deliv_lists: Vec<Vec<(usize, bool)>> = vec![];
    let mut st = StreamStats::default();
    for &ssrc in &ssrcs {
        // ---- RTP
        let mut idx: u64 = match rng.below(20) {
            0..=4 => rng.range(65500, 65535),
            5 | 6 => 0,
            7 | 8 => rng.range(32760, 32775),
            _ => rng.below(65536),
        };
        let n = if n_rtp == 0 { 0 } else { rng.range((n_rtp as u64 / 2).max(1), n_rtp as u64) as usize };
        let mut own: Vec<usize> = vec![];
        let mut delay: Vec<u64> = vec![];
        // the reference keeps per-SSRC sender/receiver state, so an SSRC either is shown to it
        // completely or not at all: raw (ill-formed RFC 8285) extension bytes, which its RTP
        // parser mis-sizes, are confined to SSRCs that stay rustrtc-only
        let raw_ssrc = rng.chance(1, 6);
        let mut ssrc_fit = !raw_ssrc;
        for _ in 0..n {
            let (p, fit, ek) = gen_rtp(rng, ssrc, idx as u16, small, raw_ssrc);
            let plain = raw_rtp(&p);
            let hdr_len = rtp_hdr_len(&p);
            ssrc_fit = ssrc_fit && fit && ref_parses_header(&plain, hdr_len);
            let fit = ssrc_fit;
            own.push(items.len());
            items.push(Item { ssrc, rtcp: false, index: idx, pkt: Some(p), plain, hdr_len, ref_fit: fit, ext_kind: ek });
            let mut d = match rng.below(100) {
                0..=8 => rng.range(1, 64),
                9..=11 => rng.range(1, n as u64),
                _ => 0,
            };
            let step = match mode {
                "plain" => 1,
                "wrapheavy" => match rng.below(10) {
                    0..=4 => 1,
                    5..=8 => rng.range(30000, 32767),
                    _ => 32767,
                },
                "edge" => match rng.below(8) {
                    0 | 1 => {
                        // hold this packet back behind a jump of just under 2^15
                        d = rng.range(1, 3);
                        32767 - rng.below(3)
                    }
                    2 => 32767 - rng.below(3),
                    _ => 1,
                },
                _ => match rng.below(100) {
                    0..=79 => 1,
                    80..=89 => rng.range(2, 50),
                    90..=93 => rng.range(1000, 32000),
                    _ => rng.range(30000, 32767),
                },
            };
            delay.push(d);
            idx += step;
        }
        send_lists.push(own.iter().map(|i| (*i, false)).collect());
        // delivery order of this SSRC's RTP
        let mut sched: Vec<(u64, usize, bool)> = vec![];
        for (pos, it) in own.iter().enumerate() {
            if pos != 0 && rng.chance(6, 100) {
                st.lost += 1;
                continue;
            }
            sched.push(((pos as u64 + delay[pos]) * 4, *it, false));
            if rng.chance(2, 100) {
                sched.push(((pos as u64 + rng.range(0, 20)) * 4 + 1, *it, true));
            }
        }
        sched.sort_by_key(|s| s.0);
        let mut h: Option<u64> = None;
        let mut seen_items = HashSet::new();
        let mut dl = vec![];
        for (_, it, _) in sched {
            let i = items[it].index;
            match h {
                None => {
                    if i >> 16 != 0 {
                        st.filtered += 1;
                        continue;
                    }
                    h = Some(i);
                }
                Some(hh) => {
                    let d = i as i64 - hh as i64;
                    if d.abs() > 32767 {
                        st.filtered += 1;
                        continue;
                    }
                    if d.abs() >= 32760 {
                        st.near_edge += 1;
                    }
                    if d < 0 {
                        st.reordered += 1;
                    }
                    h = Some(hh.max(i));
                }
            }
            let dup = !seen_items.insert(it);
            if dup {
                st.dups += 1;
            }
            st.delivered += 1;
            st.max_roc = st.max_roc.max(i >> 16);
            dl.push((it, dup));
        }
        deliv_lists.push(dl);
        // ---- RTCP
        let m = if n_rtcp == 0 { 0 } else { rng.range(1, n_rtcp as u64) as usize };
        let mut own_c = vec![];
        for k in 0..m {
            let plain = gen_rtcp(rng, ssrc, small);
            own_c.push(items.len());
            items.push(Item { ssrc, rtcp: true, index: k as u64 + 1, pkt: None, plain, hdr_len: 8, ref_fit: true, ext_kind: "rtcp" });
        }
        send_lists.push(own_c.iter().map(|i| (*i, false)).collect());
        let mut dl: Vec<(usize, bool)> = vec![];
        for it in &own_c {
            if rng.chance(5, 100) {
                st.lost += 1;
                continue;
            }
            dl.push((*it, false));
        }
        // RTCP carries its index explicitly: any order is legitimate
        for i in 0..dl.len() {
            if rng.chance(15, 100) {
                let j = rng.usize_below(dl.len());
                dl.swap(i, j);
                st.reordered += 1;
            }
        }
        st.delivered += dl.len() as u64;
        deliv_lists.push(dl);
    }
    // global send order: re-number items so that position in `items` is the send order
    let send = interleave(rng, send_lists);
    let mut new_pos = vec![0usize; items.len()];
    for (np, (old, _)) in send.iter().enumerate() {
        new_pos[*old] = np;
    }
    let mut slots: Vec<Option<Item>> = items.into_iter().map(Some).collect();
    let mut ordered: Vec<Item> = Vec::with_capacity(slots.len());
    for (old, _) in &send {
        if let Some(it) = slots[*old].take() {
            ordered.push(it);
        }
    }
    let delivery = interleave(rng, deliv_lists)
        .into_iter()
        .map(|(i, d)| (new_pos[i], d))
        .collect();
    Stream { items: ordered, delivery, stats: st, ssrcs, ages: vec![] }
}

/// "SSRC churn over a long call": more genuine SSRCs than the 32-context watermark, a few of
/// them ACTIVE for the whole history (the first one RTP-only and across at least one 2^16 wrap),
/// the others heard a few times and then silent. Then time passes (all contexts are aged through
/// H4, in one step of > 60 s or in two steps that only add up to > 60 s for the silent ones); after
/// every step each active stream receives a packet before anything else happens, so it has never
/// been silent for 60 s. Then never-seen genuine SSRCs show up (RTP or RTCP first) while the
/// active streams go on. Everything is delivered in order, so every delivery is inside the
/// statement's tolerance and the first packet of every SSRC is sent at ROC 0.
fn gen_aged_stream(rng: &mut Rng, n_old: usize, small: bool) -> Stream {
    let n_new = rng.range(1, 3) as usize;
    let ssrcs = gen_ssrcs(rng, n_old + n_new);
    let (old, newc) = ssrcs.split_at(n_old);
    let n_active = (rng.range(1, 3) as usize).min(n_old);
    let mut st = StreamStats::default();
    let mut items: Vec<Item> = vec![];
    struct Src {
        ssrc: u32,
        idx: u64,
        rtcp_idx: u64,
        fit: bool,
        with_rtcp: bool,
    }
    let push_rtp = |rng: &mut Rng, s: &mut Src, step: u64, items: &mut Vec<Item>, st: &mut StreamStats| {
        let (p, fit, ek) = gen_rtp(rng, s.ssrc, s.idx as u16, small, false);
        let plain = raw_rtp(&p);
        let hdr_len = rtp_hdr_len(&p);
        s.fit = s.fit && fit && ref_parses_header(&plain, hdr_len);
        st.delivered += 1;
        st.max_roc = st.max_roc.max(s.idx >> 16);
        items.push(Item { ssrc: s.ssrc, rtcp: false, index: s.idx, pkt: Some(p), plain, hdr_len, ref_fit: s.fit, ext_kind: ek });
        s.idx += step.max(1);
    };
    let push_rtcp = |rng: &mut Rng, s: &mut Src, items: &mut Vec<Item>, st: &mut StreamStats| {
        s.rtcp_idx += 1;
        st.delivered += 1;
        let plain = gen_rtcp(rng, s.ssrc, small);
        items.push(Item { ssrc: s.ssrc, rtcp: true, index: s.rtcp_idx, pkt: None, plain, hdr_len: 8, ref_fit: true, ext_kind: "rtcp" });
    };
    let step = |rng: &mut Rng| match rng.below(10) {
        0 => rng.range(2, 40),
        1 => rng.range(20000, 32767),
        _ => 1,
    };
    // ---- phase 1: every old SSRC is heard; the active ones cross a wrap
    let mut srcs: Vec<Src> = vec![];
    let mut lists: Vec<Vec<(usize, bool)>> = vec![]; // (index into `pre`, unused)
    let mut pre: Vec<Item> = vec![];
    for (k, &ssrc) in old.iter().enumerate() {
        let active = k < n_active;
        let start = if active && (k == 0 || rng.chance(2, 3)) {
            rng.range(65400, 65535)
        } else if rng.chance(1, 4) {
            rng.range(65500, 65535)
        } else {
            rng.below(65536)
        };
        let mut s = Src { ssrc, idx: start, rtcp_idx: 0, fit: true, with_rtcp: active && k != 0 && rng.chance(1, 3) };
        let mut own = vec![];
        let n = if active { rng.range(6, 30) } else { rng.range(1, 6) };
        let (mut sent, mut after_wrap) = (0u64, 0u64);
        // the first active stream always ends phase 1 with ROC >= 1 (and a few packets beyond)
        loop {
            let done = if k == 0 { sent >= n && after_wrap >= 3 } else { sent >= n };
            if done || sent > 5000 {
                break;
            }
            own.push((pre.len(), false));
            let d = if k == 0 && (s.idx >> 16) == 0 && sent >= n { rng.range(1, 200) } else { step(rng) };
            if s.idx >> 16 >= 1 {
                after_wrap += 1;
            }
            push_rtp(rng, &mut s, d, &mut pre, &mut st);
            sent += 1;
            if s.with_rtcp && rng.chance(1, 6) {
                own.push((pre.len(), false));
                push_rtcp(rng, &mut s, &mut pre, &mut st);
            }
        }
        lists.push(own);
        srcs.push(s);
    }
    let order = interleave(rng, lists);
    let mut slots: Vec<Option<Item>> = pre.into_iter().map(Some).collect();
    for (i, _) in order {
        if let Some(it) = slots[i].take() {
            items.push(it);
        }
    }
    // ---- phase 2: time passes; actives first after every step
    let mut ages: Vec<(usize, u64)> = vec![];
    let steps: Vec<u64> = match rng.below(3) {
        0 => vec![rng.range(61, 600)],
        1 => vec![rng.range(31, 59), rng.range(31, 59)],
        _ => vec![rng.range(5, 59), rng.range(61, 90)],
    };
    let mut active: Vec<usize> = (0..n_active).collect();
    let burst = |rng: &mut Rng, srcs: &mut Vec<Src>, active: &[usize], lo: u64, hi: u64, items: &mut Vec<Item>, st: &mut StreamStats| {
        // every active stream at least `lo` RTP packets, interleaved
        let mut left: Vec<(usize, u64)> = active.iter().map(|a| (*a, rng.range(lo, hi))).collect();
        while !left.is_empty() {
            let j = rng.usize_below(left.len());
            let a = left[j].0;
            let d = if rng.chance(1, 8) { rng.range(2, 40) } else { 1 };
            push_rtp(rng, &mut srcs[a], d, items, st);
            left[j].1 -= 1;
            if left[j].1 == 0 {
                left.swap_remove(j);
            }
        }
    };
    for secs in steps {
        ages.push((items.len(), secs));
        // (RTP only here: the first packet of each active stream after the pause)
        burst(rng, &mut srcs, &active, 1, 3, &mut items, &mut st);
        for a in &active {
            if srcs[*a].with_rtcp && rng.chance(1, 3) {
                push_rtcp(rng, &mut srcs[*a], &mut items, &mut st);
            }
        }
    }
    for &ssrc in newc {
        let mut s = Src { ssrc, idx: rng.below(65536), rtcp_idx: 0, fit: true, with_rtcp: true };
        if rng.chance(1, 3) {
            push_rtcp(rng, &mut s, &mut items, &mut st);
        } else {
            push_rtp(rng, &mut s, 1, &mut items, &mut st);
        }
        srcs.push(s);
        let me = srcs.len() - 1;
        burst(rng, &mut srcs, &active, 2, 6, &mut items, &mut st);
        if rng.bool() {
            // the newcomer stays
            active.push(me);
        }
    }
    let delivery = (0..items.len()).map(|i| (i, false)).collect();
    Stream { items, delivery, stats: st, ssrcs, ages }
}

fn item_json(it: &Item) -> Value {
    json!({
        "proto": if it.rtcp { "rtcp" } else { "rtp" },
        "ssrc": it.ssrc,
        "index": it.index,
        "seq": (it.index & 0xffff),
        "roc": (it.index >> 16),
        "ext": it.ext_kind,
        "len": it.plain.len(),
        "hdr_len": it.hdr_len,
        "padding": it.pkt.as_ref().map(|p| p.padding_len).unwrap_or(0),
        "plain": hex_cap(&it.plain, 96),
    })
}

fn ref_call<T>(f: impl FnOnce() -> Result<T, webrtc_srtp::Error>) -> Result<T, String> {
    match catch_unwind(AssertUnwindSafe(f)) {
        Ok(Ok(v)) => Ok(v),
        Ok(Err(e)) => Err(variant(&e)),
        Err(_) => {
            let _ = take_panics();
            Err("REFERENCE-PANIC".into())
        }
    }
}

// ------------------------------------------------------------------------------------ C04 stream

fn run_c04_stream(sc: &Value) -> Obs {
    let mut o = Obs::default();
    let Some(prof) = sc["profile"].as_str().and_then(Prof::from_name) else {
        o.harness_problem("bad profile in scenario");
        return o;
    };
    let mut rng = Rng(sc["rng"].as_u64().unwrap_or(1));
    let n_ssrc = sc["n_ssrc"].as_u64().unwrap_or(1) as usize;
    let n_rtp = sc["n_rtp"].as_u64().unwrap_or(20) as usize;
    let n_rtcp = sc["n_rtcp"].as_u64().unwrap_or(4) as usize;
    let mode = sc["mode"].as_str().unwrap_or("mixed").to_string();
    let small = sc["small"].as_bool().unwrap_or(false);
    let keys = gen_keys(&mut rng, prof);
    let stream = if sc["aged"].as_bool().unwrap_or(false) {
        gen_aged_stream(&mut rng, n_ssrc, small)
    } else {
        gen_stream(&mut rng, n_ssrc, n_rtp, n_rtcp, &mode, small)
    };

    let (mut a, mut b, mut b2) = match (
        session(prof, &keys.k1, &keys.k2),
        session(prof, &keys.k2, &keys.k1),
        session(prof, &keys.k2, &keys.k1),
    ) {
        (Ok(a), Ok(b), Ok(c)) => (a, b, c),
        _ => {
            o.viol(
                format!("session.new profile={}", prof.name()),
                "SrtpSession::new failed for well-formed keying material",
                json!({}),
            );
            return o;
        }
    };
    let mut ref_enc = ref_ctx(prof, &keys.k1);
    let mut ref_dec = ref_ctx(prof, &keys.k1);
    if prof.reference().is_some() && (ref_enc.is_none() || ref_dec.is_none()) {
        o.harness_problem("reference Context::new failed");
        return o;
    }
    let ownk = if prof != Prof::Gcm { Some(own::derive(&keys.k1.0, &keys.k1.1)) } else { None };
    let pn = prof.name();

    // ---- sender phase (send order)
    let n = stream.items.len();
    let mut a_out: Vec<Option<Vec<u8>>> = vec![None; n];
    let mut x_out: Vec<Option<Vec<u8>>> = vec![None; n]; // the independent sender's packet
    for (i, it) in stream.items.iter().enumerate() {
        let seq = it.index as u16;
        let roc = (it.index >> 16) as u32;
        if !it.rtcp {
            let Some(p) = it.pkt.as_ref() else { continue };
            match tx_rtp(&mut a, p) {
                Ok(v) => a_out[i] = Some(v),
                Err(e) => {
                    o.viol(
                        format!("rtp.protect profile={pn} result=Err({e})"),
                        "protect_rtp refused a valid RTP packet",
                        json!({"item": item_json(it)}),
                    );
                    continue;
                }
            }
            if it.ref_fit {
                if let Some(r) = ref_enc.as_mut() {
                    match ref_call(|| r.encrypt_rtp(&it.plain)) {
                        Ok(b) => x_out[i] = Some(b.to_vec()),
                        Err(_) => o.count("reference_could_not_encrypt", 1),
                    }
                }
            } else {
                o.count("rtp_not_representable_by_reference_parser", 1);
            }
            if let Some(k) = ownk.as_ref() {
                let mine = own::protect_rtp(k, prof != Prof::Null, prof.rtp_tag(), &it.plain, it.hdr_len, it.ssrc, seq, roc);
                if let Some(x) = x_out[i].as_ref() {
                    o.count("own_vs_reference_rtp_compared", 1);
                    if *x != mine {
                        o.harness_problem("harness-own RFC3711 SRTP output differs from the reference");
                    }
                }
                if prof == Prof::Null {
                    // independent receiver for the NULL profile
                    o.count("null.rtp_independent_receiver_checks", 1);
                    let got = a_out[i].as_ref().and_then(|w| own::unprotect_rtp(k, false, 10, w, it.hdr_len, it.ssrc, seq, roc));
                    if got.as_deref() != Some(&it.plain[..]) {
                        o.viol(
                            format!("rtp.independent_accepts_rustrtc profile={pn} result={}", if got.is_none() { "auth-fail" } else { "mismatch" }),
                            "an RFC 3711 NULL-cipher/HMAC-SHA1-80 receiver does not recover the packet rustrtc protected",
                            json!({"item": item_json(it), "protected": a_out[i].as_ref().map(|w| hex_cap(w, 160))}),
                        );
                    }
                    x_out[i] = Some(mine);
                }
            }
        } else {
            match tx_rtcp(&mut a, &it.plain) {
                Ok(v) => a_out[i] = Some(v),
                Err(e) => {
                    o.viol(
                        format!("rtcp.protect profile={pn} result=Err({e})"),
                        "protect_rtcp refused a valid RTCP compound packet",
                        json!({"item": item_json(it)}),
                    );
                    continue;
                }
            }
            if let Some(r) = ref_enc.as_mut() {
                match ref_call(|| r.encrypt_rtcp(&it.plain)) {
                    Ok(b) => x_out[i] = Some(b.to_vec()),
                    Err(_) => o.count("reference_could_not_encrypt", 1),
                }
            }
            if let Some(k) = ownk.as_ref() {
                let mine = own::protect_rtcp(k, prof != Prof::Null, prof.rfc_rtcp_tag(), &it.plain, it.ssrc, it.index as u32);
                if let Some(x) = x_out[i].as_ref() {
                    o.count("own_vs_reference_rtcp_compared", 1);
                    if *x != mine {
                        o.harness_problem("harness-own RFC3711 SRTCP output differs from the reference");
                    }
                }
                if prof == Prof::Null {
                    o.count("null.rtcp_independent_receiver_checks", 1);
                    let got = a_out[i].as_ref().and_then(|w| own::unprotect_rtcp(k, true, 10, w));
                    let ok = matches!(&got, Some((pl, ix, _)) if *pl == it.plain && *ix as u64 == it.index);
                    if !ok {
                        let why = match &got {
                            None => "auth-fail".to_string(),
                            Some((pl, ix, e)) => format!(
                                "{}{},E={}",
                                if *pl != it.plain { "payload-not-clear" } else { "payload-ok" },
                                if *ix as u64 != it.index { ",index-differs" } else { "" },
                                *e as u8
                            ),
                        };
                        o.viol(
                            format!("rtcp.independent_accepts_rustrtc profile={pn} result={why}"),
                            "an RFC 3711 NULL-cipher receiver (identity transform, HMAC-SHA1-80) does not recover the RTCP packet rustrtc protected",
                            json!({"item": item_json(it), "protected": a_out[i].as_ref().map(|w| hex_cap(w, 160))}),
                        );
                    }
                    x_out[i] = Some(mine);
                }
            }
        }
    }

    // one defect, one key: when rustrtc's protected packet has a different length than the
    // independent sender's for the same plaintext, that is reported once (with both overheads)
    // and the per-delivery cross checks, which can only fail as a consequence, are skipped
    let mut len_defect = vec![false; n];
    for (i, it) in stream.items.iter().enumerate() {
        if let (Some(w), Some(x)) = (a_out[i].as_ref(), x_out[i].as_ref()) {
            if w.len() != x.len() {
                len_defect[i] = true;
                let proto = if it.rtcp { "rtcp" } else { "rtp" };
                o.viol(
                    format!("{proto}.protected_length profile={pn} rustrtc_overhead={} independent_overhead={}",
                        w.len() as i64 - it.plain.len() as i64, x.len() as i64 - it.plain.len() as i64),
                    "rustrtc's protected packet has a different length (authentication tag size) than the independent implementation's; neither side accepts the other's packet",
                    json!({"item": item_json(it), "rustrtc": hex_cap(w, 160), "independent": hex_cap(x, 160),
                           "rustrtc_len": w.len(), "independent_len": x.len()}),
                );
            }
        }
    }

    // ---- delivery phase
    let mut cross = 0u64;
    // webrtc-srtp tracks the index of the *last accepted* packet, not the highest one (its
    // update adds the signed difference), so its window is +/-2^15 around the previous packet.
    // The differential check towards the reference is made only while the delivery is inside
    // that window too (both implementations are then bound to agree); other deliveries are not
    // shown to the reference at all.
    let mut ref_last: BTreeMap<u32, u64> = BTreeMap::new();
    for (pos, (i, dup)) in stream.delivery.iter().enumerate() {
        let it = &stream.items[*i];
        let proto = if it.rtcp { "rtcp" } else { "rtp" };
        for (_, secs) in stream.ages.iter().filter(|(p, _)| *p == pos) {
            // time passes at the receivers (the independent implementation keeps no clock)
            let d = std::time::Duration::from_secs(*secs);
            if !(b.verif_age_contexts(d) && b2.verif_age_contexts(d)) {
                o.harness_problem("verif_age_contexts: monotonic clock too young to go back that far");
                return o;
            }
            o.count("receiver_contexts_aged", 1);
            o.seen("receiver_table_size_when_aged", format!("{}", b.verif_rx_snapshot().len().min(99)));
        }
        // (1) rustrtc -> rustrtc
        if let Some(w) = a_out[*i].as_ref() {
            let (tag, good) = if it.rtcp {
                let r = rx_rtcp(&mut b, w);
                let good = matches!(&r, Rx::Ok(v) if *v == it.plain);
                (if r.is_ok() && !good { "mismatch".to_string() } else { r.tag() }, good)
            } else {
                let r = rx_rtp(&mut b, w);
                let good = matches!(&r, Rx::Ok(p) if Some(p) == it.pkt.as_ref());
                (if r.is_ok() && !good { "mismatch".to_string() } else { r.tag() }, good)
            };
            o.count(&format!("{proto}.self_roundtrip"), 1);
            // a second delivery of the same packet may be refused (replay protection would be
            // legitimate; the statement is silent) but if accepted it must decode identically
            if !good && !(*dup && tag.starts_with("Err")) {
                o.viol(
                    format!("{proto}.self_roundtrip profile={pn} result={tag}"),
                    "unprotect(protect(p)) did not return p for a delivery inside the tolerated window",
                    json!({"item": item_json(it), "delivery_pos": pos, "duplicate": dup, "protected": hex_cap(w, 160)}),
                );
            }
            // (2) rustrtc -> reference
            let in_ref_window = it.rtcp || match ref_last.get(&it.ssrc) {
                None => true,
                Some(l) => (it.index as i64 - *l as i64).abs() <= 32767,
            };
            if it.ref_fit && !len_defect[*i] && !in_ref_window && ref_dec.is_some() {
                o.count("rtp.reference_check_skipped_outside_reference_window", 1);
            }
            if len_defect[*i] {
                o.count("cross_checks_skipped_due_to_length_defect", 1);
            }
            if it.ref_fit && !len_defect[*i] && in_ref_window {
                if !it.rtcp && ref_dec.is_some() {
                    ref_last.insert(it.ssrc, it.index);
                }
                if let Some(r) = ref_dec.as_mut() {
                    let res = if it.rtcp { ref_call(|| r.decrypt_rtcp(w)) } else { ref_call(|| r.decrypt_rtp(w)) };
                    o.count(&format!("{proto}.reference_accepts_rustrtc"), 1);
                    cross += 1;
                    let pad = it.pkt.as_ref().map(|p| p.padding_len).unwrap_or(0);
                    let tag = match &res {
                        Ok(bts) if same_rtp_modulo_padding(bts, &it.plain, pad) => None,
                        Ok(_) => Some("mismatch".to_string()),
                        Err(e) => Some(format!("Err({e})")),
                    };
                    if let Some(tag) = tag {
                        if tag.contains("REFERENCE-PANIC") {
                            o.harness_problem("reference panicked while decrypting");
                        } else {
                            o.viol(
                                format!("{proto}.reference_accepts_rustrtc profile={pn} result={tag}"),
                                "webrtc-srtp with the same keys does not accept / decode the packet rustrtc protected",
                                json!({"item": item_json(it), "delivery_pos": pos, "protected": hex_cap(w, 160),
                                       "protected_len": w.len(), "reference_would_send": x_out[*i].as_ref().map(|x| hex_cap(x, 160)),
                                       "reference_len": x_out[*i].as_ref().map(|x| x.len())}),
                            );
                        }
                    }
                }
            }
        }
        // (3) independent sender -> rustrtc
        if let Some(x) = x_out[*i].as_ref().filter(|_| !len_defect[*i]) {
            let (tag, good) = if it.rtcp {
                let r = rx_rtcp(&mut b2, x);
                let good = matches!(&r, Rx::Ok(v) if *v == it.plain);
                (if r.is_ok() && !good { "mismatch".to_string() } else { r.tag() }, good)
            } else {
                let r = rx_rtp(&mut b2, x);
                let good = matches!(&r, Rx::Ok(p) if Some(p) == it.pkt.as_ref());
                (if r.is_ok() && !good { "mismatch".to_string() } else { r.tag() }, good)
            };
            let who = if prof == Prof::Null { "independent" } else { "reference" };
            o.count(&format!("{proto}.rustrtc_accepts_{who}"), 1);
            cross += 1;
            if !good && !(*dup && tag.starts_with("Err")) {
                o.viol(
                    format!("{proto}.rustrtc_accepts_{who} profile={pn} result={tag}"),
                    "rustrtc does not accept / decode the packet the independent implementation protected with the same keys",
                    json!({"item": item_json(it), "delivery_pos": pos, "duplicate": dup, "protected_by_other": hex_cap(x, 160),
                           "other_len": x.len(), "rustrtc_len": a_out[*i].as_ref().map(|w| w.len())}),
                );
            }
            if a_out[*i].as_ref() == Some(x) {
                o.count("protected_bytes_identical_to_independent", 1);
            } else {
                o.count("protected_bytes_differ_from_independent", 1);
            }
        }
        o.seen("ext_kinds", it.ext_kind);
    }
    let st = &stream.stats;
    o.count("packets_delivered", st.delivered);
    o.count("deliveries_reordered", st.reordered);
    o.count("packets_lost", st.lost);
    o.count("duplicate_deliveries", st.dups);
    o.count("deliveries_within_8_of_2^15", st.near_edge);
    o.count("schedule_entries_dropped_as_out_of_tolerance", st.filtered);
    o.seen("max_roc", format!("{}", st.max_roc.min(9)));
    o.seen("n_ssrc", format!("{}", stream.ssrcs.len()));
    if stream.ssrcs.len() > 32 {
        o.count("scenarios_above_32_context_watermark", 1);
    }
    o.nontrivial = cross > 0 && (st.max_roc >= 1 || st.reordered > 0);
    o.sample = Some(json!({"scenario": sc, "delivered": st.delivered, "reordered": st.reordered, "lost": st.lost,
        "max_roc": st.max_roc, "first_item": stream.items.first().map(item_json)}));
    o
}

// ------------------------------------------------------------------------------------ C04 long SRTCP run

/// One SSRC, tens of thousands of SRTCP packets, so that the 31-bit SRTCP index crosses 2^16
/// (the index occupies more than the low 16 bits of the AES-CM IV / GCM nonce). Every packet is
/// protected by both senders (their indices advance in lock step); a sample – every 997th packet
/// and everything within 12 of index 65536 – goes through the three C04 checks.
fn run_rtcp_long(sc: &Value) -> Obs {
    let mut o = Obs::default();
    let Some(prof) = sc["profile"].as_str().and_then(Prof::from_name) else {
        o.harness_problem("bad profile");
        return o;
    };
    let mut rng = Rng(sc["rng"].as_u64().unwrap_or(1));
    let n = sc["n"].as_u64().unwrap_or(70_000);
    let keys = gen_keys(&mut rng, prof);
    let pn = prof.name();
    let (mut a, mut b, mut b2) = match (session(prof, &keys.k1, &keys.k2), session(prof, &keys.k2, &keys.k1), session(prof, &keys.k2, &keys.k1)) {
        (Ok(a), Ok(b), Ok(c)) => (a, b, c),
        _ => {
            o.harness_problem("session");
            return o;
        }
    };
    let mut ref_enc = ref_ctx(prof, &keys.k1);
    let mut ref_dec = ref_ctx(prof, &keys.k1);
    let ownk = if prof != Prof::Gcm { Some(own::derive(&keys.k1.0, &keys.k1.1)) } else { None };
    let ssrc = rng.u32();
    let minimal = {
        let mut v = vec![0x80u8, 201, 0, 1];
        v.extend_from_slice(&ssrc.to_be_bytes());
        v
    };
    let mut checked = 0u64;
    for idx in 1..=n {
        let sampled = idx % 997 == 0 || (idx as i64 - 65536).abs() <= 12 || idx == n;
        let plain = if sampled { gen_rtcp(&mut rng, ssrc, false) } else { minimal.clone() };
        let w = match tx_rtcp(&mut a, &plain) {
            Ok(w) => w,
            Err(e) => {
                o.viol(format!("rtcp.protect profile={pn} result=Err({e})"), "protect_rtcp refused a valid RTCP packet", json!({"index": idx}));
                return o;
            }
        };
        let x: Option<Vec<u8>> = if let Some(r) = ref_enc.as_mut() {
            ref_call(|| r.encrypt_rtcp(&plain)).ok().map(|b| b.to_vec())
        } else {
            ownk.as_ref().map(|k| own::protect_rtcp(k, false, 10, &plain, ssrc, idx as u32))
        };
        if !sampled {
            continue;
        }
        checked += 1;
        let wit = |extra: Value| json!({"ssrc": ssrc, "srtcp_index": idx, "plain": hex_cap(&plain, 64), "rustrtc": hex_cap(&w, 96), "more": extra});
        if let Some(x) = x.as_ref() {
            if x.len() != w.len() {
                o.viol(
                    format!("rtcp.protected_length profile={pn} rustrtc_overhead={} independent_overhead={}", w.len() as i64 - plain.len() as i64, x.len() as i64 - plain.len() as i64),
                    "rustrtc's protected packet has a different length (authentication tag size) than the independent implementation's; neither side accepts the other's packet",
                    wit(json!({"independent": hex_cap(x, 96)})),
                );
                continue;
            }
        }
        let r = rx_rtcp(&mut b, &w);
        if !matches!(&r, Rx::Ok(v) if *v == plain) {
            let tag = if r.is_ok() { "mismatch".to_string() } else { r.tag() };
            o.viol(format!("rtcp.self_roundtrip profile={pn} result={tag}"), "unprotect(protect(p)) != p", wit(json!({})));
        }
        o.count("rtcp.self_roundtrip", 1);
        if let Some(r) = ref_dec.as_mut() {
            let res = ref_call(|| r.decrypt_rtcp(&w));
            o.count("rtcp.reference_accepts_rustrtc", 1);
            match res {
                Ok(bts) if bts[..] == plain[..] => {}
                Ok(_) => o.viol(format!("rtcp.reference_accepts_rustrtc profile={pn} result=mismatch"), "webrtc-srtp decodes rustrtc's SRTCP packet to something else", wit(json!({"index_above_2^16": idx > 65535}))),
                Err(e) => o.viol(format!("rtcp.reference_accepts_rustrtc profile={pn} result=Err({e})"), "webrtc-srtp rejects rustrtc's SRTCP packet", wit(json!({"index_above_2^16": idx > 65535}))),
            }
        } else if let Some(k) = ownk.as_ref() {
            o.count("null.rtcp_independent_receiver_checks", 1);
            let got = own::unprotect_rtcp(k, true, 10, &w);
            if !matches!(&got, Some((pl, ix, _)) if *pl == plain && *ix as u64 == idx) {
                let why = match &got {
                    None => "auth-fail".to_string(),
                    Some((pl, ix, e)) => format!("{}{},E={}", if *pl != plain { "payload-not-clear" } else { "payload-ok" }, if *ix as u64 != idx { ",index-differs" } else { "" }, *e as u8),
                };
                o.viol(format!("rtcp.independent_accepts_rustrtc profile={pn} result={why}"),
                    "an RFC 3711 NULL-cipher receiver (identity transform, HMAC-SHA1-80) does not recover the RTCP packet rustrtc protected", wit(json!({})));
            }
        }
        if let Some(x) = x.as_ref() {
            let r = rx_rtcp(&mut b2, x);
            let who = if prof == Prof::Null { "independent" } else { "reference" };
            o.count(&format!("rtcp.rustrtc_accepts_{who}"), 1);
            if !matches!(&r, Rx::Ok(v) if *v == plain) {
                let tag = if r.is_ok() { "mismatch".to_string() } else { r.tag() };
                o.viol(format!("rtcp.rustrtc_accepts_{who} profile={pn} result={tag}"),
                    "rustrtc does not accept / decode the SRTCP packet the independent implementation protected", wit(json!({"independent": hex_cap(x, 96), "index_above_2^16": idx > 65535})));
            }
        }
    }
    o.count("rtcp_long.packets_protected", n);
    o.count("rtcp_long.packets_checked", checked);
    o.seen("srtcp_index_ranges", if n > 65536 { ">2^16" } else { "<=2^16" });
    o.nontrivial = checked > 0 && n > 65536;
    o.sample = Some(json!({"scenario": sc, "checked": checked}));
    o
}

// ------------------------------------------------------------------------------------ C04 ROC

/// Exhaustive / banded comparison of rustrtc's real rollover estimation (H4 `verif_roc_step`,
/// which runs `estimate_roc` + `update` on a scratch context) against RFC 3711 App. A / §3.3.1.
fn run_roc(sc: &Value) -> Obs {
    let mut o = Obs::default();
    let roc = sc["roc"].as_u64().unwrap_or(0) as u32;
    let lo = sc["last_lo"].as_u64().unwrap_or(0) as u32;
    let hi = sc["last_hi"].as_u64().unwrap_or(0) as u32;
    let full = sc["mode"].as_str() == Some("full");
    let mut ctx = match SrtpContext::new(
        7,
        SrtpProfile::Aes128Sha1_80,
        SrtpKeyingMaterial::new(vec![0; 16], vec![0; 14]),
        SrtpDirection::Receiver,
    ) {
        Ok(c) => c,
        Err(_) => {
            o.harness_problem("SrtpContext::new failed");
            return o;
        }
    };
    let cls = |v: u32| -> &'static str {
        if v == roc {
            "same"
        } else if v == roc.wrapping_add(1) {
            "+1"
        } else if v == roc.wrapping_sub(1) {
            "-1"
        } else {
            "other"
        }
    };
    let roc_class = match roc {
        0 => "0".to_string(),
        u32::MAX => "2^32-1".to_string(),
        r => format!("{r}"),
    };
    let (mut pairs, mut plus, mut minus, mut oos, mut oos_diff, mut upd) = (0u64, 0u64, 0u64, 0u64, 0u64, 0u64);
    let near = |x: u32, c: u32| (x as i64 - c as i64).abs() <= 64;
    for last in lo..hi {
        let last16 = last as u16;
        let band_last = near(last, 0) || near(last, 32768) || near(last, 65535) || near(last, 32767);
        let mut check = |seq: u16, o: &mut Obs| {
            pairs += 1;
            let (g, r2, l2) = ctx.verif_roc_step(Some(last16), roc, seq);
            let m = rfc_guess(last16, roc, seq);
            if m == roc.wrapping_add(1) {
                plus += 1;
            } else if m != roc {
                minus += 1;
            }
            if g != m {
                o.viol(
                    format!("roc.estimate rfc={} rustrtc={} roc={}", cls(m), cls(g), roc_class),
                    "rollover estimate differs from RFC 3711 Appendix A",
                    json!({"s_l": last16, "roc": roc, "seq": seq, "rfc_v": m, "rustrtc_v": g}),
                );
                return;
            }
            // update rule: outside the key lifetime (index would leave 0..2^48) the RFC demands
            // re-keying (§9.2) – not compared, only counted
            if (roc == 0 && m == u32::MAX) || (roc == u32::MAX && m == 0) {
                oos += 1;
                let (mr, ml) = rfc_update(last16, roc, seq, m);
                if (r2, l2) != (mr, Some(ml)) {
                    oos_diff += 1;
                }
                return;
            }
            upd += 1;
            let (mr, ml) = rfc_update(last16, roc, seq, m);
            if (r2, l2) != (mr, Some(ml)) {
                o.viol(
                    format!("roc.update v={} roc={}", cls(m), roc_class),
                    "state after an authenticated packet differs from RFC 3711 §3.3.1 (s_l / ROC update)",
                    json!({"s_l": last16, "roc": roc, "seq": seq, "v": m, "rfc_after": [mr, ml], "rustrtc_after": [r2, l2]}),
                );
            }
        };
        if full || band_last {
            for seq in 0..=65535u16 {
                check(seq, &mut o);
            }
        } else {
            for d in -64i32..=64 {
                check(last16.wrapping_add(d as u16), &mut o);
                check(last16.wrapping_add((32768 + d) as u16), &mut o);
            }
            for s in (0..=64u32).chain(32768 - 64..=32768 + 64).chain(65535 - 64..=65535) {
                check(s as u16, &mut o);
            }
        }
    }
    // first packet of a context: v = ROC, s_l := SEQ
    if lo == 0 {
        for seq in 0..=65535u16 {
            let (g, r2, l2) = ctx.verif_roc_step(None, roc, seq);
            pairs += 1;
            if g != roc || r2 != roc || l2 != Some(seq) {
                o.viol(
                    format!("roc.first_packet roc={roc_class}"),
                    "first packet of a context must be taken at the initial ROC and initialise s_l",
                    json!({"roc": roc, "seq": seq, "guess": g, "after": [r2, l2]}),
                );
                break;
            }
        }
    }
    o.count("roc.pairs_checked", pairs);
    o.count("roc.model_says_plus1", plus);
    o.count("roc.model_says_minus1", minus);
    o.count("roc.update_compared", upd);
    o.count("roc.update_outside_key_lifetime_not_compared", oos);
    o.count("roc.update_outside_key_lifetime_differs_from_rfc", oos_diff);
    o.nontrivial = plus + minus > 0;
    if lo == 0 {
        o.sample = Some(json!({"scenario": sc, "pairs": pairs, "rfc_plus1": plus, "rfc_minus1": minus}));
    }
    o
}

// ------------------------------------------------------------------------------------ C05 rig

type Snap = BTreeMap<u32, (u32, Option<u16>, u32)>;

struct Rig {
    prof: Prof,
    keys: Keys,
    a: SrtpSession,
    ssrcs: Vec<u32>,
    next_idx: BTreeMap<u32, u64>,
    genuine_rtp: HashSet<Vec<u8>>,
    genuine_rtcp: HashSet<Vec<u8>>,
    small: bool,
}

#[derive(Clone)]
struct Gen {
    ssrc: u32,
    rtcp: bool,
    index: u64,
    pkt: Option<RtpPacket>,
    plain: Vec<u8>,
    prot: Vec<u8>,
    hdr_len: usize,
}

impl Rig {
    fn new(rng: &mut Rng, prof: Prof, n_ssrc: usize, small: bool) -> Result<Rig, String> {
        let keys = gen_keys(rng, prof);
        let a = session(prof, &keys.k1, &keys.k2)?;
        let ssrcs = gen_ssrcs(rng, n_ssrc);
        let mut next_idx = BTreeMap::new();
        for s in &ssrcs {
            let start = if rng.chance(2, 3) { rng.range(65440, 65535) } else { rng.below(65536) };
            next_idx.insert(*s, start);
        }
        Ok(Rig { prof, keys, a, ssrcs, next_idx, genuine_rtp: HashSet::new(), genuine_rtcp: HashSet::new(), small })
    }
    fn receiver(&self) -> Result<SrtpSession, String> {
        session(self.prof, &self.keys.k2, &self.keys.k1)
    }
    fn rtp(&mut self, rng: &mut Rng, ssrc: u32, step: u64) -> Result<Gen, String> {
        let idx = *self.next_idx.get(&ssrc).unwrap_or(&0);
        self.next_idx.insert(ssrc, idx + step.max(1));
        let (p, _, _) = gen_rtp(rng, ssrc, idx as u16, self.small, true);
        let prot = tx_rtp(&mut self.a, &p)?;
        self.genuine_rtp.insert(prot.clone());
        Ok(Gen { ssrc, rtcp: false, index: idx, plain: raw_rtp(&p), hdr_len: rtp_hdr_len(&p), pkt: Some(p), prot })
    }
    fn rtcp(&mut self, rng: &mut Rng, ssrc: u32) -> Result<Gen, String> {
        let plain = gen_rtcp(rng, ssrc, self.small);
        let prot = tx_rtcp(&mut self.a, &plain)?;
        self.genuine_rtcp.insert(prot.clone());
        Ok(Gen { ssrc, rtcp: true, index: 0, pkt: None, plain, prot, hdr_len: 8 })
    }
    /// genuine traffic (in order, no loss) that takes every SSRC across a 2^16 wrap when it
    /// started near one, plus a few RTCP packets; returned in delivery order
    fn history(&mut self, rng: &mut Rng, per_ssrc: usize) -> Result<Vec<Gen>, String> {
        let mut v = vec![];
        let ssrcs = self.ssrcs.clone();
        for round in 0..per_ssrc {
            for s in &ssrcs {
                let step = if rng.chance(1, 10) { rng.range(2, 40) } else { 1 };
                v.push(self.rtp(rng, *s, step)?);
                if round % 16 == 3 {
                    v.push(self.rtcp(rng, *s)?);
                }
            }
        }
        Ok(v)
    }
}

fn deliver_genuine(r: &mut SrtpSession, g: &Gen) -> (bool, String) {
    if g.rtcp {
        let x = rx_rtcp(r, &g.prot);
        let good = matches!(&x, Rx::Ok(v) if *v == g.plain);
        (good, if x.is_ok() && !good { "mismatch".into() } else { x.tag() })
    } else {
        let x = rx_rtp(r, &g.prot);
        let good = matches!(&x, Rx::Ok(p) if Some(p) == g.pkt.as_ref());
        (good, if x.is_ok() && !good { "mismatch".into() } else { x.tag() })
    }
}

fn snap_json(s: &Snap) -> Value {
    let m: serde_json::Map<String, Value> = s
        .iter()
        .take(48)
        .map(|(k, v)| (format!("{k}"), json!({"roc": v.0, "last_seq": v.1, "srtcp_index": v.2})))
        .collect();
    Value::Object(m)
}

/// What changed between two H4 snapshots, as (key, detail) pairs. The property names the state:
/// rollover counter, last sequence, SRTCP index and the per-SSRC context table.
fn classify_diff(before: &Snap, after: &Snap, api: &str, pn: &str) -> Vec<(String, Value)> {
    let mut out = vec![];
    for (s, v) in after {
        match before.get(s) {
            None => {
                out.push((
                    format!("state.rx_context_created_by_rejected_packet api={api}"),
                    json!({"ssrc": s, "new_context": {"roc": v.0, "last_seq": v.1, "srtcp_index": v.2}}),
                ));
                // a context that is created AND already moved: the second defect on top
                if (v.0, v.1) != (0, None) {
                    out.push((
                        format!("state.roc_or_last_seq_moved_by_rejected_packet api={api} profile={pn}"),
                        json!({"ssrc": s, "before": "no context", "after": {"roc": v.0, "last_seq": v.1}}),
                    ));
                }
                if v.2 != 0 {
                    out.push((
                        format!("state.srtcp_index_moved_by_rejected_packet api={api} profile={pn}"),
                        json!({"ssrc": s, "srtcp_index_before": "no context", "srtcp_index_after": v.2}),
                    ));
                }
            }
            Some(b) if b != v => {
                if (b.0, b.1) != (v.0, v.1) {
                    out.push((
                        format!("state.roc_or_last_seq_moved_by_rejected_packet api={api} profile={pn}"),
                        json!({"ssrc": s, "before": {"roc": b.0, "last_seq": b.1}, "after": {"roc": v.0, "last_seq": v.1}}),
                    ));
                }
                if b.2 != v.2 {
                    out.push((
                        format!("state.srtcp_index_moved_by_rejected_packet api={api} profile={pn}"),
                        json!({"ssrc": s, "srtcp_index_before": b.2, "srtcp_index_after": v.2}),
                    ));
                }
            }
            _ => {}
        }
    }
    for s in before.keys() {
        if !after.contains_key(s) {
            out.push((format!("state.rx_context_evicted_by_rejected_packet api={api}"), json!({"ssrc": s})));
        }
    }
    out
}

/// Feed one forged packet to `r`; demands: rejected (Err, no packet, no panic) and the H4 snapshot
/// is the same as before. `cur` is the caller-maintained current snapshot.
fn deliver_forged(o: &mut Obs, r: &mut SrtpSession, cur: &mut Snap, rtcp_api: bool, prof: Prof, forged: &[u8], kind: &str, detail: Value) {
    let api = if rtcp_api { "unprotect_rtcp" } else { "unprotect_rtp" };
    let pn = prof.name();
    let tag = if rtcp_api { rx_rtcp(r, forged).tag() } else { rx_rtp(r, forged).tag() };
    o.count("forged_delivered", 1);
    o.count(&format!("forged.{}", kind.split('.').next().unwrap_or(kind)), 1);
    o.seen("rejection_results", format!("{api}:{tag}"));
    if tag == "Ok" {
        o.viol(
            format!("forgery_accepted api={api} profile={pn} kind={kind}"),
            "a packet that differs from every packet produced by the key holder was accepted",
            json!({"forged": hex_cap(forged, 200), "detail": detail}),
        );
    } else if tag.starts_with("panic") {
        o.viol(
            format!("forgery_panics api={api} {tag}"),
            "a forged packet made the receiver panic instead of returning an error",
            json!({"forged": hex_cap(forged, 200), "detail": detail, "kind": kind}),
        );
    } else {
        o.count("forged_rejected", 1);
    }
    let after = r.verif_rx_snapshot();
    if after != *cur {
        for (key, d) in classify_diff(cur, &after, api, pn) {
            o.viol(
                key,
                "a rejected packet changed the receiver's per-SSRC cryptographic state",
                json!({"forged": hex_cap(forged, 200), "kind": kind, "result": tag, "change": d, "detail": detail,
                       "snapshot_before": snap_json(cur)}),
            );
        }
        *cur = after;
    } else {
        o.count("snapshot_unchanged_after_rejection", 1);
    }
}

fn rtp_region(g: &Gen, byte: usize) -> &'static str {
    let tag = g.prot.len() - (g.prot.len() - g.plain.len());
    if byte < 2 {
        "hdr.flags"
    } else if byte < 4 {
        "hdr.seq"
    } else if byte < 8 {
        "hdr.ts"
    } else if byte < 12 {
        "hdr.ssrc"
    } else if byte < g.hdr_len {
        "hdr.csrc_ext"
    } else if byte < tag {
        "payload"
    } else {
        "tag"
    }
}

fn rtcp_region(g: &Gen, prof: Prof, byte: usize) -> &'static str {
    let n = g.prot.len();
    let extra = n - g.plain.len(); // 4 + tag
    let tag_len = extra - 4;
    if byte < 4 {
        "hdr"
    } else if byte < 8 {
        "hdr.ssrc"
    } else if prof == Prof::Gcm {
        if byte >= n - 4 { "index" } else if byte >= n - 4 - tag_len { "tag" } else { "payload" }
    } else if byte >= n - tag_len {
        "tag"
    } else if byte >= n - tag_len - 4 {
        "index"
    } else {
        "payload"
    }
}

struct C05Setup {
    rig: Rig,
    r: SrtpSession,
    cur: Snap,
}

/// rig + one receiver that has accepted a genuine history (ROC >= 1 on most SSRCs, SRTCP index > 0)
fn c05_setup(o: &mut Obs, rng: &mut Rng, prof: Prof, n_ssrc: usize, hist: usize, small: bool) -> Option<C05Setup> {
    let mut rig = match Rig::new(rng, prof, n_ssrc, small) {
        Ok(r) => r,
        Err(e) => {
            o.harness_problem(format!("rig: {e}"));
            return None;
        }
    };
    let mut r = match rig.receiver() {
        Ok(r) => r,
        Err(e) => {
            o.harness_problem(format!("receiver: {e}"));
            return None;
        }
    };
    let h = match rig.history(rng, hist) {
        Ok(h) => h,
        Err(e) => {
            o.harness_problem(format!("history protect failed: {e}"));
            return None;
        }
    };
    for g in &h {
        let (good, tag) = deliver_genuine(&mut r, g);
        if !good {
            // C04's domain; here it only means the scenario cannot say anything
            o.harness_problem(format!("genuine history packet not accepted ({tag})"));
            return None;
        }
    }
    let cur = r.verif_rx_snapshot();
    if cur.values().any(|v| v.0 >= 1) {
        o.count("receivers_with_roc>=1", 1);
    }
    Some(C05Setup { rig, r, cur })
}

fn finish_with_genuine(o: &mut Obs, s: &mut C05Setup, pending: &[Gen], what: &str) {
    for g in pending {
        let api = if g.rtcp { "unprotect_rtcp" } else { "unprotect_rtp" };
        let (good, tag) = deliver_genuine(&mut s.r, g);
        o.count("genuine_after_forgeries", 1);
        if !good {
            o.viol(
                format!("genuine_rejected_after_forgeries api={api} profile={} after={what} result={tag}", s.rig.prof.name()),
                "a genuine in-order packet is no longer accepted after forged packets were rejected",
                json!({"ssrc": g.ssrc, "index": g.index, "protected": hex_cap(&g.prot, 160), "snapshot": snap_json(&s.r.verif_rx_snapshot())}),
            );
        }
    }
}

// ------------------------------------------------------------------------------------ C05 bit flips / truncation

fn run_bitflip(sc: &Value) -> Obs {
    let mut o = Obs::default();
    let Some(prof) = sc["profile"].as_str().and_then(Prof::from_name) else {
        o.harness_problem("bad profile");
        return o;
    };
    let mut rng = Rng(sc["rng"].as_u64().unwrap_or(1));
    let rtcp = sc["proto"].as_str() == Some("rtcp");
    let small = sc["small"].as_bool().unwrap_or(true);
    let trunc = sc["kind"].as_str() == Some("truncate");
    let n_ssrc = rng.range(1, 3) as usize;
    let hist = rng.range(20, 110) as usize;
    let Some(mut s) = c05_setup(&mut o, &mut rng, prof, n_ssrc, hist, small) else { return o };
    let ssrc = *rng.pick(&s.rig.ssrcs.clone());
    let g = match if rtcp { s.rig.rtcp(&mut rng, ssrc) } else { s.rig.rtp(&mut rng, ssrc, 1) } {
        Ok(g) => g,
        Err(e) => {
            o.harness_problem(format!("protect failed: {e}"));
            return o;
        }
    };
    let genuine = if rtcp { s.rig.genuine_rtcp.clone() } else { s.rig.genuine_rtp.clone() };
    if trunc {
        for len in 0..g.prot.len() {
            let f = &g.prot[..len];
            deliver_forged(&mut o, &mut s.r, &mut s.cur, rtcp, prof, f, "truncate", json!({"len": len, "of": g.prot.len()}));
        }
        for extra in 1..=20usize {
            let mut f = g.prot.clone();
            if rng.bool() {
                f.extend(rng.bytes(extra));
            } else {
                f.extend(std::iter::repeat(0u8).take(extra));
            }
            deliver_forged(&mut o, &mut s.r, &mut s.cur, rtcp, prof, &f, "extend", json!({"extra": extra}));
        }
    } else {
        let mut f = g.prot.clone();
        for bit in 0..g.prot.len() * 8 {
            f[bit / 8] ^= 0x80 >> (bit % 8);
            if !genuine.contains(&f) {
                let region = if rtcp { rtcp_region(&g, prof, bit / 8) } else { rtp_region(&g, bit / 8) };
                o.seen("flipped_regions", format!("{}:{region}", if rtcp { "rtcp" } else { "rtp" }));
                deliver_forged(&mut o, &mut s.r, &mut s.cur, rtcp, prof, &f, &format!("bitflip.{region}"), json!({"bit": bit, "region": region}));
            }
            f[bit / 8] ^= 0x80 >> (bit % 8);
        }
    }
    finish_with_genuine(&mut o, &mut s, &[g.clone()], if trunc { "truncations" } else { "bitflips" });
    o.nontrivial = o.counters.get("forged_rejected").copied().unwrap_or(0) > 0;
    o.sample = Some(json!({"scenario": sc, "protected_len": g.prot.len(), "forged": o.counters.get("forged_delivered"),
        "receiver_state": snap_json(&s.cur)}));
    o
}

// ------------------------------------------------------------------------------------ C05 forgeries

struct Forgery {
    bytes: Vec<u8>,
    rtcp_api: bool,
    kind: String,
    detail: Value,
}

fn fresh_ssrc(rng: &mut Rng, known: &[u32]) -> u32 {
    loop {
        let s = rng.u32();
        if !known.contains(&s) {
            return s;
        }
    }
}

/// One forged datagram derived from the genuine pool (or from nothing). Never equal to a genuine
/// protected packet of the API it is fed to.
fn make_forgery(rng: &mut Rng, rig: &Rig, pool: &[Gen], force_new_ssrc: bool) -> Option<Forgery> {
    let prof = rig.prof;
    let rtp_pool: Vec<&Gen> = pool.iter().filter(|g| !g.rtcp).collect();
    let rtcp_pool: Vec<&Gen> = pool.iter().filter(|g| g.rtcp).collect();
    let family = if force_new_ssrc { *rng.pick(&[0u64, 1, 5, 5, 14, 15]) } else { rng.below(14) };
    let want_rtcp = rng.chance(2, 5);
    let src: Option<&Gen> = if want_rtcp && !rtcp_pool.is_empty() {
        Some(*rng.pick(&rtcp_pool))
    } else if !rtp_pool.is_empty() {
        Some(*rng.pick(&rtp_pool))
    } else {
        rtcp_pool.first().copied()
    };
    let mut detail = json!({});
    let (bytes, rtcp_api, kind): (Vec<u8>, bool, &str) = match family {
        0 => {
            // random bytes with an RTP-looking first octet
            let k = rng.range(12, 200) as usize;
            let mut b = rng.bytes(k);
            b[0] = 0x80 | (rng.u8() & if rng.bool() { 0x00 } else { 0x3f });
            let ssrc = if force_new_ssrc || rng.bool() { fresh_ssrc(rng, &rig.ssrcs) } else { *rng.pick(&rig.ssrcs) };
            b[8..12].copy_from_slice(&ssrc.to_be_bytes());
            detail = json!({"ssrc": ssrc});
            (b, false, "random_bytes.rtp")
        }
        1 => {
            let k = rng.range(14, 200) as usize;
            let mut b = rng.bytes(k);
            b[0] = 0x80 | (rng.u8() & 0x1f);
            b[1] = 200 + (rng.u8() % 8);
            let ssrc = if force_new_ssrc || rng.bool() { fresh_ssrc(rng, &rig.ssrcs) } else { *rng.pick(&rig.ssrcs) };
            b[4..8].copy_from_slice(&ssrc.to_be_bytes());
            if rng.bool() {
                // plausible trailer position: E bit + small index
                let n = b.len();
                let t = if prof == Prof::Gcm { n - 4 } else { n.saturating_sub(4 + 10).max(8) };
                if t + 4 <= n {
                    let w: u32 = 0x8000_0000 | rng.range(1, 100_000) as u32;
                    b[t..t + 4].copy_from_slice(&w.to_be_bytes());
                }
            }
            detail = json!({"ssrc": ssrc});
            (b, true, "random_bytes.rtcp")
        }
        2 => {
            let g = src?;
            let mut b = g.prot.clone();
            let k = rng.range(1, 8);
            for _ in 0..k {
                let i = rng.usize_below(b.len());
                b[i] ^= rng.range(1, 255) as u8;
            }
            (b, g.rtcp, "mutate_bytes")
        }
        3 => {
            // forged sequence number: near, at the 2^15 boundary, far ahead/behind
            let g = *rtp_pool.get(rng.usize_below(rtp_pool.len().max(1)))?;
            let d = *rng.pick(&[1u16, 2, 100, 1000, 32767, 32768, 32769, 33000, 40000, 65535, 65436, 65000, 0x7fff, 0x8001]);
            let mut b = g.prot.clone();
            let seq = u16::from_be_bytes([b[2], b[3]]).wrapping_add(d);
            b[2..4].copy_from_slice(&seq.to_be_bytes());
            detail = json!({"seq_delta": d});
            (b, false, "seq_rewrite")
        }
        4 => {
            let g = src?;
            let other: Vec<u32> = rig.ssrcs.iter().copied().filter(|s| *s != g.ssrc).collect();
            if other.is_empty() {
                return None;
            }
            let s = *rng.pick(&other);
            let mut b = g.prot.clone();
            let off = if g.rtcp { 4 } else { 8 };
            b[off..off + 4].copy_from_slice(&s.to_be_bytes());
            detail = json!({"ssrc_from": g.ssrc, "ssrc_to": s});
            (b, g.rtcp, "ssrc_rewrite.known")
        }
        5 => {
            let g = src?;
            let s = fresh_ssrc(rng, &rig.ssrcs);
            let mut b = g.prot.clone();
            let off = if g.rtcp { 4 } else { 8 };
            b[off..off + 4].copy_from_slice(&s.to_be_bytes());
            detail = json!({"ssrc_from": g.ssrc, "ssrc_to": s});
            (b, g.rtcp, "ssrc_rewrite.new")
        }
        6 => {
            // tag of another genuine packet
            let g = src?;
            let p: &Vec<&Gen> = if g.rtcp { &rtcp_pool } else { &rtp_pool };
            let h = *rng.pick(p);
            let tl = if g.rtcp && prof != Prof::Gcm { g.prot.len() - g.plain.len() - 4 } else if g.rtcp { 16 } else { prof.rtp_tag() };
            let mut b = g.prot.clone();
            let n = b.len();
            if g.rtcp && prof == Prof::Gcm {
                if h.prot.len() < 20 || n < 20 {
                    return None;
                }
                let hs = h.prot.len() - 20;
                b[n - 20..n - 4].copy_from_slice(&h.prot[hs..hs + 16]);
            } else {
                if h.prot.len() < tl || n < tl {
                    return None;
                }
                b[n - tl..].copy_from_slice(&h.prot[h.prot.len() - tl..]);
            }
            (b, g.rtcp, "tag_swap")
        }
        7 => {
            // header of one genuine packet in front of body+tag of another
            let g = src?;
            let p: &Vec<&Gen> = if g.rtcp { &rtcp_pool } else { &rtp_pool };
            let h = *rng.pick(p);
            let mut b = g.prot[..g.hdr_len].to_vec();
            b.extend_from_slice(&h.prot[h.hdr_len.min(h.prot.len())..]);
            (b, g.rtcp, "splice")
        }
        8 | 9 => {
            let g = *rtcp_pool.get(rng.usize_below(rtcp_pool.len().max(1)))?;
            let n = g.prot.len();
            let t = if prof == Prof::Gcm { n - 4 } else { g.plain.len() };
            let w = u32::from_be_bytes([g.prot[t], g.prot[t + 1], g.prot[t + 2], g.prot[t + 3]]);
            let idx = w & 0x7fff_ffff;
            let (nw, k) = match rng.below(6) {
                0 => (w & 0x7fff_ffff, "rtcp_index.e_cleared"),
                1 => ((idx + 1) | (w & 0x8000_0000), "rtcp_index.plus1"),
                2 => ((idx + rng.range(2, 100_000) as u32) | 0x8000_0000, "rtcp_index.ahead"),
                3 => (0xffff_ffff, "rtcp_index.max"),
                4 => (0x8000_0000, "rtcp_index.zero"),
                _ => ((idx + 5) & 0x7fff_ffff, "rtcp_index.ahead_e_cleared"),
            };
            let mut b = g.prot.clone();
            b[t..t + 4].copy_from_slice(&nw.to_be_bytes());
            detail = json!({"trailer_from": w, "trailer_to": nw});
            (b, true, k)
        }
        10 => {
            // genuine packet of the other protocol
            let g = src?;
            (g.prot.clone(), !g.rtcp, if g.rtcp { "cross_proto.rtcp_as_rtp" } else { "cross_proto.rtp_as_rtcp" })
        }
        11 => {
            // same plaintext protected under another key (the peer's own tx key, or a random one)
            let g = src?;
            let k = if rng.bool() { rig.keys.k2.clone() } else { (rng.bytes(16), rng.bytes(prof.salt_len())) };
            let mut evil = session(prof, &k, &k).ok()?;
            let b = if g.rtcp { tx_rtcp(&mut evil, &g.plain).ok()? } else { tx_rtp(&mut evil, g.pkt.as_ref()?).ok()? };
            (b, g.rtcp, "wrong_key")
        }
        12 => {
            let g = src?;
            let mut b = g.prot.clone();
            let n = b.len();
            let tl = if g.rtcp { (n - g.plain.len() - 4).max(1) } else { prof.rtp_tag() };
            let (s, e) = if g.rtcp && prof == Prof::Gcm { (n - 4 - 16, n - 4) } else { (n - tl, n) };
            for x in &mut b[s..e] {
                *x = 0;
            }
            (b, g.rtcp, "zero_tag")
        }
        14 => {
            // a well-formed packet on a never-seen SSRC, protected under another key
            let g = src?;
            let s = fresh_ssrc(rng, &rig.ssrcs);
            let k = if rng.bool() { rig.keys.k2.clone() } else { (rng.bytes(16), rng.bytes(prof.salt_len())) };
            let mut evil = session(prof, &k, &k).ok()?;
            let b = if g.rtcp {
                let mut plain = g.plain.clone();
                plain[4..8].copy_from_slice(&s.to_be_bytes());
                tx_rtcp(&mut evil, &plain).ok()?
            } else {
                let mut p = g.pkt.as_ref()?.clone();
                p.header.ssrc = s;
                tx_rtp(&mut evil, &p).ok()?
            };
            detail = json!({"ssrc": s});
            (b, g.rtcp, "wrong_key.new_ssrc")
        }
        15 => {
            // genuine packet moved to a never-seen SSRC with tag zeroed / tail cut
            let g = src?;
            let s = fresh_ssrc(rng, &rig.ssrcs);
            let mut b = g.prot.clone();
            let off = if g.rtcp { 4 } else { 8 };
            b[off..off + 4].copy_from_slice(&s.to_be_bytes());
            let n = b.len();
            if rng.bool() {
                for x in &mut b[n.saturating_sub(4)..] {
                    *x = 0;
                }
            } else {
                b.truncate(n - (rng.range(1, 4) as usize).min(n - 1));
            }
            detail = json!({"ssrc_from": g.ssrc, "ssrc_to": s});
            (b, g.rtcp, "ssrc_rewrite.new_damaged")
        }
        _ => {
            let g = src?;
            let mut b = g.prot.clone();
            let cut = rng.range(1, 12) as usize;
            if cut >= b.len() {
                return None;
            }
            b.truncate(b.len() - cut);
            detail = json!({"cut": cut});
            (b, g.rtcp, "tail_cut")
        }
    };
    let genuine = if rtcp_api { &rig.genuine_rtcp } else { &rig.genuine_rtp };
    if genuine.contains(&bytes) {
        return None;
    }
    Some(Forgery { bytes, rtcp_api, kind: kind.to_string(), detail })
}

fn run_forge_random(sc: &Value) -> Obs {
    let mut o = Obs::default();
    let Some(prof) = sc["profile"].as_str().and_then(Prof::from_name) else {
        o.harness_problem("bad profile");
        return o;
    };
    let mut rng = Rng(sc["rng"].as_u64().unwrap_or(1));
    let n = sc["n"].as_u64().unwrap_or(500);
    let n_ssrc = rng.range(1, 4) as usize;
    let hist = rng.range(20, 110) as usize;
    let Some(mut s) = c05_setup(&mut o, &mut rng, prof, n_ssrc, hist, true) else { return o };
    // future genuine packets (not delivered yet): raw material for forgeries, delivered afterwards
    let mut pending = vec![];
    let ssrcs = s.rig.ssrcs.clone();
    for round in 0..6 {
        for sx in &ssrcs {
            match s.rig.rtp(&mut rng, *sx, 1) {
                Ok(g) => pending.push(g),
                Err(e) => {
                    o.harness_problem(format!("protect: {e}"));
                    return o;
                }
            }
            if round % 2 == 0 {
                match s.rig.rtcp(&mut rng, *sx) {
                    Ok(g) => pending.push(g),
                    Err(e) => {
                        o.harness_problem(format!("protect: {e}"));
                        return o;
                    }
                }
            }
        }
    }
    let mut made = 0;
    let mut tries = 0;
    while made < n && tries < n * 4 {
        tries += 1;
        let Some(f) = make_forgery(&mut rng, &s.rig, &pending, false) else { continue };
        made += 1;
        o.seen("forgery_kinds", f.kind.clone());
        deliver_forged(&mut o, &mut s.r, &mut s.cur, f.rtcp_api, prof, &f.bytes, &f.kind, f.detail);
    }
    finish_with_genuine(&mut o, &mut s, &pending, "random_forgeries");
    o.nontrivial = o.counters.get("forged_rejected").copied().unwrap_or(0) > 0;
    o.sample = Some(json!({"scenario": sc, "forged": made, "genuine_after": pending.len()}));
    o
}

// ------------------------------------------------------------------------------------ C05 interleave

/// Two receivers with identical keys. R0 sees the genuine stream, R1 the same stream with
/// forgeries interleaved. Demands (= the statement, no more): every genuine packet R0 accepts is
/// accepted by R1 with the same decode; every forged packet is rejected by R1 and leaves R1's
/// H4 snapshot unchanged. (R1 accepting something R0 rejects is only counted.)
fn run_interleave(sc: &Value) -> Obs {
    let mut o = Obs::default();
    let Some(prof) = sc["profile"].as_str().and_then(Prof::from_name) else {
        o.harness_problem("bad profile");
        return o;
    };
    let mut rng = Rng(sc["rng"].as_u64().unwrap_or(1));
    let n_ssrc = sc["n_ssrc"].as_u64().unwrap_or(2) as usize;
    let n_rtp = sc["n_rtp"].as_u64().unwrap_or(80) as usize;
    let n_rtcp = sc["n_rtcp"].as_u64().unwrap_or(8) as usize;
    let mode = sc["mode"].as_str().unwrap_or("mixed").to_string();
    let rate = sc["rate"].as_u64().unwrap_or(20);
    let age = sc["age"].as_bool().unwrap_or(false);
    let pn = prof.name();
    let mut rig = match Rig::new(&mut rng, prof, 1, true) {
        Ok(r) => r,
        Err(e) => {
            o.harness_problem(format!("rig: {e}"));
            return o;
        }
    };
    let stream = gen_stream(&mut rng, n_ssrc, n_rtp, n_rtcp, &mode, true);
    rig.ssrcs = stream.ssrcs.clone();
    let mut gens: Vec<Gen> = Vec::with_capacity(stream.items.len());
    for it in &stream.items {
        let prot = if it.rtcp {
            tx_rtcp(&mut rig.a, &it.plain)
        } else {
            match it.pkt.as_ref() {
                Some(p) => tx_rtp(&mut rig.a, p),
                None => Err("no packet".into()),
            }
        };
        let prot = match prot {
            Ok(p) => p,
            Err(e) => {
                o.harness_problem(format!("protect failed: {e}"));
                return o;
            }
        };
        if it.rtcp {
            rig.genuine_rtcp.insert(prot.clone());
        } else {
            rig.genuine_rtp.insert(prot.clone());
        }
        gens.push(Gen { ssrc: it.ssrc, rtcp: it.rtcp, index: it.index, pkt: it.pkt.clone(), plain: it.plain.clone(), prot, hdr_len: it.hdr_len });
    }
    let (mut r0, mut r1) = match (rig.receiver(), rig.receiver()) {
        (Ok(a), Ok(b)) => (a, b),
        _ => {
            o.harness_problem("receiver");
            return o;
        }
    };
    let mut cur1 = r1.verif_rx_snapshot();
    let age_pos = if age && !stream.delivery.is_empty() {
        Some(rng.range(stream.delivery.len() as u64 / 2, stream.delivery.len() as u64 * 4 / 5) as usize)
    } else {
        None
    };
    let mut state_viol_before = 0usize;
    // SSRCs whose context disappeared from R1's table at some point (R0 evicts only when a GENUINE
    // never-seen SSRC verifies after the ageing while it holds more than 32 contexts; R1 then does
    // the same, and both reject the evicted wrapped streams alike – counted, not judged here)
    let mut evicted_in_r1: HashSet<u32> = HashSet::new();
    let note_evictions = |before: &Snap, after: &Snap, set: &mut HashSet<u32>| {
        for s in before.keys() {
            if !after.contains_key(s) {
                set.insert(*s);
            }
        }
    };
    for (pos, (i, dup)) in stream.delivery.iter().enumerate() {
        let g = &gens[*i];
        if rng.chance(rate, 100) {
            for _ in 0..rng.range(1, 3) {
                if let Some(f) = make_forgery(&mut rng, &rig, &gens, false) {
                    o.seen("forgery_kinds", f.kind.clone());
                    let before = cur1.clone();
                    deliver_forged(&mut o, &mut r1, &mut cur1, f.rtcp_api, prof, &f.bytes, &f.kind, f.detail);
                    note_evictions(&before, &cur1, &mut evicted_in_r1);
                }
            }
        }
        if Some(pos) == age_pos {
            // make the 60 s inactivity eviction reachable: both receivers were idle for 61 s
            let d = std::time::Duration::from_secs(61);
            if !(r0.verif_age_contexts(d) && r1.verif_age_contexts(d)) {
                o.harness_problem("verif_age_contexts: monotonic clock too young to go back 61 s");
                return o;
            }
            o.count("aged_receivers", 1);
            let burst = (36usize.saturating_sub(cur1.len()) + rng.range(0, 8) as usize).max(3);
            let mut made = 0;
            let mut tries = 0;
            while made < burst && tries < burst * 5 {
                tries += 1;
                if let Some(f) = make_forgery(&mut rng, &rig, &gens, true) {
                    made += 1;
                    o.seen("forgery_kinds_on_never_seen_ssrc_after_ageing", f.kind.clone());
                    let before = cur1.clone();
                    deliver_forged(&mut o, &mut r1, &mut cur1, f.rtcp_api, prof, &f.bytes, &f.kind, f.detail);
                    note_evictions(&before, &cur1, &mut evicted_in_r1);
                }
            }
            o.count("forged_new_ssrc_burst_packets", made as u64);
        }
        let (g0, t0) = deliver_genuine(&mut r0, g);
        let (g1, t1) = deliver_genuine(&mut r1, g);
        o.count("genuine_delivered_to_both", 1);
        if g0 && g1 {
            o.count("genuine_same_outcome_accepted", 1);
        } else if g0 && !g1 {
            let api = if g.rtcp { "unprotect_rtcp" } else { "unprotect_rtp" };
            let s0 = r0.verif_rx_snapshot();
            let lost = evicted_in_r1.contains(&g.ssrc)
                || match (s0.get(&g.ssrc), cur1.get(&g.ssrc)) {
                    (Some(a), Some(b)) => a.0 != b.0 && b.0 == 0 && b.1.is_none(),
                    (Some(_), None) => true,
                    _ => false,
                };
            let key = if lost {
                format!("genuine_rejected_after_forgeries api={api} cause=rx_context_evicted_after_forged_ssrcs")
            } else {
                format!("genuine_rejected_after_forgeries api={api} profile={pn} after=interleave result={t1}")
            };
            o.viol(
                key,
                "a genuine packet accepted by the undisturbed receiver is rejected by the receiver that had only *rejected* forged packets in between",
                json!({"delivery_pos": pos, "ssrc": g.ssrc, "index": g.index, "proto": if g.rtcp {"rtcp"} else {"rtp"},
                       "r0": t0, "r1": t1, "r1_context_of_this_ssrc_was_evicted_earlier": evicted_in_r1.contains(&g.ssrc), "aged": age_pos.map(|a| a <= pos), "r1_contexts_before": cur1.len(),
                       "r1_ctx_before": cur1.get(&g.ssrc).map(|v| json!({"roc": v.0, "last_seq": v.1, "srtcp_index": v.2})),
                       "r0_ctx_after": s0.get(&g.ssrc).map(|v| json!({"roc": v.0, "last_seq": v.1, "srtcp_index": v.2}))}),
            );
        } else if !g0 && g1 {
            o.count("r1_accepts_what_r0_rejects(not_a_violation)", 1);
        } else if !*dup {
            o.count("genuine_rejected_by_both(C04_domain)", 1);
        } else {
            o.count("duplicate_rejected_by_both", 1);
        }
        let after1 = r1.verif_rx_snapshot();
        note_evictions(&cur1, &after1, &mut evicted_in_r1);
        cur1 = after1;
        if pos == 0 {
            state_viol_before = o.viols.len();
        }
    }
    // end of run: anything the per-packet check could not see?
    if o.viols.iter().skip(state_viol_before.min(o.viols.len())).all(|v| !v.0.starts_with("state.")) && !o.viols.iter().any(|v| v.0.starts_with("state.")) {
        let s0 = r0.verif_rx_snapshot();
        if s0 != cur1 {
            for (key, d) in classify_diff(&s0, &cur1, "end_of_run(R0_vs_R1)", pn) {
                o.viol(key, "R1 (forgeries interleaved, all rejected) ends in a different state than R0", json!({"change": d}));
            }
        } else {
            o.count("final_snapshots_equal", 1);
        }
    }
    o.seen("r1_context_table_sizes", format!("{}", cur1.len().min(99)));
    let fr = o.counters.get("forged_rejected").copied().unwrap_or(0);
    o.nontrivial = fr > 0 && o.counters.get("genuine_same_outcome_accepted").copied().unwrap_or(0) > 0;
    o.sample = Some(json!({"scenario": sc, "genuine": stream.delivery.len(), "forged": o.counters.get("forged_delivered"),
        "max_roc": stream.stats.max_roc, "r1_final": snap_json(&cur1)}));
    o
}

// ------------------------------------------------------------------------------------ driver

fn run_scenario(sc: &Value) -> Obs {
    match sc["kind"].as_str().unwrap_or("") {
        "roc" => run_roc(sc),
        "stream" => run_c04_stream(sc),
        "rtcp_long" => run_rtcp_long(sc),
        "bitflip" | "truncate" => run_bitflip(sc),
        "forge_random" => run_forge_random(sc),
        "interleave" => run_interleave(sc),
        other => {
            let mut o = Obs::default();
            o.harness_problem(format!("unknown scenario kind {other:?}"));
            o
        }
    }
}

fn par_run(scenarios: &[Value]) -> Vec<Obs> {
    let threads = std::thread::available_parallelism().map(|n| n.get()).unwrap_or(8).clamp(2, 16);
    let next = AtomicUsize::new(0);
    let out: parking_lot::Mutex<Vec<Option<Obs>>> = parking_lot::Mutex::new((0..scenarios.len()).map(|_| None).collect());
    std::thread::scope(|s| {
        for _ in 0..threads {
            s.spawn(|| {
                loop {
                    let i = next.fetch_add(1, Ordering::SeqCst);
                    if i >= scenarios.len() {
                        break;
                    }
                    let r = match catch_unwind(AssertUnwindSafe(|| run_scenario(&scenarios[i]))) {
                        Ok(o) => o,
                        Err(_) => {
                            let mut o = Obs::default();
                            o.harness_problem(format!("engine panicked at {}", last_panic_location()));
                            o
                        }
                    };
                    out.lock()[i] = Some(r);
                }
            });
        }
    });
    out.into_inner().into_iter().map(|o| o.unwrap_or_default()).collect()
}

fn c04_scenarios(args: &Args) -> Vec<Value> {
    let thorough = args.tier == Tier::Thorough;
    let mut rng = Rng::new(args.seed).fork(0x0c04);
    let mut v = vec![];
    // rollover estimation: 3 ROC values x 64 chunks of `last`
    for roc in [0u32, 1, u32::MAX] {
        for c in 0..64u32 {
            v.push(json!({"kind": "roc", "roc": roc, "last_lo": c * 1024, "last_hi": (c + 1) * 1024,
                          "mode": if thorough { "full" } else { "bands" }}));
        }
    }
    let mult = if thorough { 120 } else { 8 };
    for prof in Prof::ALL {
        let mut add = |mode: &str, n: u64, ssrc: (u64, u64), n_rtp: (u64, u64), n_rtcp: u64, small: bool, rng: &mut Rng| {
            for _ in 0..n * mult {
                v.push(json!({"kind": "stream", "profile": prof.name(), "rng": rng.next_u64(), "mode": mode,
                    "n_ssrc": rng.range(ssrc.0, ssrc.1), "n_rtp": rng.range(n_rtp.0, n_rtp.1), "n_rtcp": n_rtcp, "small": small}));
            }
        };
        add("mixed", 110, (1, 6), (40, 160), 10, false, &mut rng);
        add("wrapheavy", 40, (1, 4), (30, 120), 6, false, &mut rng);
        add("edge", 40, (1, 3), (30, 120), 4, true, &mut rng);
        add("plain", 10, (1, 2), (100, 300), 20, false, &mut rng);
        add("mixed", 6, (33, 40), (6, 14), 3, true, &mut rng);
        for _ in 0..(if thorough { 6 } else { 2 }) {
            v.push(json!({"kind": "rtcp_long", "profile": prof.name(), "rng": rng.next_u64(), "n": if thorough { 140_000 } else { 67_000 }}));
        }
    }
    // SSRC churn + passing time: more genuine SSRCs than the context watermark, long-lived wrapped
    // streams among them, all contexts aged past the inactivity threshold, then newcomers
    // (own generator state, so the scenarios above are the same as before this family existed)
    let mut rng = Rng::new(args.seed).fork(0x1c04);
    for prof in Prof::ALL {
        for _ in 0..5 * mult {
            let n_ssrc = if rng.chance(1, 6) { rng.range(4, 32) } else { rng.range(33, 42) };
            v.push(json!({"kind": "stream", "aged": true, "profile": prof.name(), "rng": rng.next_u64(), "mode": "aged",
                "n_ssrc": n_ssrc, "n_rtp": 0, "n_rtcp": 0, "small": true}));
        }
    }
    v
}

fn c05_scenarios(args: &Args) -> Vec<Value> {
    let thorough = args.tier == Tier::Thorough;
    let mut rng = Rng::new(args.seed).fork(0x0c05);
    let mut v = vec![];
    let shapes = if thorough { 10 } else { 3 }; // per profile x protocol, x2 (flip / truncate)
    for prof in Prof::ALL {
        for proto in ["rtp", "rtcp"] {
            for k in 0..shapes {
                // quick: payloads <= 64 B; thorough: every third shape small, the rest up to MTU
                let small = !thorough || k % 3 == 0;
                v.push(json!({"kind": "bitflip", "profile": prof.name(), "proto": proto, "rng": rng.next_u64(), "small": small}));
                v.push(json!({"kind": "truncate", "profile": prof.name(), "proto": proto, "rng": rng.next_u64(), "small": small}));
            }
        }
        for _ in 0..(if thorough { 300 } else { 24 }) {
            v.push(json!({"kind": "forge_random", "profile": prof.name(), "rng": rng.next_u64(), "n": 800}));
        }
        let m = if thorough { 25 } else { 3 };
        for _ in 0..40 * m {
            v.push(json!({"kind": "interleave", "profile": prof.name(), "rng": rng.next_u64(), "age": false,
                "n_ssrc": rng.range(1, 6), "n_rtp": rng.range(40, 140), "n_rtcp": 8,
                "mode": *rng.pick(&["mixed", "wrapheavy", "edge", "mixed"]), "rate": *rng.pick(&[5u64, 20, 50, 100])}));
        }
        for _ in 0..24 * m {
            v.push(json!({"kind": "interleave", "profile": prof.name(), "rng": rng.next_u64(), "age": true,
                "n_ssrc": if rng.chance(1, 5) { rng.range(20, 30) } else { rng.range(2, 6) }, "n_rtp": rng.range(40, 120), "n_rtcp": 6,
                "mode": *rng.pick(&["wrapheavy", "mixed", "wrapheavy"]), "rate": *rng.pick(&[0u64, 10, 30])}));
        }
    }
    // aged runs whose GENUINE contexts alone are above the 32-context watermark (some wrapped):
    // after the ageing only forged packets on never-seen SSRCs arrive, then the genuine streams go on
    // (own generator state, so the scenarios above are the same as before this family existed)
    let mut rng = Rng::new(args.seed).fork(0x1c05);
    for prof in Prof::ALL {
        for _ in 0..(if thorough { 200 } else { 20 }) {
            v.push(json!({"kind": "interleave", "profile": prof.name(), "rng": rng.next_u64(), "age": true,
                "n_ssrc": rng.range(34, 42), "n_rtp": rng.range(8, 20), "n_rtcp": rng.range(0, 3),
                "mode": *rng.pick(&["wrapheavy", "mixed", "wrapheavy"]), "rate": *rng.pick(&[0u64, 0, 5, 15])}));
        }
    }
    v
}

fn fold(report: &mut Report, sc: &Value, o: Obs, kinds_sampled: &mut HashSet<String>) {
    for (k, n) in &o.counters {
        report.count(k, *n);
    }
    for (s, i) in o.seen {
        report.seen(&s, i);
    }
    let kind = format!("{}:{}", sc["kind"].as_str().unwrap_or("?"), sc["profile"].as_str().unwrap_or(""));
    report.count(&format!("scenarios.{}", sc["kind"].as_str().unwrap_or("?")), 1);
    if let Some(s) = o.sample {
        let k = sc["kind"].as_str().unwrap_or("?").to_string();
        if kinds_sampled.insert(k) || (report.samples.len() < 3 && kinds_sampled.insert(kind)) {
            report.sample(s);
        }
    }
    let nt = if o.nontrivial { Some(hash_value(sc)) } else { None };
    let mut viols = o.viols.into_iter();
    let verdict = if let Some(why) = o.inconclusive {
        // a harness problem never turns into a verdict about rustrtc; violations found before
        // it are still reported below
        Verdict::Inconclusive(why)
    } else if let Some((k, w, j)) = viols.next() {
        Verdict::violated(k, w, j)
    } else {
        Verdict::Held
    };
    report.record(sc, nt, verdict);
    for (k, w, j) in viols {
        report.violation(sc, &k, &w, j);
    }
}

pub fn run(args: &Args) -> i32 {
    let is_c04 = args.prop == "C04";
    let rule = if is_c04 {
        "scenario = (a) one chunk of the (s_l,SEQ) plane x one ROC for the rollover estimate, non-trivial when the RFC model \
         takes a ROC+1/ROC-1 branch inside it; (b) one generated multi-SSRC RTP+RTCP stream (profile, keys, header shapes, \
         sequence history with loss/reorder/duplicates inside +/-(2^15-1), wraps; or an SSRC-churn history: up to 42 genuine SSRCs with long-lived wrapped streams, all receive contexts aged past the 60 s inactivity threshold, then never-seen SSRCs while the live streams continue) pushed through rustrtc->rustrtc, \
         rustrtc->independent, independent->rustrtc; non-trivial when a cross-implementation check ran AND the history had \
         a reordered delivery or reached ROC>=1. distinct = hash of the scenario JSON (contains the generator state)."
    } else {
        "scenario = one receiver with an accepted genuine history attacked by (a) every single-bit flip of one protected \
         packet, (b) every truncation / 20 extensions, (c) 800 generated forgeries of 14 families, or (d) a genuine multi-SSRC \
         stream (1..42 SSRCs) delivered to two receivers, one of which also gets forgeries interleaved (optionally after ageing all contexts \
         by 61 s and a burst of forged packets on never-seen SSRCs, with the genuine contexts alone below or above the 32-context watermark). non-trivial when >=1 forged packet was rejected by the real unprotect code \
         (and, for (d), >=1 genuine packet was then accepted by both receivers). distinct = hash of the scenario JSON."
    };
    let mut report = Report::new(args, "exploration", rule);
    report.max_samples = 8;
    report.assume("webrtc-srtp 0.17.2 / rtp 0.17.2 are correct implementations of RFC 3711/5764/7714 for the three profiles they share with rustrtc");
    report.assume("the aes, hmac, sha1 primitive crates are correct (used by the harness-own RFC 3711 code for the NULL-cipher profile)");
    report.assume("H4 hooks (verif_rx_snapshot / verif_roc_step / verif_age_contexts) are faithful: they read or call the real private state/functions");
    if let Err(e) = own::selfcheck_b3() {
        eprintln!("harness-own RFC 3711 key derivation fails RFC 3711 B.3: {e}");
        report.note(format!("BROKEN: own kdf fails RFC 3711 B.3: {e}"));
        return report.finish(u64::MAX, u64::MAX);
    }
    report.note("harness-own AES-CM key derivation reproduces RFC 3711 Appendix B.3 (cipher key, salt, 94-byte auth key)");

    if let Some(path) = &args.replay {
        let Some(sc) = load_replay(path) else {
            eprintln!("cannot load replay {}", path.display());
            return 2;
        };
        let mut sampled = HashSet::new();
        for attempt in 0..5 {
            let o = run_scenario(&sc);
            let inconclusive = o.inconclusive.clone();
            fold(&mut report, &sc, o, &mut sampled);
            if !report.violations.is_empty() || !report.known_hits.is_empty() {
                break;
            }
            if inconclusive.is_none() {
                println!("REPLAY attempt {attempt}: held");
                break;
            }
        }
        if report.violations.is_empty() {
            let inc = report.inconclusive_n;
            println!("REPLAY property={} held={} inconclusive={} known={}", report.prop, report.held, inc, report.known_hits.len());
            return if report.held > 0 || !report.known_hits.is_empty() { 0 } else { 2 };
        }
        return report.finish(1, 0);
    }

    let scenarios = if is_c04 { c04_scenarios(args) } else { c05_scenarios(args) };
    let results = par_run(&scenarios);
    let mut sampled = HashSet::new();
    for (sc, o) in scenarios.iter().zip(results) {
        fold(&mut report, sc, o, &mut sampled);
    }
    if is_c04 {
        let thorough = args.tier == Tier::Thorough;
        let pairs = report.counters.get("roc.pairs_checked").copied().unwrap_or(0);
        report.extra.insert("roc_exhaustive".into(), json!(thorough));
        report.extra.insert("roc_pairs_checked".into(), json!(pairs));
        report.extra.insert(
            "roc_explanation".into(),
            json!(if thorough {
                "rollover estimate + update compared with RFC 3711 App. A / §3.3.1 for ALL 2^32 (s_l,SEQ) pairs x ROC in {0,1,2^32-1} plus the first-packet case (65536 SEQ x 3 ROC); the packet-level part (profiles, keys, shapes, histories) is sampled, not exhaustive"
            } else {
                "quick tier: all SEQ for s_l within 64 of {0,32767,32768,65535}; for every other s_l the SEQ bands +/-64 around s_l, s_l+2^15, 0, 2^15, 65535; x ROC in {0,1,2^32-1}. NOT exhaustive (thorough is)"
            }),
        );
        let min_pairs = if thorough { 3 * (1u64 << 32) } else { 1_000_000 };
        if pairs < min_pairs {
            report.note(format!("BROKEN: only {pairs} ROC pairs checked (< {min_pairs})"));
            return report.finish(u64::MAX, u64::MAX);
        }
        report.finish(if thorough { 20000 } else { 1500 }, if thorough { 10000 } else { 800 })
    } else {
        report.finish(if args.tier == Tier::Thorough { 4000 } else { 400 }, if args.tier == Tier::Thorough { 3000 } else { 300 })
    }
}
