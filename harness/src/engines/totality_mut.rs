//! C07 input generators: enumerated structure-aware mutations of valid seeds, random stacked
//! mutations, text-level mutations, and plain random bytes (all ≤ 64 KiB, all from `common::Rng`).

use crate::common::Rng;

pub const MAX_INPUT: usize = 65536;

fn clip(mut v: Vec<u8>) -> Vec<u8> {
    v.truncate(MAX_INPUT);
    v
}

/// Number of enumerated variants per offset (see `enumerated`).
pub const VARIANTS_PER_OFFSET: usize = 1 + 6 + 8 + 7 + 3;

/// Deterministic, seed-independent enumeration over one valid seed:
/// for every offset `o` (< `max_off`): the prefix `seed[..o]`; six byte values at `o`
/// (0, 0xff, 0x7f, 0x80, b+1, b-1); the eight single-bit flips; seven big-endian u16 values at
/// `o` (0, 1, 0xffff, v+1, v-1, number of bytes following the field, that number +1);
/// three 24-bit values at `o` (0, 0xffffff, bytes following +1). This hits every length and
/// count field of every format with 0 / ±1 / max / "exactly the rest" / "one more than the rest".
pub fn enumerated(seed: &[u8], max_off: usize, mut f: impl FnMut(Vec<u8>)) {
    let n = seed.len().min(max_off);
    for o in 0..=n {
        f(seed[..o].to_vec());
        if o >= seed.len() {
            continue;
        }
        let b = seed[o];
        for nb in [0u8, 0xff, 0x7f, 0x80, b.wrapping_add(1), b.wrapping_sub(1)] {
            let mut v = seed.to_vec();
            v[o] = nb;
            f(v);
        }
        for bit in 0..8 {
            let mut v = seed.to_vec();
            v[o] ^= 1 << bit;
            f(v);
        }
        if o + 2 <= seed.len() {
            let cur = u16::from_be_bytes([seed[o], seed[o + 1]]);
            let rest = (seed.len() - o - 2).min(0xffff) as u16;
            for nv in [
                0u16,
                1,
                0xffff,
                cur.wrapping_add(1),
                cur.wrapping_sub(1),
                rest,
                rest.wrapping_add(1),
            ] {
                let mut v = seed.to_vec();
                v[o..o + 2].copy_from_slice(&nv.to_be_bytes());
                f(v);
            }
        }
        if o + 3 <= seed.len() {
            let rest = (seed.len() - o - 3) as u32;
            for nv in [0u32, 0xff_ffff, rest + 1] {
                let mut v = seed.to_vec();
                v[o..o + 3].copy_from_slice(&nv.to_be_bytes()[1..]);
                f(v);
            }
        }
    }
    // truncations from the tail side as well (drop the first k bytes) for short seeds
    for k in 1..seed.len().min(64) {
        f(seed[k..].to_vec());
    }
}

const INTERESTING_U8: [u8; 10] = [0, 1, 2, 0x0f, 0x10, 0x1f, 0x7f, 0x80, 0xfe, 0xff];
const INTERESTING_U16: [u16; 12] = [
    0, 1, 2, 3, 4, 0x7f, 0x80, 0xff, 0x100, 0x7fff, 0x8000, 0xffff,
];
const INTERESTING_U32: [u32; 10] = [
    0,
    1,
    0xff,
    0xffff,
    0x10000,
    0x7fff_ffff,
    0x8000_0000,
    0xffff_fffe,
    0xffff_ffff,
    0x00ff_ffff,
];

/// One random byte-level mutation (in place).
pub fn mutate_once(v: &mut Vec<u8>, seeds: &[Vec<u8>], r: &mut Rng) {
    let len = v.len();
    match r.below(16) {
        0 => {
            if len > 0 {
                let o = r.usize_below(len);
                v[o] ^= 1 << r.below(8);
            }
        }
        1 => {
            if len > 0 {
                let o = r.usize_below(len);
                v[o] = *r.pick(&INTERESTING_U8);
            }
        }
        2 => {
            if len >= 2 {
                let o = r.usize_below(len - 1);
                let val = if r.chance(1, 3) {
                    // "the rest of the packet" ± 1
                    ((len - o - 2) as i64 + r.range(0, 2) as i64 - 1).clamp(0, 0xffff) as u16
                } else {
                    *r.pick(&INTERESTING_U16)
                };
                v[o..o + 2].copy_from_slice(&val.to_be_bytes());
            }
        }
        3 => {
            if len >= 4 {
                let o = r.usize_below(len - 3);
                let val = *r.pick(&INTERESTING_U32);
                v[o..o + 4].copy_from_slice(&val.to_be_bytes());
            }
        }
        4 => {
            // truncate
            if len > 0 {
                v.truncate(r.usize_below(len));
            }
        }
        5 => {
            // extend with a filler up to a random size (sometimes up to 64 KiB)
            let target = if r.chance(1, 6) {
                r.range(len as u64, MAX_INPUT as u64) as usize
            } else {
                len + r.usize_below(64)
            };
            let fill = match r.below(4) {
                0 => 0u8,
                1 => 0xff,
                2 => r.u8(),
                _ => 0x41,
            };
            if r.chance(1, 3) {
                let extra = r.bytes(target.saturating_sub(len));
                v.extend_from_slice(&extra);
            } else {
                v.resize(target, fill);
            }
        }
        6 => {
            // splice: head of v + tail of another seed
            if !seeds.is_empty() {
                let other = r.pick(seeds);
                let a = r.usize_below(len + 1);
                let b = r.usize_below(other.len() + 1);
                v.truncate(a);
                v.extend_from_slice(&other[b..]);
            }
        }
        7 => {
            // delete a range
            if len > 1 {
                let a = r.usize_below(len);
                let n = 1 + r.usize_below((len - a).min(32));
                v.drain(a..a + n);
            }
        }
        8 => {
            // duplicate a range (possibly many times)
            if len > 0 {
                let a = r.usize_below(len);
                let n = 1 + r.usize_below((len - a).min(48));
                let times = if r.chance(1, 8) {
                    r.range(2, 2000) as usize
                } else {
                    r.range(1, 4) as usize
                };
                let chunk = v[a..a + n].to_vec();
                let mut ins = Vec::new();
                for _ in 0..times {
                    if ins.len() + len + n > MAX_INPUT {
                        break;
                    }
                    ins.extend_from_slice(&chunk);
                }
                let at = a + n;
                v.splice(at..at, ins);
            }
        }
        9 => {
            // insert random bytes
            let a = r.usize_below(len + 1);
            let n_ins = 1 + r.usize_below(16);
            let ins = r.bytes(n_ins);
            v.splice(a..a, ins);
        }
        10 => {
            // overwrite a window with random bytes
            if len > 0 {
                let a = r.usize_below(len);
                let n = 1 + r.usize_below((len - a).min(16));
                let rnd = r.bytes(n);
                v[a..a + n].copy_from_slice(&rnd);
            }
        }
        11 => {
            // add / subtract a small delta on one byte
            if len > 0 {
                let o = r.usize_below(len);
                let d = r.range(1, 4) as u8;
                v[o] = if r.bool() {
                    v[o].wrapping_add(d)
                } else {
                    v[o].wrapping_sub(d)
                };
            }
        }
        12 => {
            // 24-bit field
            if len >= 3 {
                let o = r.usize_below(len - 2);
                let val: u32 = match r.below(4) {
                    0 => 0,
                    1 => 0xff_ffff,
                    2 => (len - o - 3) as u32 + 1,
                    _ => r.u32() & 0xff_ffff,
                };
                v[o..o + 3].copy_from_slice(&val.to_be_bytes()[1..]);
            }
        }
        13 => {
            // swap two windows
            if len >= 8 {
                let n = 1 + r.usize_below(4);
                let a = r.usize_below(len - n);
                let b = r.usize_below(len - n);
                for i in 0..n {
                    v.swap(a + i, b + i);
                }
            }
        }
        14 => {
            // concatenate another whole seed (compound packets / several records)
            if !seeds.is_empty() {
                let other = r.pick(seeds).clone();
                if r.bool() {
                    v.extend_from_slice(&other);
                } else {
                    v.splice(0..0, other);
                }
            }
        }
        _ => {
            // keep only the first k bytes and set the last one (header-only packets)
            if len > 0 {
                let k = 1 + r.usize_below(len.min(40));
                v.truncate(k);
                v[k - 1] = *r.pick(&INTERESTING_U8);
            }
        }
    }
    if v.len() > MAX_INPUT {
        v.truncate(MAX_INPUT);
    }
}

/// Random stacked mutation of a random seed.
pub fn random_mutant(seeds: &[Vec<u8>], r: &mut Rng) -> Vec<u8> {
    let mut v = if seeds.is_empty() {
        Vec::new()
    } else {
        r.pick(seeds).clone()
    };
    let k = match r.below(10) {
        0..=4 => 1,
        5..=7 => 2,
        8 => 3,
        _ => 1 + r.usize_below(6),
    };
    for _ in 0..k {
        mutate_once(&mut v, seeds, r);
    }
    clip(v)
}

/// Plain random bytes; length distribution favours short inputs but reaches 64 KiB. With
/// probability 1/3 the first bytes are taken from a seed so that the input passes the
/// first-byte classifiers of the format.
pub fn plain_random(seeds: &[Vec<u8>], r: &mut Rng) -> Vec<u8> {
    let len = match r.below(20) {
        0 => 0,
        1..=9 => r.usize_below(65),
        10..=14 => r.usize_below(513),
        15..=17 => r.usize_below(4097),
        18 => r.usize_below(MAX_INPUT + 1),
        _ => *r.pick(&[12usize, 13, 20, 34, 35, 255, 256, 1500, 1501, 65535, 65536]),
    };
    let mut v = match r.below(6) {
        0 => vec![0u8; len],
        1 => vec![0xffu8; len],
        _ => r.bytes(len),
    };
    if !seeds.is_empty() && r.chance(1, 3) {
        let s = r.pick(seeds);
        let k = r.usize_below(s.len().min(24) + 1).min(v.len());
        v[..k].copy_from_slice(&s[..k]);
    }
    v
}

// ------------------------------------------------------------------ text

const BOUNDARY_NUMBERS: [&str; 26] = [
    "0",
    "-1",
    "1",
    "14",
    "15",
    "16",
    "127",
    "128",
    "255",
    "256",
    "32767",
    "32768",
    "65534",
    "65535",
    "65536",
    "2147483647",
    "2147483648",
    "4294967295",
    "4294967296",
    "9223372036854775807",
    "18446744073709551615",
    "18446744073709551616",
    "99999999999999999999999999",
    "00000000000000000000000001",
    "1e9",
    "",
];
const MULTIBYTE: [&str; 6] = ["é", "€", "😀", "\u{0301}", "ß", "中"];
const DELIMS: [u8; 10] = [b':', b' ', b'=', b';', b'/', b',', b'-', b'~', b'|', b'.'];

fn digit_runs(s: &[u8]) -> Vec<(usize, usize)> {
    let mut out = vec![];
    let mut i = 0;
    while i < s.len() {
        if s[i].is_ascii_digit() {
            let st = i;
            while i < s.len() && s[i].is_ascii_digit() {
                i += 1;
            }
            out.push((st, i));
        } else {
            i += 1;
        }
    }
    out
}

fn line_spans(s: &[u8]) -> Vec<(usize, usize)> {
    // spans include the terminating '\n'
    let mut out = vec![];
    let mut st = 0;
    for (i, b) in s.iter().enumerate() {
        if *b == b'\n' {
            out.push((st, i + 1));
            st = i + 1;
        }
    }
    if st < s.len() {
        out.push((st, s.len()));
    }
    out
}

/// One random text-level mutation (in place, bytes stay valid UTF-8 if they were).
pub fn mutate_text_once(v: &mut Vec<u8>, seeds: &[Vec<u8>], r: &mut Rng) {
    match r.below(12) {
        0 | 1 => {
            let runs = digit_runs(v);
            if !runs.is_empty() {
                let (a, b) = *r.pick(&runs);
                let rep = r.pick(&BOUNDARY_NUMBERS).as_bytes().to_vec();
                v.splice(a..b, rep);
            }
        }
        2 => {
            // duplicate a line (sometimes thousands of times)
            let ls = line_spans(v);
            if !ls.is_empty() {
                let (a, b) = *r.pick(&ls);
                let line = v[a..b].to_vec();
                let times = if r.chance(1, 5) {
                    r.range(100, 8000) as usize
                } else {
                    r.range(1, 5) as usize
                };
                let mut ins = Vec::new();
                for _ in 0..times {
                    if v.len() + ins.len() + line.len() > MAX_INPUT {
                        break;
                    }
                    ins.extend_from_slice(&line);
                }
                v.splice(b..b, ins);
            }
        }
        3 => {
            let ls = line_spans(v);
            if !ls.is_empty() {
                let (a, b) = *r.pick(&ls);
                v.drain(a..b);
            }
        }
        4 => {
            // move a line somewhere else
            let ls = line_spans(v);
            if ls.len() >= 2 {
                let (a, b) = *r.pick(&ls);
                let line: Vec<u8> = v.drain(a..b).collect();
                let ls2 = line_spans(v);
                let at = if ls2.is_empty() {
                    0
                } else {
                    r.pick(&ls2).0
                };
                v.splice(at..at, line);
            }
        }
        5 => {
            // insert a multi-byte character at a char boundary
            let s = String::from_utf8_lossy(v).into_owned();
            let mut idx: Vec<usize> = s.char_indices().map(|(i, _)| i).collect();
            idx.push(s.len());
            let at = *r.pick(&idx);
            let mut s2 = s;
            let mb: &str = MULTIBYTE[r.usize_below(MULTIBYTE.len())];
            s2.insert_str(at, mb);
            *v = s2.into_bytes();
        }
        6 => {
            // replace or remove a delimiter
            let pos: Vec<usize> = v
                .iter()
                .enumerate()
                .filter(|(_, b)| DELIMS.contains(b))
                .map(|(i, _)| i)
                .collect();
            if !pos.is_empty() {
                let p = *r.pick(&pos);
                if r.bool() {
                    v.remove(p);
                } else {
                    v[p] = *r.pick(&DELIMS);
                }
            }
        }
        7 => {
            // cut a line right after its first ':' or '=' (empty value)
            let ls = line_spans(v);
            if !ls.is_empty() {
                let (a, b) = *r.pick(&ls);
                let want = if r.bool() { b':' } else { b'=' };
                let hits: Vec<usize> = (a..b).filter(|i| v[*i] == want).collect();
                if !hits.is_empty() {
                    let p = *r.pick(&hits);
                    let end = if b > a && v[b - 1] == b'\n' { b - 1 } else { b };
                    let end = if end > a && v[end - 1] == b'\r' { end - 1 } else { end };
                    if p + 1 < end {
                        v.drain(p + 1..end);
                    }
                }
            }
        }
        8 => {
            // replace a whitespace-delimited token by a very long / empty / odd token
            let s = v.clone();
            let mut toks = vec![];
            let mut i = 0;
            while i < s.len() {
                if !s[i].is_ascii_whitespace() {
                    let st = i;
                    while i < s.len() && !s[i].is_ascii_whitespace() {
                        i += 1;
                    }
                    toks.push((st, i));
                } else {
                    i += 1;
                }
            }
            if !toks.is_empty() {
                let (a, b) = *r.pick(&toks);
                let rep: Vec<u8> = match r.below(5) {
                    0 => vec![],
                    1 => vec![b'A'; r.range(200, 70000) as usize],
                    2 => b"*".to_vec(),
                    3 => b"-".to_vec(),
                    _ => vec![b'9'; r.range(1, 40) as usize],
                };
                v.splice(a..b, rep);
            }
        }
        9 => {
            // line endings
            match r.below(3) {
                0 => v.retain(|b| *b != b'\r'),
                1 => {
                    let mut out = Vec::with_capacity(v.len() + 16);
                    for b in v.iter() {
                        if *b == b'\n' {
                            out.push(b'\r');
                        }
                        out.push(*b);
                    }
                    *v = out;
                }
                _ => v.retain(|b| *b != b'\n'),
            }
        }
        10 => {
            // splice in lines of another seed
            if !seeds.is_empty() {
                let other = r.pick(seeds);
                let lo = line_spans(other);
                let ls = line_spans(v);
                if !lo.is_empty() {
                    let (a, b) = *r.pick(&lo);
                    let at = if ls.is_empty() { 0 } else { r.pick(&ls).0 };
                    v.splice(at..at, other[a..b].to_vec());
                }
            }
        }
        _ => mutate_once(v, seeds, r),
    }
    if v.len() > MAX_INPUT {
        v.truncate(MAX_INPUT);
    }
}

pub fn random_text_mutant(seeds: &[Vec<u8>], r: &mut Rng) -> Vec<u8> {
    let mut v = if seeds.is_empty() {
        Vec::new()
    } else {
        r.pick(seeds).clone()
    };
    let k = match r.below(10) {
        0..=4 => 1,
        5..=7 => 2,
        _ => 1 + r.usize_below(5),
    };
    for _ in 0..k {
        mutate_text_once(&mut v, seeds, r);
    }
    clip(v)
}
