//! C03 – "Only authenticated DTLS records are acted on; nothing leaves in clear".
//!
//! Rig (DESIGN.md §2.1, public API only): two real endpoints
//! `UdpSocket -> IceConn -> DtlsTransport` joined by a harness-owned wire (two UDP sockets, one
//! forwarder task that logs every datagram and can hold a flight). A third "stranger" socket
//! injects from a foreign source address. The harness owns an independent DTLS record codec and
//! AES-128-GCM seal/open (aes-gcm crate, keys taken from `DtlsState::Connected`).
//!
//! RECEIVE-SIDE ORACLE (statement: "bytes are handed to the upper layer and alerts change
//! connection state only if they arrived in a record that decrypts and authenticates under the
//! negotiated keys; any plaintext, truncated, bit-flipped, wrongly-keyed or otherwise
//! unauthenticated record, from any source address, is discarded without changing connection
//! state"):
//!   * every payload the victim's application-data receiver yields must be one the genuine peer
//!     submitted (markers, genuine payloads), a harness-sealed *authentic* control record, or the
//!     plaintext of a replayed genuine record (a replay authenticates, so its acceptance is only
//!     counted). Multiset inclusion only – order is not demanded because the statement is silent.
//!   * the victim's state (sampled behind a barrier marker that travels the same FIFO receive
//!     path) must be what it was before the injection (Connected, or Handshaking in the
//!     "keys exist but peer Finished withheld" window), and after a withheld flight is released
//!     the handshake must still complete (witness is logical: marker behind the flight arrived /
//!     flight delivered >=3 times, never a bare timeout).
//!   * POSITIONS of the victim when the injection arrives:
//!       established      both ends Connected;
//!       window_client / window_server   keys exist, the peer's CCS+Finished are withheld;
//!       pre_server@1 / @16              NO keys yet: the server has seen nothing / has answered
//!                                       ClientHello, ClientKeyExchange withheld;
//!       pre_client@2 / @11 / @12 / @14  NO keys yet: ClientHello is out, the server's flight is
//!                                       withheld from ServerHello / Certificate /
//!                                       ServerKeyExchange / ServerHelloDone on.
//!     At the pre-key positions only records that can never be legitimate are injected: every
//!     content type claiming a protected epoch (>= 1; nothing can authenticate without keys) and
//!     epoch-0 ApplicationData / unknown types. Epoch-0 Handshake, ChangeCipherSpec and Alert
//!     records before keys exist are by nature unauthenticated and legitimately acted on (the
//!     statement starts "once keys are negotiated"), so they are not injected there. No marker
//!     is possible without keys: the victim's IceConn receive counter shows that every injected
//!     datagram was handed to the DTLS layer before the release; then the withheld flight is
//!     released, the handshake must complete, and a marker behind everything shows that nothing
//!     but genuine payloads ever came out (also not later, e.g. from a queue), with the state
//!     Connected. A handshake that does not complete is judged only with a logical witness
//!     (state Failed/Closed; receiver ended; the peer's flight delivered >= 3 more times).
//!   * EFFECTS (violation key `rx=<class>,<effect>[,pos=handshake|prekey]`):
//!       delivered           bytes without a genuine cause came out of the receiver;
//!       state_changed       the state is not what it was before the injection;
//!       handshake_derailed  (handshake positions) logical witness that it cannot complete;
//!       receiver_closed     the application-data receiver ENDED (the task feeding the upper
//!                           layer is gone) while the state still reads as before - the
//!                           connection is dead although no state change is announced;
//!       stopped_delivering  the marker is lost, the state unchanged, and: three further fresh
//!                           genuine markers were submitted (send Ok), the wire wrote their
//!                           datagrams to the victim's socket, the victim's IceConn counted
//!                           them - none came out; AND a control rig of the same scenario
//!                           without any injection delivers its markers and its authentic
//!                           control record. Anything short of that stays inconclusive.
//!     The last two are changes of connection state caused by an unauthenticated record.
//!     Dropping an injected record is always fine; single lost genuine payloads are never
//!     judged. Panics recorded by the process-wide hook are only a note in the witness.
//!   * every batch anomaly is narrowed by bisection on fresh rigs to one injection (rebuilt
//!     byte-identically: `inj_base`) and must reproduce there.
//!   * exact body lengths 0..=64 (explicit nonce 8 B / tag 16 B boundaries) for every content
//!     type and protected epoch, single, coalesced behind an empty record and behind an
//!     *authentic* record (pack `after_authentic`), and interleaved with genuine traffic.
//! SEND-SIDE ORACLE ("every application payload is transmitted encrypted, split into records no
//! larger than the path limit, and no two records sent under one key reuse a sequence
//! number/nonce, for any number of concurrent senders"):
//!   * every ApplicationData record on the wire has epoch>=1 and opens under the sender's
//!     negotiated write key with the harness's AES-GCM; plaintext <= 1200 B;
//!   * the opened plaintexts (in sequence-number order) tile the submitted payloads exactly;
//!   * no 16-byte window of any submitted payload appears in clear in any datagram;
//!   * no two byte-different records of one direction with epoch>=1 share (epoch,seq) or the
//!     8-byte explicit nonce (byte-identical retransmissions are the same record).
//! Anything else (cleartext alerts, extra handshake records, replay acceptance) is only counted.

use crate::common::*;
use aes_gcm::aead::{Aead, KeyInit, Payload};
use aes_gcm::{Aes128Gcm, Nonce};
use bytes::Bytes;
use rustrtc::transports::PacketReceiver;
use rustrtc::transports::dtls::{self, Certificate, DtlsState, DtlsTransport, SessionKeys};
use rustrtc::transports::ice::IceSocketWrapper;
use rustrtc::transports::ice::conn::IceConn;
use serde_json::{Value, json};
use std::collections::{BTreeMap, HashMap, HashSet, VecDeque};
use std::net::SocketAddr;
use std::sync::Arc;
use std::sync::atomic::{AtomicBool, AtomicUsize, Ordering};
use std::time::Duration;
use tokio::net::UdpSocket;
use tokio::sync::{mpsc, oneshot, watch};
use tokio::task::JoinHandle;

/// The path limit the statement speaks about: rustrtc documents 1200 B of plaintext per
/// ApplicationData record (`MAX_APP_DATA_RECORD_SIZE`). The literal is repeated here on purpose so
/// that a change of the constant in rustrtc is noticed.
const PATH_LIMIT: usize = 1200;

// ------------------------------------------------------------------ harness-own record codec

#[derive(Clone, Debug)]
struct Rec {
    ctype: u8,
    ver: [u8; 2],
    epoch: u16,
    seq: u64,
    body: Vec<u8>,
    raw: Vec<u8>,
}

/// Parse the DTLS records of one datagram (stops at the first malformed tail).
fn parse_records(d: &[u8]) -> Vec<Rec> {
    let mut out = vec![];
    let mut p = 0usize;
    while d.len() >= p + 13 {
        let len = u16::from_be_bytes([d[p + 11], d[p + 12]]) as usize;
        if d.len() < p + 13 + len {
            break;
        }
        let mut s = [0u8; 8];
        s[2..8].copy_from_slice(&d[p + 5..p + 11]);
        out.push(Rec {
            ctype: d[p],
            ver: [d[p + 1], d[p + 2]],
            epoch: u16::from_be_bytes([d[p + 3], d[p + 4]]),
            seq: u64::from_be_bytes(s),
            body: d[p + 13..p + 13 + len].to_vec(),
            raw: d[p..p + 13 + len].to_vec(),
        });
        p += 13 + len;
    }
    out
}

fn enc_record(ctype: u8, epoch: u16, seq: u64, body: &[u8]) -> Vec<u8> {
    let mut v = Vec::with_capacity(13 + body.len());
    v.push(ctype);
    v.extend_from_slice(&[254, 253]);
    v.extend_from_slice(&epoch.to_be_bytes());
    v.extend_from_slice(&seq.to_be_bytes()[2..8]);
    v.extend_from_slice(&(body.len() as u16).to_be_bytes());
    v.extend_from_slice(body);
    v
}

fn aad(epoch: u16, seq: u64, ctype: u8, ver: [u8; 2], plen: usize) -> [u8; 13] {
    let mut a = [0u8; 13];
    let full = ((epoch as u64) << 48) | (seq & 0xFFFF_FFFF_FFFF);
    a[0..8].copy_from_slice(&full.to_be_bytes());
    a[8] = ctype;
    a[9] = ver[0];
    a[10] = ver[1];
    a[11..13].copy_from_slice(&(plen as u16).to_be_bytes());
    a
}

/// Open a record body (explicit nonce(8) || ciphertext || tag(16)) – RFC 5288 as used by DTLS 1.2.
fn open(key: &[u8], iv: &[u8], r: &Rec) -> Option<Vec<u8>> {
    if r.body.len() < 24 || key.len() != 16 || iv.len() != 4 {
        return None;
    }
    let cipher = Aes128Gcm::new_from_slice(key).ok()?;
    let mut n = [0u8; 12];
    n[0..4].copy_from_slice(iv);
    n[4..12].copy_from_slice(&r.body[0..8]);
    let a = aad(r.epoch, r.seq, r.ctype, r.ver, r.body.len() - 24);
    cipher
        .decrypt(
            Nonce::from_slice(&n),
            Payload {
                msg: &r.body[8..],
                aad: &a,
            },
        )
        .ok()
}

/// Seal a full record. `aad_len_delta` lets the caller produce a deliberately wrong AAD.
fn seal(key: &[u8], iv: &[u8], ctype: u8, epoch: u16, seq: u64, pt: &[u8], aad_len_delta: usize) -> Vec<u8> {
    let cipher = Aes128Gcm::new_from_slice(key).expect("16-byte key");
    let full = ((epoch as u64) << 48) | (seq & 0xFFFF_FFFF_FFFF);
    let mut n = [0u8; 12];
    n[0..4].copy_from_slice(&iv[0..4]);
    n[4..12].copy_from_slice(&full.to_be_bytes());
    let a = aad(epoch, seq, ctype, [254, 253], pt.len() + aad_len_delta);
    let ct = cipher
        .encrypt(Nonce::from_slice(&n), Payload { msg: pt, aad: &a })
        .expect("gcm seal");
    let mut body = Vec::with_capacity(8 + ct.len());
    body.extend_from_slice(&full.to_be_bytes());
    body.extend_from_slice(&ct);
    enc_record(ctype, epoch, seq, &body)
}

fn ct_name(ct: u8) -> String {
    match ct {
        20 => "ccs".into(),
        21 => "alert".into(),
        22 => "handshake".into(),
        23 => "appdata".into(),
        24 => "heartbeat".into(),
        x => format!("type{x}"),
    }
}

/// Body-length classes of a protected record: explicit nonce is 8 B, GCM tag 16 B, so a genuine
/// body has >= 24 B (25 with one byte of plaintext).
fn len_bucket(n: usize) -> &'static str {
    match n {
        0..=7 => "0to7",
        8..=15 => "8to15",
        16..=23 => "16to23",
        _ => "24plus",
    }
}

fn region_of_bit(bit: usize, rec_len: usize) -> &'static str {
    let b = bit / 8;
    match b {
        0 => "type",
        1..=2 => "version",
        3..=4 => "epoch",
        5..=10 => "seq",
        11..=12 => "length",
        13..=20 => "explicit_nonce",
        x if x + 16 >= rec_len => "tag",
        _ => "ciphertext",
    }
}

fn state_name(s: &DtlsState) -> &'static str {
    match s {
        DtlsState::New => "New",
        DtlsState::Handshaking => "Handshaking",
        DtlsState::Connected(..) => "Connected",
        DtlsState::Failed => "Failed",
        DtlsState::Closed => "Closed",
    }
}

/// A valid-looking SCTP packet (common header + one DATA chunk, correct CRC32c).
fn sctp_packet(rng: &mut Rng) -> Vec<u8> {
    let mut p = vec![];
    p.extend_from_slice(&5000u16.to_be_bytes());
    p.extend_from_slice(&5000u16.to_be_bytes());
    p.extend_from_slice(&rng.u32().to_be_bytes());
    p.extend_from_slice(&[0, 0, 0, 0]);
    let data = b"INJECTED-BY-C03-ATTACKER";
    p.push(0);
    p.push(3);
    p.extend_from_slice(&((16 + data.len()) as u16).to_be_bytes());
    p.extend_from_slice(&rng.u32().to_be_bytes());
    p.extend_from_slice(&[0, 0, 0, 0]);
    p.extend_from_slice(&51u32.to_be_bytes());
    p.extend_from_slice(data);
    let c = crc32c::crc32c(&p);
    p[8..12].copy_from_slice(&c.to_le_bytes());
    p
}

fn hs_message(msg_type: u8, mseq: u16, body: &[u8]) -> Vec<u8> {
    let mut v = vec![msg_type];
    let l = body.len() as u32;
    v.extend_from_slice(&l.to_be_bytes()[1..4]);
    v.extend_from_slice(&mseq.to_be_bytes());
    v.extend_from_slice(&[0, 0, 0]);
    v.extend_from_slice(&l.to_be_bytes()[1..4]);
    v.extend_from_slice(body);
    v
}

// ------------------------------------------------------------------ rig

#[derive(Clone)]
struct Certs {
    c: Certificate,
    s: Certificate,
    fp_c: String,
    fp_s: String,
    other_der: Vec<u8>,
}

fn make_certs() -> Result<Certs, String> {
    let c = dtls::generate_certificate().map_err(|e| e.to_string())?;
    let s = dtls::generate_certificate().map_err(|e| e.to_string())?;
    let o = dtls::generate_certificate().map_err(|e| e.to_string())?;
    Ok(Certs {
        fp_c: dtls::fingerprint(&c),
        fp_s: dtls::fingerprint(&s),
        other_der: o.certificate.first().cloned().unwrap_or_default(),
        c,
        s,
    })
}

#[derive(Clone)]
struct Cap {
    dir: usize, // index of the sending endpoint: 0 = client -> server, 1 = server -> client
    bytes: Vec<u8>,
}

enum WireCmd {
    Release(usize, oneshot::Sender<()>),
}

/// From which datagram on a direction is withheld (rustrtc sends one record per UDP datagram).
#[derive(Clone, Copy, Debug)]
enum HoldFrom {
    /// the first ChangeCipherSpec datagram (final flight: CCS + Finished)
    Ccs,
    /// the first epoch-0 Handshake datagram whose handshake message type is the given one
    /// (1 = ClientHello = everything the client says, 11 = Certificate, 16 = ClientKeyExchange,
    ///  2 = ServerHello = everything the server says, 14 = ServerHelloDone)
    Hs(u8),
}

impl HoldFrom {
    fn hit(&self, d: &[u8]) -> bool {
        match self {
            HoldFrom::Ccs => d[0] == 20,
            HoldFrom::Hs(t) => d.len() > 13 && d[0] == 22 && d[3] == 0 && d[4] == 0 && d[13] == *t,
        }
    }
}

struct Wire {
    socks: [Arc<UdpSocket>; 2], // socks[i] faces endpoint i (is endpoint i's configured remote)
    addrs: [SocketAddr; 2],
    log: Arc<parking_lot::Mutex<Vec<Cap>>>,
    hold: [Arc<AtomicBool>; 2],
    held_n: [Arc<AtomicUsize>; 2],
    ccs_after_release: [Arc<AtomicUsize>; 2],
    /// datagrams of direction d successfully written to the receiving endpoint's socket
    fwd_ok: [Arc<AtomicUsize>; 2],
    /// highest multiplicity of one byte-identical datagram forwarded in direction d after the
    /// release (= how often the sender's current flight was retransmitted and delivered)
    rexmit_after_release: [Arc<AtomicUsize>; 2],
    sentinel: [watch::Receiver<u64>; 2],
    cmd: mpsc::UnboundedSender<WireCmd>,
    task: JoinHandle<()>,
}

struct Endpoint {
    sock: Arc<UdpSocket>,
    addr: SocketAddr,
    dtls: Arc<DtlsTransport>,
    rx: mpsc::UnboundedReceiver<Bytes>,
    state_rx: watch::Receiver<DtlsState>,
    runner: Option<JoinHandle<()>>,
    pump: JoinHandle<()>,
    _sock_tx: watch::Sender<Option<IceSocketWrapper>>,
    conn: Arc<IceConn>,
}

struct Rig {
    ep: [Endpoint; 2], // 0 = client, 1 = server
    wire: Wire,
    stranger: Arc<UdpSocket>,
    sentinel_ctr: u64,
}

impl Drop for Rig {
    fn drop(&mut self) {
        self.wire.task.abort();
        for e in self.ep.iter_mut() {
            e.pump.abort();
            if let Some(r) = e.runner.take() {
                r.abort();
            }
        }
    }
}

async fn bind() -> Result<Arc<UdpSocket>, String> {
    let s = UdpSocket::bind("127.0.0.1:0").await.map_err(|e| format!("bind: {e}"))?;
    // large receive buffer so that bursts are not dropped by the kernel before the harness reads
    // them (best effort: FORCE needs CAP_NET_ADMIN, the plain option is capped by rmem_max)
    {
        use std::os::fd::AsRawFd;
        let fd = s.as_raw_fd();
        let sz: libc::c_int = 8 << 20;
        unsafe {
            let p = &sz as *const libc::c_int as *const libc::c_void;
            let l = std::mem::size_of::<libc::c_int>() as libc::socklen_t;
            if libc::setsockopt(fd, libc::SOL_SOCKET, libc::SO_RCVBUFFORCE, p, l) != 0 {
                libc::setsockopt(fd, libc::SOL_SOCKET, libc::SO_RCVBUF, p, l);
            }
        }
    }
    Ok(Arc::new(s))
}

async fn make_endpoint(
    sock: Arc<UdpSocket>,
    remote: SocketAddr,
    cert: Certificate,
    is_client: bool,
    expected_fp: String,
) -> Result<Endpoint, String> {
    let addr = sock.local_addr().map_err(|e| e.to_string())?;
    let (sock_tx, sock_rx) = watch::channel(Some(IceSocketWrapper::Udp(sock.clone())));
    let conn = IceConn::new(sock_rx, remote, None);
    let (dtls, rx, runner) = DtlsTransport::new(conn.clone(), cert, is_client, 1500, Some(expected_fp))
        .await
        .map_err(|e| format!("DtlsTransport::new: {e}"))?;
    let state_rx = dtls.subscribe_state();
    // stands in for the ICE agent's socket read loop (same as src/transports/dtls/tests.rs)
    let psock = sock.clone();
    let pconn = conn.clone();
    let pump = tokio::spawn(async move {
        let mut buf = vec![0u8; 4096];
        let mut marshal = Vec::new();
        loop {
            match psock.recv_from(&mut buf).await {
                Ok((len, from)) => {
                    let pkt = Bytes::copy_from_slice(&buf[..len]);
                    pconn.receive(pkt, from, &mut marshal).await;
                }
                Err(_) => tokio::task::yield_now().await,
            }
        }
    });
    let runner = tokio::spawn(runner);
    Ok(Endpoint {
        sock,
        addr,
        dtls,
        rx,
        state_rx,
        runner: Some(runner),
        pump,
        _sock_tx: sock_tx,
        conn,
    })
}

fn spawn_wire(socks: [Arc<UdpSocket>; 2], ep_addrs: [SocketAddr; 2], hold_spec: Option<(usize, HoldFrom)>) -> Result<Wire, String> {
    let hold_dir = hold_spec.map(|h| h.0);
    let hold_from = hold_spec.map(|h| h.1).unwrap_or(HoldFrom::Ccs);
    let addrs = [
        socks[0].local_addr().map_err(|e| e.to_string())?,
        socks[1].local_addr().map_err(|e| e.to_string())?,
    ];
    let log = Arc::new(parking_lot::Mutex::new(Vec::<Cap>::new()));
    let hold = [
        Arc::new(AtomicBool::new(hold_dir == Some(0))),
        Arc::new(AtomicBool::new(hold_dir == Some(1))),
    ];
    let held_n = [Arc::new(AtomicUsize::new(0)), Arc::new(AtomicUsize::new(0))];
    let ccs_after = [Arc::new(AtomicUsize::new(0)), Arc::new(AtomicUsize::new(0))];
    let fwd_ok = [Arc::new(AtomicUsize::new(0)), Arc::new(AtomicUsize::new(0))];
    let rexmit = [Arc::new(AtomicUsize::new(0)), Arc::new(AtomicUsize::new(0))];
    let (tfwd, trex) = (fwd_ok.clone(), rexmit.clone());
    let (s0tx, s0rx) = watch::channel(0u64);
    let (s1tx, s1rx) = watch::channel(0u64);
    let (cmd_tx, mut cmd_rx) = mpsc::unbounded_channel::<WireCmd>();
    let (tlog, thold, theld, tccs, tsocks) = (log.clone(), hold.clone(), held_n.clone(), ccs_after.clone(), socks.clone());
    let task = tokio::spawn(async move {
        let stx = [s0tx, s1tx];
        let mut b0 = vec![0u8; 4096];
        let mut b1 = vec![0u8; 4096];
        let mut holding = [false; 2];
        let mut released = [false; 2];
        let mut queue: [VecDeque<Vec<u8>>; 2] = [VecDeque::new(), VecDeque::new()];
        let mut after: [HashMap<Vec<u8>, usize>; 2] = [HashMap::new(), HashMap::new()];
        loop {
            let (d, len, src) = tokio::select! {
                biased;
                c = cmd_rx.recv() => {
                    match c {
                        Some(WireCmd::Release(d, ack)) => {
                            thold[d].store(false, Ordering::SeqCst);
                            holding[d] = false;
                            released[d] = true;
                            while let Some(p) = queue[d].pop_front() {
                                if tsocks[1 - d].send_to(&p, ep_addrs[1 - d]).await.is_ok() {
                                    tfwd[d].fetch_add(1, Ordering::SeqCst);
                                }
                            }
                            let _ = ack.send(());
                            continue;
                        }
                        None => return,
                    }
                }
                r = tsocks[0].recv_from(&mut b0) => match r { Ok((l, s)) => (0usize, l, s), Err(_) => continue },
                r = tsocks[1].recv_from(&mut b1) => match r { Ok((l, s)) => (1usize, l, s), Err(_) => continue },
            };
            if src != ep_addrs[d] || len == 0 {
                continue;
            }
            let bytes = if d == 0 { b0[..len].to_vec() } else { b1[..len].to_vec() };
            if bytes[0] == 0xEE && len == 9 {
                let mut id = [0u8; 8];
                id.copy_from_slice(&bytes[1..9]);
                let _ = stx[d].send(u64::from_be_bytes(id));
                continue;
            }
            tlog.lock().push(Cap { dir: d, bytes: bytes.clone() });
            if thold[d].load(Ordering::SeqCst) && (holding[d] || hold_from.hit(&bytes)) {
                holding[d] = true;
                queue[d].push_back(bytes);
                theld[d].fetch_add(1, Ordering::SeqCst);
                continue;
            }
            if released[d] && bytes[0] == 20 {
                tccs[d].fetch_add(1, Ordering::SeqCst);
            }
            if tsocks[1 - d].send_to(&bytes, ep_addrs[1 - d]).await.is_ok() {
                tfwd[d].fetch_add(1, Ordering::SeqCst);
                if released[d] && after[d].len() < 4096 {
                    let n = after[d].entry(bytes).or_insert(0);
                    *n += 1;
                    trex[d].fetch_max(*n, Ordering::SeqCst);
                }
            }
        }
    });
    Ok(Wire {
        socks,
        addrs,
        log,
        hold,
        held_n,
        ccs_after_release: ccs_after,
        fwd_ok,
        rexmit_after_release: rexmit,
        sentinel: [s0rx, s1rx],
        cmd: cmd_tx,
        task,
    })
}

impl Rig {
    /// `hold`: Some((d, from)) = withhold direction d from the first datagram matching `from` on.
    async fn build(certs: &Certs, hold: Option<(usize, HoldFrom)>) -> Result<Rig, String> {
        let (cs, ss, w0, w1, st) = (bind().await?, bind().await?, bind().await?, bind().await?, bind().await?);
        let ep_addrs = [
            cs.local_addr().map_err(|e| e.to_string())?,
            ss.local_addr().map_err(|e| e.to_string())?,
        ];
        let wire = spawn_wire([w0, w1], ep_addrs, hold)?;
        let server = make_endpoint(ss, wire.addrs[1], certs.s.clone(), false, certs.fp_c.clone()).await?;
        let client = make_endpoint(cs, wire.addrs[0], certs.c.clone(), true, certs.fp_s.clone()).await?;
        Ok(Rig {
            ep: [client, server],
            wire,
            stranger: st,
            sentinel_ctr: 0,
        })
    }

    async fn wait_connected(&mut self, i: usize, max: Duration) -> Result<SessionKeys, String> {
        let rx = &mut self.ep[i].state_rx;
        let dl = tokio::time::Instant::now() + max;
        loop {
            let st = rx.borrow().clone();
            match st {
                DtlsState::Connected(c, _) => return Ok(c.keys.clone()),
                DtlsState::Failed | DtlsState::Closed => {
                    return Err(format!("endpoint {i} reached {} during genuine handshake", state_name(&st)));
                }
                _ => {}
            }
            match tokio::time::timeout_at(dl, rx.changed()).await {
                Ok(Ok(())) => {}
                Ok(Err(_)) => return Err("state watch closed".into()),
                Err(_) => return Err(format!("endpoint {i} not Connected within {:?} (watchdog)", max)),
            }
        }
    }

    async fn release(&self, d: usize) -> Result<(), String> {
        let (tx, rx) = oneshot::channel();
        self.wire.cmd.send(WireCmd::Release(d, tx)).map_err(|_| "wire gone".to_string())?;
        tokio::time::timeout(Duration::from_secs(5), rx)
            .await
            .map_err(|_| "wire release timeout".to_string())?
            .map_err(|_| "wire gone".to_string())
    }

    /// Make sure everything endpoint `i` wrote to its socket so far is in the wire log: a sentinel
    /// datagram from the same socket travels behind it.
    async fn flush(&mut self, i: usize) -> Result<(), String> {
        for _ in 0..5 {
            self.sentinel_ctr += 1;
            let id = self.sentinel_ctr;
            let mut d = vec![0xEE];
            d.extend_from_slice(&id.to_be_bytes());
            let _ = self.ep[i].sock.send_to(&d, self.wire.addrs[i]).await;
            let rx = &mut self.wire.sentinel[i];
            let dl = tokio::time::Instant::now() + Duration::from_millis(1500);
            loop {
                if *rx.borrow() >= id {
                    return Ok(());
                }
                match tokio::time::timeout_at(dl, rx.changed()).await {
                    Ok(Ok(())) => {}
                    _ => break,
                }
            }
        }
        Err("wire flush sentinel never arrived".into())
    }

    fn log_snapshot(&self) -> Vec<Cap> {
        self.wire.log.lock().clone()
    }
}

// ------------------------------------------------------------------ observations

#[derive(Default, Clone)]
struct Obs {
    counters: BTreeMap<String, u64>,
    sets: Vec<(String, String)>,
}

impl Obs {
    fn count(&mut self, k: &str, n: u64) {
        *self.counters.entry(k.to_string()).or_insert(0) += n;
    }
    fn seen(&mut self, set: &str, item: impl Into<String>) {
        self.sets.push((set.to_string(), item.into()));
    }
    fn merge_into(&self, r: &mut Report) {
        for (k, n) in &self.counters {
            r.count(k, *n);
        }
        for (s, i) in &self.sets {
            r.seen(s, i.clone());
        }
    }
}

// ------------------------------------------------------------------ receive side

/// Key orientation: (key, iv) under which records *accepted by* endpoint `victim` are sealed
/// (= the peer's write key), and the victim's own write key.
fn peer_write(keys: &SessionKeys, victim: usize) -> (Vec<u8>, Vec<u8>) {
    if victim == 0 {
        (keys.server_write_key.clone(), keys.server_write_iv.clone())
    } else {
        (keys.client_write_key.clone(), keys.client_write_iv.clone())
    }
}
fn own_write(keys: &SessionKeys, ep: usize) -> (Vec<u8>, Vec<u8>) {
    if ep == 0 {
        (keys.client_write_key.clone(), keys.client_write_iv.clone())
    } else {
        (keys.server_write_key.clone(), keys.server_write_iv.clone())
    }
}

struct InjCtx<'a> {
    keys: Option<&'a SessionKeys>,
    victim: usize,
    genuine: &'a [(Rec, Vec<u8>)],     // records the genuine peer sent to the victim (+ plaintext)
    from_victim: &'a [(Rec, Vec<u8>)], // records the victim itself sent
    other_der: &'a [u8],
}

struct BuiltInj {
    datagram: Vec<u8>,
    class: String,
    /// plaintext that may legitimately be delivered because of this injection (replay only)
    allowed: Option<Vec<u8>>,
    /// plaintext of the harness-sealed *authentic* record that precedes the injected record in
    /// the same datagram (pack "after_authentic"); its delivery is allowed, not demanded
    carrier: Option<Vec<u8>>,
}

fn craft_payload(kind: &str, rng: &mut Rng) -> Vec<u8> {
    match kind {
        "sctp" => sctp_packet(rng),
        "close_notify" => vec![1, 0],
        "fatal_alert" => vec![2, 40],
        _ => {
            let n = 1 + rng.usize_below(200);
            rng.bytes(n)
        }
    }
}

fn hs_body(msg: &str, rng: &mut Rng, other_der: &[u8]) -> (u8, Vec<u8>) {
    match msg {
        "finished" => (20, rng.bytes(12)),
        "cert_empty" => (11, vec![0, 0, 0]),
        "cert_other" => {
            let l = other_der.len() as u32;
            let mut b = vec![];
            b.extend_from_slice(&(l + 3).to_be_bytes()[1..4]);
            b.extend_from_slice(&l.to_be_bytes()[1..4]);
            b.extend_from_slice(other_der);
            (11, b)
        }
        "ske_bad" => {
            let mut b = vec![3, 0, 23, 65, 4];
            b.extend_from_slice(&rng.bytes(64));
            b.extend_from_slice(&[4, 3, 0, 8, 0x30, 6, 2, 1, 1, 2, 1, 1]);
            (12, b)
        }
        "hvr" => {
            let mut b = vec![254, 253, 8];
            b.extend_from_slice(&rng.bytes(8));
            (3, b)
        }
        "shd" => (14, vec![]),
        "cke" => {
            let mut b = vec![65, 4];
            b.extend_from_slice(&rng.bytes(64));
            (16, b)
        }
        _ => {
            // "client_hello": version, random, empty session id, empty cookie, 1 suite, null compression
            let mut b = vec![254, 253];
            b.extend_from_slice(&rng.bytes(32));
            b.extend_from_slice(&[0, 0, 0, 2, 0xC0, 0x2B, 1, 0]);
            (1, b)
        }
    }
}

/// Benign first record used to carry a second record past IceConn's first-byte demultiplexer:
/// an empty epoch-0 Handshake record (no handshake message inside).
fn coalesce_prefix() -> Vec<u8> {
    enc_record(22, 0, 0xFFFF, &[])
}

fn build_inj(inj: &Value, cx: &InjCtx, rng: &mut Rng) -> Result<BuiltInj, String> {
    let t = inj["t"].as_str().unwrap_or("");
    let pack = inj["pack"].as_str().unwrap_or("single");
    // pack "after_authentic": the unauthenticated record rides behind a record that DOES
    // authenticate (sealed by the harness under the peer's write key, fresh sequence number)
    let carrier: Option<(Vec<u8>, Vec<u8>)> = if pack == "after_authentic" {
        let keys = cx.keys.ok_or("after_authentic needs keys")?;
        let (pk, piv) = peer_write(keys, cx.victim);
        let mut pt = b"C03-CARR".to_vec();
        pt.extend_from_slice(&rng.bytes(16));
        let seq = (1u64 << 42) + rng.below(1 << 30);
        Some((seal(&pk, &piv, 23, 1, seq, &pt, 0), pt))
    } else {
        None
    };
    let mut b = build_inj_core(inj, cx, rng, t, pack, carrier.as_ref().map(|c| c.0.as_slice()))?;
    b.carrier = carrier.map(|c| c.1);
    Ok(b)
}

fn build_inj_core(inj: &Value, cx: &InjCtx, rng: &mut Rng, t: &str, pack: &str, carrier: Option<&[u8]>) -> Result<BuiltInj, String> {
    let wrap = |rec: Vec<u8>| -> Vec<u8> {
        if let Some(c) = carrier {
            let mut d = c.to_vec();
            d.extend_from_slice(&rec);
            d
        } else if pack == "coalesced" {
            let mut d = coalesce_prefix();
            d.extend_from_slice(&rec);
            d
        } else {
            rec
        }
    };
    let gen_rec = |field: &str, list: &[(Rec, Vec<u8>)]| -> Result<(Rec, Vec<u8>), String> {
        let i = inj[field].as_u64().unwrap_or(0) as usize;
        list.get(i).cloned().ok_or_else(|| format!("no captured record #{i}"))
    };
    match t {
        "craft" => {
            let ctype = inj["ctype"].as_u64().unwrap_or(23) as u8;
            let epoch = inj["epoch"].as_u64().unwrap_or(0) as u16;
            let seq = inj["seq"].as_u64().unwrap_or(0);
            let pl = craft_payload(inj["payload"].as_str().unwrap_or("random"), rng);
            let form = inj["form"].as_str().unwrap_or("raw");
            let body = if form == "gcm_like" {
                let full = ((epoch as u64) << 48) | (seq & 0xFFFF_FFFF_FFFF);
                let mut b = full.to_be_bytes().to_vec();
                b.extend_from_slice(&pl);
                b.extend_from_slice(&rng.bytes(16));
                b
            } else {
                pl
            };
            let class = if epoch == 0 {
                format!("plaintext_{}_epoch0", ct_name(ctype))
            } else {
                format!("forged_{}_epoch{}", ct_name(ctype), epoch)
            };
            Ok(BuiltInj { datagram: wrap(enc_record(ctype, epoch, seq, &body)), class, allowed: None, carrier: None })
        }
        "hs" => {
            let msg = inj["msg"].as_str().unwrap_or("finished");
            let epoch = inj["epoch"].as_u64().unwrap_or(0) as u16;
            let seq = inj["seq"].as_u64().unwrap_or(0);
            let mseq = inj["mseq"].as_u64().unwrap_or(0) as u16;
            let (ty, body) = hs_body(msg, rng, cx.other_der);
            let m = hs_message(ty, mseq, &body);
            let class = if epoch == 0 {
                format!("plaintext_handshake_epoch0({msg})")
            } else {
                format!("forged_handshake_epoch{epoch}({msg})")
            };
            Ok(BuiltInj { datagram: wrap(enc_record(22, epoch, seq, &m)), class, allowed: None, carrier: None })
        }
        "len" => {
            // exact body length (nonce / tag boundaries): the length field is consistent, the
            // body is `blen` bytes; "gcm_like" starts with the explicit nonce a genuine record of
            // that (epoch, seq) would carry (cut short if blen < 8)
            let ctype = inj["ctype"].as_u64().unwrap_or(23) as u8;
            let epoch = inj["epoch"].as_u64().unwrap_or(1) as u16;
            let seq = inj["seq"].as_u64().unwrap_or(0);
            let blen = inj["blen"].as_u64().unwrap_or(0) as usize;
            let mut body = rng.bytes(blen);
            if inj["form"].as_str() == Some("gcm_like") {
                let full = ((epoch as u64) << 48) | (seq & 0xFFFF_FFFF_FFFF);
                let n = blen.min(8);
                body[..n].copy_from_slice(&full.to_be_bytes()[..n]);
            }
            let class = format!("forged_{}_epoch{}_body{}", ct_name(ctype), epoch, len_bucket(blen));
            Ok(BuiltInj { datagram: wrap(enc_record(ctype, epoch, seq, &body)), class, allowed: None, carrier: None })
        }
        "flip" => {
            let (r, _) = gen_rec("rec", cx.genuine)?;
            let bit = inj["bit"].as_u64().unwrap_or(0) as usize;
            let mut d = r.raw.clone();
            if bit / 8 >= d.len() {
                return Err("bit out of range".into());
            }
            d[bit / 8] ^= 0x80 >> (bit % 8);
            Ok(BuiltInj { class: format!("bitflip_{}", region_of_bit(bit, d.len())), datagram: wrap(d), allowed: None, carrier: None })
        }
        "trunc" => {
            let (r, _) = gen_rec("rec", cx.genuine)?;
            let len = (inj["len"].as_u64().unwrap_or(0) as usize).min(r.raw.len().saturating_sub(1));
            let mut d = r.raw[..len].to_vec();
            let fix = inj["fix"].as_bool().unwrap_or(false);
            if fix && len >= 13 {
                let l = (len - 13) as u16;
                d[11..13].copy_from_slice(&l.to_be_bytes());
            }
            Ok(BuiltInj {
                class: if fix { "truncated_len_fixed".into() } else { "truncated".into() },
                datagram: wrap(d),
                allowed: None,
                carrier: None,
            })
        }
        "rekey" => {
            let (r, pt) = gen_rec("rec", cx.genuine)?;
            let keys = cx.keys.ok_or("rekey needs keys")?;
            let (pk, piv) = peer_write(keys, cx.victim);
            let (ok, oiv) = own_write(keys, cx.victim);
            let mode = inj["mode"].as_str().unwrap_or("random_key");
            let d = match mode {
                "wrong_iv" => seal(&pk, &rng.bytes(4), r.ctype, r.epoch, r.seq, &pt, 0),
                "own_key" => seal(&ok, &oiv, r.ctype, r.epoch, r.seq, &pt, 0),
                "aad_len" => seal(&pk, &piv, r.ctype, r.epoch, r.seq, &pt, 1),
                "fresh_seq_random_key" => seal(&rng.bytes(16), &piv, r.ctype, r.epoch, (1 << 41) + r.seq, &pt, 0),
                _ => seal(&rng.bytes(16), &piv, r.ctype, r.epoch, r.seq, &pt, 0),
            };
            Ok(BuiltInj { class: format!("wrong_key({mode})"), datagram: wrap(d), allowed: None, carrier: None })
        }
        "replay" => {
            let (r, pt) = gen_rec("rec", cx.genuine)?;
            Ok(BuiltInj { class: "replay".into(), datagram: wrap(r.raw), allowed: Some(pt), carrier: None })
        }
        "reflect" => {
            let (r, _) = gen_rec("rec", cx.from_victim)?;
            Ok(BuiltInj { class: "reflected".into(), datagram: wrap(r.raw), allowed: None, carrier: None })
        }
        other => Err(format!("unknown injection type {other}")),
    }
}

#[derive(Clone, Debug)]
struct Anomaly {
    lo: usize,
    hi: usize,
    effect: String, // delivered | state_changed | handshake_derailed | receiver_closed | stopped_delivering
    detail: Value,
}

#[derive(Default)]
struct RxOut {
    anomalies: Vec<Anomaly>,
    incon: Option<String>,
    effective: bool,
    classes: Vec<String>,
    datagrams: Vec<Vec<u8>>,
    obs: Obs,
}

struct Recv {
    items: Vec<Vec<u8>>,
    closed: bool,
}

/// Barrier: a genuine marker is submitted at the genuine sender; it reaches the victim's socket
/// after every datagram injected before, and rustrtc's receive path is FIFO (one pump, one
/// unbounded channel, one consumer task), so once the marker is out of the application-data
/// receiver every earlier injection has been processed. Retries with fresh markers (UDP may drop);
/// a marker that never arrives is *inconclusive*, never a violation.
async fn barrier(
    sender: &Arc<DtlsTransport>,
    vrx: &mut mpsc::UnboundedReceiver<Bytes>,
    ctr: &mut u64,
    allowed: &mut HashMap<Vec<u8>, usize>,
    tries: usize,
    per_try: Duration,
) -> Result<Recv, String> {
    let mut items = vec![];
    for _ in 0..tries {
        *ctr += 1;
        let mut m = b"C03-MARK".to_vec();
        m.extend_from_slice(&ctr.to_be_bytes());
        m.extend_from_slice(&[0x5A; 8]);
        *allowed.entry(m.clone()).or_insert(0) += 1;
        if let Err(e) = sender.send(Bytes::from(m.clone())).await {
            return Err(format!("genuine sender cannot send marker: {e}"));
        }
        let dl = tokio::time::Instant::now() + per_try;
        loop {
            match tokio::time::timeout_at(dl, vrx.recv()).await {
                Ok(Some(b)) => {
                    let hit = b[..] == m[..];
                    items.push(b.to_vec());
                    if hit {
                        return Ok(Recv { items, closed: false });
                    }
                }
                Ok(None) => return Ok(Recv { items, closed: true }),
                Err(_) => break,
            }
        }
    }
    Err("marker not delivered (barrier timeout)".into())
}

/// Remove what is allowed from `items`; what remains was delivered without a genuine cause.
fn extras(items: &[Vec<u8>], allowed: &mut HashMap<Vec<u8>, usize>) -> Vec<Vec<u8>> {
    let mut out = vec![];
    for it in items {
        match allowed.get_mut(it) {
            Some(n) if *n > 0 => *n -= 1,
            _ => out.push(it.clone()),
        }
    }
    out
}

fn role(i: usize) -> &'static str {
    if i == 0 { "client" } else { "server" }
}

async fn run_rx(scn: &Value, certs: &Certs) -> RxOut {
    let mut out = RxOut::default();
    match run_rx_inner(scn, certs, &mut out).await {
        Ok(()) => {}
        Err(e) => out.incon = Some(e),
    }
    out
}

/// Panics recorded process-wide so far (rustrtc tasks included; tokio swallows task panics). They
/// are only a *note* in witnesses – the verdict always comes from an observable effect.
static PANICS_SEEN: parking_lot::Mutex<Vec<PanicRecord>> = parking_lot::Mutex::new(Vec::new());

fn panics_so_far() -> Vec<PanicRecord> {
    let mut g = PANICS_SEEN.lock();
    g.extend(take_panics());
    g.clone()
}

fn panic_notes() -> Vec<String> {
    let mut seen: Vec<String> = vec![];
    for p in panics_so_far() {
        let s = format!("{}: {}", norm_location(&p.location), p.message);
        if !seen.contains(&s) {
            seen.push(s);
        }
        if seen.len() >= 3 {
            break;
        }
    }
    seen
}

fn runner_finished(rig: &Rig, i: usize) -> bool {
    rig.ep[i].runner.as_ref().map(|r| r.is_finished()).unwrap_or(true)
}

/// The victim's application-data receiver ended (its sender half was dropped: the task that
/// feeds the upper layer is gone). If the state still reads what it read before the injection
/// this is reported as its own effect; a Closed/Failed state is reported as `state_changed`.
fn closed_anomaly(rig: &Rig, vi: usize, lo: usize, hi: usize, expected_state: &str, wher: &str) -> Option<Anomaly> {
    let st = state_name(&rig.ep[vi].dtls.get_state());
    if st != expected_state {
        return None;
    }
    Some(Anomaly {
        lo,
        hi,
        effect: "receiver_closed".into(),
        detail: json!({"victim_state_still": st, "observed_at": wher, "runner_task_finished": runner_finished(rig, vi),
                       "panics_recorded_process_wide(note)": panic_notes()}),
    })
}

/// Logical witness for "the victim stopped delivering genuine authenticated records" (used when a
/// barrier marker is lost although the victim's state is unchanged). Three fresh genuine markers
/// are submitted (each `send` must return Ok), the wire must have written their datagrams to the
/// victim's socket, the victim's IceConn receive counter must have moved by them (so they were
/// handed to the DTLS layer) – and none may come out of the application-data receiver.
///   Ok(Some(detail)) witness established;  Ok(None) a marker did come out (alive, just slow);
///   Err(..) the witness could not be built (inconclusive).
async fn stopped_witness(
    rig: &mut Rig,
    pi: usize,
    vi: usize,
    ctr: &mut u64,
    allowed: &mut HashMap<Vec<u8>, usize>,
) -> Result<Option<Value>, String> {
    const N: usize = 3;
    rig.flush(pi).await?;
    let c0 = rig.wire.fwd_ok[pi].load(Ordering::SeqCst);
    let r0 = rig.ep[vi].conn.rx_packets.load(Ordering::Relaxed);
    let sender = rig.ep[pi].dtls.clone();
    for _ in 0..N {
        *ctr += 1;
        let mut m = b"C03-MARK".to_vec();
        m.extend_from_slice(&ctr.to_be_bytes());
        m.extend_from_slice(&[0x5A; 8]);
        *allowed.entry(m.clone()).or_insert(0) += 1;
        sender.send(Bytes::from(m)).await.map_err(|e| format!("genuine sender cannot send marker: {e}"))?;
    }
    rig.flush(pi).await?;
    let fwd = rig.wire.fwd_ok[pi].load(Ordering::SeqCst).saturating_sub(c0);
    if fwd < N {
        return Err(format!("only {fwd} of {N} witness markers were forwarded by the wire"));
    }
    let dl = tokio::time::Instant::now() + Duration::from_secs(4);
    loop {
        let got = rig.ep[vi].conn.rx_packets.load(Ordering::Relaxed).saturating_sub(r0);
        if got >= N as u64 {
            break;
        }
        if tokio::time::Instant::now() > dl {
            return Err(format!("only {got} of {N} witness marker datagrams reached the victim's IceConn (lost before rustrtc)"));
        }
        tokio::time::sleep(Duration::from_millis(5)).await;
    }
    let rx_delta = rig.ep[vi].conn.rx_packets.load(Ordering::Relaxed).saturating_sub(r0);
    let dl = tokio::time::Instant::now() + Duration::from_secs(3);
    let mut other = 0usize;
    loop {
        match tokio::time::timeout_at(dl, rig.ep[vi].rx.recv()).await {
            Ok(Some(b)) => {
                if b.starts_with(b"C03-MARK") {
                    return Ok(None);
                }
                other += 1;
            }
            Ok(None) => {
                return Ok(Some(json!({"receiver_closed": true})));
            }
            Err(_) => break,
        }
    }
    Ok(Some(json!({
        "fresh_genuine_markers_submitted_ok": N,
        "marker_datagrams_written_to_victim_socket": fwd,
        "victim_iceconn_rx_packets_delta": rx_delta,
        "markers_delivered_to_upper_layer": 0,
        "other_items_delivered_meanwhile": other,
        "victim_state_still": state_name(&rig.ep[vi].dtls.get_state()),
        "runner_task_finished": runner_finished(rig, vi),
        "panics_recorded_process_wide(note)": panic_notes(),
    })))
}

async fn run_rx_inner(scn: &Value, certs: &Certs, out: &mut RxOut) -> Result<(), String> {
    let vi = if scn["victim"].as_str() == Some("server") { 1usize } else { 0 };
    let pi = 1 - vi;
    let position = scn["position"].as_str().unwrap_or("established").to_string();
    let source = scn["source"].as_str().unwrap_or("peer").to_string();
    let seed = scn["seed"].as_u64().unwrap_or(1);
    let every = scn["barrier_every"].as_u64().unwrap_or(1).max(1) as usize;
    let interleave = scn["interleave"].as_bool().unwrap_or(false);
    let injs: Vec<Value> = scn["inj"].as_array().cloned().unwrap_or_default();
    let sizes = |k: &str| -> Vec<usize> {
        scn[k].as_array().map(|a| a.iter().filter_map(|x| x.as_u64()).map(|x| x as usize).collect()).unwrap_or_default()
    };
    let genuine_sizes = sizes("genuine_sizes");
    // explicit genuine payloads (e.g. bytes that would mean something under another content type)
    let genuine_hex: Vec<Vec<u8>> = scn["genuine_hex"]
        .as_array()
        .map(|a| a.iter().filter_map(|x| x.as_str()).map(unhex).collect())
        .unwrap_or_default();
    let victim_sizes = sizes("victim_sizes");
    let base = Rng::new(seed);
    let mut rng = base.fork(99);

    let established = position == "established";
    let prekey = position == "pre_server" || position == "pre_client";
    let hold_from = scn["hold_from"].as_u64().unwrap_or(if position == "pre_client" { 2 } else { 1 }) as u8;
    if ((position == "window_client" || position == "pre_client") && vi != 0)
        || ((position == "window_server" || position == "pre_server") && vi != 1)
    {
        return Err("position/victim mismatch".into());
    }
    // window_client: the server's CCS+Finished are withheld -> the client owns keys, is Handshaking.
    // window_server: the client's CCS+Finished are withheld (its ClientKeyExchange was delivered
    //                before) -> the server owns keys, is Handshaking; the harness has no keys.
    // pre_server@t : everything the client sends from its first handshake message of type t on is
    //                withheld (1: the server has seen nothing; 16: it answered ClientHello with its
    //                ServerHello flight, ClientKeyExchange not delivered) -> NO keys yet.
    // pre_client@t : everything the server sends from its handshake message of type t on is
    //                withheld (2: ClientHello out, nothing received; 11: ServerHello received;
    //                12: + Certificate; 14: everything but ServerHelloDone received) -> NO keys yet.
    let hold = match position.as_str() {
        "window_client" => Some((1usize, HoldFrom::Ccs)),
        "window_server" => Some((0, HoldFrom::Ccs)),
        "pre_server" => Some((0, HoldFrom::Hs(hold_from))),
        "pre_client" => Some((1, HoldFrom::Hs(hold_from))),
        _ => None,
    };
    let pos_label = if prekey { format!("{position}@{hold_from}") } else { position.clone() };
    let mut rig = Rig::build(certs, hold).await?;
    let wd = Duration::from_secs(12);
    let keys: Option<SessionKeys> = match position.as_str() {
        "established" => {
            let k = rig.wait_connected(1, wd).await?;
            rig.wait_connected(0, wd).await?;
            Some(k)
        }
        "window_client" => Some(rig.wait_connected(1, wd).await?),
        _ => {
            // the datagram that starts the withheld part has reached the wire: everything before
            // it was forwarded, the victim's peer now only retransmits into the hold queue
            let d = hold.map(|h| h.0).unwrap_or(0);
            let dl = tokio::time::Instant::now() + wd;
            while rig.wire.held_n[d].load(Ordering::SeqCst) == 0 {
                if tokio::time::Instant::now() > dl {
                    return Err(format!("the datagram to withhold ({pos_label}) never reached the wire (watchdog)"));
                }
                tokio::time::sleep(Duration::from_millis(2)).await;
            }
            None
        }
    };
    let expected_state = if established { "Connected" } else { "Handshaking" };
    {
        // (a server whose runner task has not started yet still reads New)
        let dl = tokio::time::Instant::now() + Duration::from_secs(3);
        loop {
            let st0 = state_name(&rig.ep[vi].dtls.get_state());
            if st0 == expected_state {
                break;
            }
            if st0 != "New" || tokio::time::Instant::now() > dl {
                return Err(format!("victim is {st0} before any injection (expected {expected_state})"));
            }
            tokio::time::sleep(Duration::from_millis(2)).await;
        }
    }
    out.obs.seen("positions", pos_label.clone());

    let mut allowed: HashMap<Vec<u8>, usize> = HashMap::new();
    let mut mctr: u64 = 0;
    let can_barrier = established || position == "window_client";
    let sender = rig.ep[pi].dtls.clone();
    let vsender = rig.ep[vi].dtls.clone();
    let b_try = Duration::from_millis(if established { 1500 } else { 500 });

    // ---- genuine traffic that will be captured and mutated
    let mut genuine: Vec<(Rec, Vec<u8>)> = vec![];
    let mut from_victim: Vec<(Rec, Vec<u8>)> = vec![];
    if keys.is_some() && (!genuine_sizes.is_empty() || !victim_sizes.is_empty() || !genuine_hex.is_empty()) {
        let k = keys.as_ref().unwrap();
        let mark = rig.wire.log.lock().len();
        for (n, sz) in genuine_sizes.iter().enumerate() {
            let p = base.fork(1000 + n as u64).bytes(*sz);
            *allowed.entry(p.clone()).or_insert(0) += 1;
            sender.send(Bytes::from(p)).await.map_err(|e| format!("genuine send: {e}"))?;
        }
        for p in genuine_hex.iter() {
            *allowed.entry(p.clone()).or_insert(0) += 1;
            sender.send(Bytes::from(p.clone())).await.map_err(|e| format!("genuine send: {e}"))?;
        }
        if established {
            for (n, sz) in victim_sizes.iter().enumerate() {
                let p = base.fork(2000 + n as u64).bytes(*sz);
                vsender.send(Bytes::from(p)).await.map_err(|e| format!("victim send: {e}"))?;
            }
            rig.flush(vi).await?;
        }
        rig.flush(pi).await?;
        let r = barrier(&sender, &mut rig.ep[vi].rx, &mut mctr, &mut allowed, 4, b_try).await?;
        let ex = extras(&r.items, &mut allowed);
        if !ex.is_empty() || r.closed {
            return Err("genuine warm-up traffic not delivered cleanly".into());
        }
        let (pk, piv) = peer_write(k, vi);
        let (ok, oiv) = own_write(k, vi);
        for c in rig.log_snapshot().iter().skip(mark) {
            for r in parse_records(&c.bytes) {
                if r.ctype != 23 {
                    continue;
                }
                if c.dir == pi {
                    if let Some(pt) = open(&pk, &piv, &r) {
                        if !pt.starts_with(b"C03-MARK") {
                            genuine.push((r, pt));
                        }
                    }
                } else if let Some(pt) = open(&ok, &oiv, &r) {
                    from_victim.push((r, pt));
                }
            }
        }
        if genuine.len() != genuine_sizes.len() + genuine_hex.len() {
            return Err(format!("captured {} genuine records, expected {}", genuine.len(), genuine_sizes.len() + genuine_hex.len()));
        }
        out.obs.count("genuine_records_captured_and_opened", (genuine.len() + from_victim.len()) as u64);
    }

    // ---- injections
    let cx = InjCtx {
        keys: keys.as_ref(),
        victim: vi,
        genuine: &genuine,
        from_victim: &from_victim,
        other_der: &certs.other_der,
    };
    let src_sock = if source == "stranger" { rig.stranger.clone() } else { rig.wire.socks[vi].clone() };
    let vaddr = rig.ep[vi].addr;
    let mut built: Vec<BuiltInj> = vec![];
    // `inj_base`: index of inj[0] in the scenario this one was narrowed from, so that a narrowed
    // scenario rebuilds byte-identical injections (random bodies / lengths are forked per index)
    let inj_base = scn["inj_base"].as_u64().unwrap_or(0);
    for (n, inj) in injs.iter().enumerate() {
        let mut r = rng.fork(inj_base + n as u64);
        built.push(build_inj(inj, &cx, &mut r)?);
    }
    out.classes = built.iter().map(|b| b.class.clone()).collect();
    out.datagrams = built.iter().map(|b| b.datagram.clone()).collect();

    let mut dead = false;
    let mut all_reached = true;
    let mut lo = 0usize;
    while lo < built.len() && !dead {
        let hi = (lo + every).min(built.len());
        let rx0 = rig.ep[vi].conn.rx_packets.load(Ordering::Relaxed);
        let mut n_sent = 0u64;
        for (bi, b) in built[lo..hi].iter().enumerate() {
            if let Some(p) = &b.allowed {
                *allowed.entry(p.clone()).or_insert(0) += 1;
            }
            if let Some(p) = &b.carrier {
                *allowed.entry(p.clone()).or_insert(0) += 1;
            }
            if b.datagram.is_empty() {
                continue; // a zero-length UDP datagram carries nothing to judge
            }
            src_sock.send_to(&b.datagram, vaddr).await.map_err(|e| format!("inject: {e}"))?;
            n_sent += 1;
            out.obs.count("injected_datagrams", 1);
            out.obs.seen("classes_injected", format!("{}@{}/{}", b.class, position, source));
            if interleave && established {
                // genuine traffic between the injections (its delivery is allowed, not demanded:
                // UDP may drop; a transport that stops delivering is caught at the barrier)
                let p = base.fork(3000 + (lo + bi) as u64).bytes(1 + (lo + bi) * 37 % 300);
                *allowed.entry(p.clone()).or_insert(0) += 1;
                sender.send(Bytes::from(p)).await.map_err(|e| format!("interleaved genuine send: {e}"))?;
                out.obs.count("genuine_payloads_interleaved", 1);
            }
        }
        // barrier + state sample
        let mut delivered_extra: Vec<Vec<u8>> = vec![];
        let mut closed = false;
        if can_barrier {
            match barrier(&sender, &mut rig.ep[vi].rx, &mut mctr, &mut allowed, if established { 4 } else { 1 }, b_try).await {
                Ok(r) => {
                    out.obs.count("barriers", 1);
                    delivered_extra = extras(&r.items, &mut allowed);
                    closed = r.closed;
                }
                Err(e) => {
                    if established {
                        // marker lost although the peer is genuine: look at the state, then try
                        // to build a logical witness before giving up
                        let st = state_name(&rig.ep[vi].dtls.get_state());
                        if st == expected_state {
                            match stopped_witness(&mut rig, pi, vi, &mut mctr, &mut allowed).await {
                                Ok(Some(detail)) if detail["receiver_closed"] == json!(true) => closed = true,
                                Ok(Some(detail)) => {
                                    out.anomalies.push(Anomaly { lo, hi, effect: "stopped_delivering".into(), detail });
                                }
                                Ok(None) => return Err(format!("{e} (a later marker was delivered: slow, not stopped)")),
                                Err(e2) => return Err(format!("{e}; no witness: {e2}")),
                            }
                        }
                        dead = true;
                    } else {
                        // best effort only (a client may legitimately refuse data before Finished)
                        tokio::time::sleep(Duration::from_millis(50)).await;
                        loop {
                            match rig.ep[vi].rx.try_recv() {
                                Ok(b) => delivered_extra.push(b.to_vec()),
                                Err(mpsc::error::TryRecvError::Empty) => break,
                                Err(mpsc::error::TryRecvError::Disconnected) => {
                                    closed = true;
                                    break;
                                }
                            }
                        }
                        delivered_extra = extras(&delivered_extra, &mut allowed);
                    }
                }
            }
        } else {
            // No keys at the harness (window_server) or at nobody (pre-key): no marker possible.
            // The withheld direction is the victim's only genuine source of datagrams, so its
            // IceConn receive counter moves by exactly the injected datagrams: wait until all of
            // them were handed to the DTLS layer, give the DTLS task a moment, then sample. What
            // the victim does with them later is caught by the marker after the release (same
            // FIFO path).
            let want = rx0 + n_sent;
            let dl = tokio::time::Instant::now() + Duration::from_secs(3);
            while rig.ep[vi].conn.rx_packets.load(Ordering::Relaxed) < want && tokio::time::Instant::now() < dl {
                tokio::time::sleep(Duration::from_millis(2)).await;
            }
            if rig.ep[vi].conn.rx_packets.load(Ordering::Relaxed) < want {
                all_reached = false;
            }
            tokio::time::sleep(Duration::from_millis(20)).await;
            loop {
                match rig.ep[vi].rx.try_recv() {
                    Ok(b) => delivered_extra.push(b.to_vec()),
                    Err(mpsc::error::TryRecvError::Empty) => break,
                    Err(mpsc::error::TryRecvError::Disconnected) => {
                        closed = true;
                        break;
                    }
                }
            }
        }
        out.obs.count("state_samples", 1);
        if !delivered_extra.is_empty() {
            out.anomalies.push(Anomaly {
                lo,
                hi,
                effect: "delivered".into(),
                detail: json!({"delivered": delivered_extra.iter().take(3).map(|d| hex_cap(d, 48)).collect::<Vec<_>>(), "n": delivered_extra.len()}),
            });
        }
        if closed {
            if let Some(a) = closed_anomaly(&rig, vi, lo, hi, expected_state, "after the injection batch") {
                out.anomalies.push(a);
            }
            dead = true;
        }
        let st = state_name(&rig.ep[vi].dtls.get_state());
        let wst = state_name(&rig.ep[vi].state_rx.borrow().clone());
        out.obs.seen("victim_states_sampled", st);
        if st != expected_state || wst != expected_state {
            out.anomalies.push(Anomaly {
                lo,
                hi,
                effect: "state_changed".into(),
                detail: json!({"from": expected_state, "to": if st != expected_state { st } else { wst }, "receiver_closed": closed}),
            });
            dead = true;
        }
        lo = hi;
    }

    // ---- positive control: an *authentic* record from the same source must get through, which
    //      shows that this source's datagrams do reach the record layer (non-vacuity).
    if !dead && keys.is_some() && established {
        let k = keys.as_ref().unwrap();
        let (pk, piv) = peer_write(k, vi);
        let mut ctl = b"C03-CTRL".to_vec();
        ctl.extend_from_slice(&rng.bytes(16));
        *allowed.entry(ctl.clone()).or_insert(0) += 1;
        let d = seal(&pk, &piv, 23, 1, (1 << 40) + rng.below(1 << 20), &ctl, 0);
        src_sock.send_to(&d, vaddr).await.map_err(|e| format!("control inject: {e}"))?;
        let r = barrier(&sender, &mut rig.ep[vi].rx, &mut mctr, &mut allowed, 4, b_try).await?;
        let got = r.items.iter().any(|i| i == &ctl);
        let ex = extras(&r.items, &mut allowed);
        if !ex.is_empty() {
            out.anomalies.push(Anomaly { lo: 0, hi: built.len(), effect: "delivered".into(), detail: json!({"late": true, "delivered": ex.iter().take(3).map(|d| hex_cap(d, 48)).collect::<Vec<_>>()}) });
        }
        if r.closed {
            if let Some(a) = closed_anomaly(&rig, vi, 0, built.len(), expected_state, "at the closing control barrier") {
                out.anomalies.push(a);
            }
        }
        out.obs.count(if got { "control_authentic_record_delivered" } else { "control_authentic_record_not_delivered" }, 1);
        out.effective = got;
        // replay accounting: allowances that were consumed = replays accepted
        let mut accepted = 0u64;
        for b in &built {
            if let Some(p) = &b.allowed {
                if allowed.get(p).copied().unwrap_or(0) == 0 {
                    accepted += 1;
                }
            }
        }
        if accepted > 0 {
            out.obs.count("replayed_genuine_record_delivered_again(observation)", accepted);
        }
        let carried = built.iter().filter(|b| b.carrier.as_ref().map(|p| allowed.get(p).copied().unwrap_or(0) == 0).unwrap_or(false)).count();
        if carried > 0 {
            out.obs.count("authentic_carrier_record_delivered(injection rode behind it)", carried as u64);
        }
    }

    // ---- handshake positions: release the withheld flight; the handshake must still complete
    if !established && !dead {
        let d = hold.map(|h| h.0).unwrap_or(0);
        rig.release(d).await?;
        let (first, second) = if position == "window_client" { (0usize, 1usize) } else { (1, 0) };
        let r1 = rig.wait_connected(first, Duration::from_secs(if prekey { 10 } else { 6 })).await;
        let r2 = if r1.is_ok() { rig.wait_connected(second, Duration::from_secs(if prekey { 10 } else { 6 })).await } else { r1.clone() };
        if r1.is_ok() && r2.is_ok() {
            // final marker: nothing but genuine data may come out (it travels behind everything
            // that was injected, so records the victim queued and acted on later show up here)
            let r = barrier(&sender, &mut rig.ep[vi].rx, &mut mctr, &mut allowed, 4, Duration::from_millis(1500)).await?;
            let ex = extras(&r.items, &mut allowed);
            if !ex.is_empty() {
                out.anomalies.push(Anomaly { lo: 0, hi: built.len(), effect: "delivered".into(), detail: json!({"after_handshake_completed": true, "delivered": ex.iter().take(3).map(|d| hex_cap(d, 48)).collect::<Vec<_>>(), "n": ex.len()}) });
            }
            if r.closed {
                if let Some(a) = closed_anomaly(&rig, vi, 0, built.len(), "Connected", "after the handshake completed") {
                    out.anomalies.push(a);
                }
            }
            // the marker travelled behind everything: the victim must (still) be Connected
            let st = state_name(&rig.ep[vi].dtls.get_state());
            if st != "Connected" {
                out.anomalies.push(Anomaly { lo: 0, hi: built.len(), effect: "state_changed".into(), detail: json!({"from": "Connected (handshake completed after release)", "to": st}) });
            }
            out.effective = !built.is_empty() && all_reached;
            out.obs.count(if prekey { "prekey_handshake_completed_after_release" } else { "window_handshake_completed_after_release" }, 1);
            if prekey && all_reached {
                out.obs.count("prekey_injections_counted_by_victim_iceconn_before_release", built.len() as u64);
            }
        } else {
            // what came out of the receiver meanwhile / whether it ended
            let mut late: Vec<Vec<u8>> = vec![];
            let mut rx_closed = false;
            loop {
                match rig.ep[vi].rx.try_recv() {
                    Ok(b) => late.push(b.to_vec()),
                    Err(mpsc::error::TryRecvError::Empty) => break,
                    Err(mpsc::error::TryRecvError::Disconnected) => {
                        rx_closed = true;
                        break;
                    }
                }
            }
            let late = extras(&late, &mut allowed);
            if !late.is_empty() {
                out.anomalies.push(Anomaly { lo: 0, hi: built.len(), effect: "delivered".into(), detail: json!({"after_release": true, "delivered": late.iter().take(3).map(|d| hex_cap(d, 48)).collect::<Vec<_>>(), "n": late.len()}) });
            }
            let st = state_name(&rig.ep[vi].dtls.get_state());
            if st == "Failed" || st == "Closed" {
                out.anomalies.push(Anomaly { lo: 0, hi: built.len(), effect: "state_changed".into(), detail: json!({"from": "Handshaking", "to": st, "after_release": true}) });
            } else if rx_closed && st == "Handshaking" {
                if let Some(a) = closed_anomaly(&rig, vi, 0, built.len(), "Handshaking", "after the release (handshake did not complete)") {
                    out.anomalies.push(a);
                }
            } else if position == "window_client" {
                // logical witness: a marker submitted by the (Connected) server *behind* its final
                // flight came out of the client, so the client has processed that flight – and is
                // still not Connected. The server never retransmits once Connected, so the
                // handshake cannot complete any more.
                match barrier(&sender, &mut rig.ep[vi].rx, &mut mctr, &mut allowed, 2, Duration::from_millis(800)).await {
                    Ok(_) => out.anomalies.push(Anomaly { lo: 0, hi: built.len(), effect: "handshake_derailed".into(), detail: json!({"victim_state": st, "witness": "marker behind the released final flight was delivered"}) }),
                    Err(e) => return Err(format!("handshake incomplete after release, no witness: {e}")),
                }
            } else {
                // retry witness (DESIGN §2.3): after the release the sender's current flight
                // reached the victim's socket >= 3 more times (window_server: the client's CCS;
                // pre-key: any byte-identical datagram of the withheld direction)
                let ctr = if prekey { &rig.wire.rexmit_after_release[d] } else { &rig.wire.ccs_after_release[0] };
                let dl = tokio::time::Instant::now() + Duration::from_secs(if prekey { 8 } else { 5 });
                while ctr.load(Ordering::SeqCst) < 3 && tokio::time::Instant::now() < dl {
                    tokio::time::sleep(Duration::from_millis(50)).await;
                }
                tokio::time::sleep(Duration::from_millis(100)).await;
                let n = ctr.load(Ordering::SeqCst);
                let st = state_name(&rig.ep[vi].dtls.get_state());
                if n >= 3 && st == "Handshaking" {
                    out.anomalies.push(Anomaly { lo: 0, hi: built.len(), effect: "handshake_derailed".into(), detail: json!({"victim_state": st, "witness": format!("the peer's flight was delivered {n} more times after release")}) });
                } else if st == "Failed" || st == "Closed" {
                    out.anomalies.push(Anomaly { lo: 0, hi: built.len(), effect: "state_changed".into(), detail: json!({"from": "Handshaking", "to": st, "after_release": true}) });
                } else if st != "Connected" {
                    return Err("handshake incomplete after release, no witness".into());
                } else if prekey && out.anomalies.is_empty() {
                    return Err("victim Connected after release but its peer is not (watchdog)".into());
                }
            }
        }
    }
    if !out.anomalies.is_empty() {
        out.effective = true;
    }
    let _ = rig.wire.hold[0].load(Ordering::SeqCst);
    Ok(())
}

// ------------------------------------------------------------------ send side

#[derive(Default)]
struct TxOut {
    violations: Vec<(String, String, Value)>, // key, what, witness
    incon: Option<String>,
    effective: bool,
    obs: Obs,
}

/// Can the records (already in sequence order) be assigned to the payloads so that every
/// payload is exactly the concatenation of its records, in order? Depth-first with backtracking
/// (ambiguity only arises for very short plaintexts).
fn tile(recs: &[Vec<u8>], payloads: &[Vec<u8>], cursors: &mut Vec<usize>, i: usize, budget: &mut u64) -> bool {
    if i == recs.len() {
        return payloads.iter().zip(cursors.iter()).all(|(p, c)| *c == p.len());
    }
    if *budget == 0 {
        return false;
    }
    *budget -= 1;
    let r = &recs[i];
    if r.is_empty() {
        return tile(recs, payloads, cursors, i + 1, budget);
    }
    for k in 0..payloads.len() {
        let c = cursors[k];
        if payloads[k].len() >= c + r.len() && payloads[k][c..c + r.len()] == r[..] {
            cursors[k] += r.len();
            if tile(recs, payloads, cursors, i + 1, budget) {
                return true;
            }
            cursors[k] -= r.len();
        }
    }
    false
}

async fn run_tx(scn: &Value, certs: &Certs) -> TxOut {
    let mut out = TxOut::default();
    if let Err(e) = run_tx_inner(scn, certs, &mut out).await {
        out.incon = Some(e);
    }
    out
}

async fn run_tx_inner(scn: &Value, certs: &Certs, out: &mut TxOut) -> Result<(), String> {
    let senders: Vec<usize> = match scn["senders"].as_str().unwrap_or("client") {
        "server" => vec![1],
        "both" => vec![0, 1],
        _ => vec![0],
    };
    let eager = scn["eager"].as_bool().unwrap_or(false);
    let do_close = scn["close"].as_bool().unwrap_or(true);
    let seed = scn["seed"].as_u64().unwrap_or(1);
    let plan: Vec<Vec<usize>> = scn["payloads"]
        .as_array()
        .map(|a| a.iter().map(|t| t.as_array().map(|x| x.iter().filter_map(|v| v.as_u64()).map(|v| v as usize).collect()).unwrap_or_default()).collect())
        .unwrap_or_default();
    let base = Rng::new(seed);
    let mut rig = Rig::build(certs, None).await?;

    // payload bytes: random; first byte made distinct per payload where possible (keeps the tiling
    // unambiguous without assuming anything about how rustrtc splits)
    let mut submitted: [Vec<Vec<u8>>; 2] = [vec![], vec![]];
    let mut handles = vec![];
    for &r in &senders {
        let mut uniq = 0u8;
        for (t, sizes) in plan.iter().enumerate() {
            let mut mine = vec![];
            for (n, sz) in sizes.iter().enumerate() {
                let mut p = base.fork(((r as u64) << 32) | ((t as u64) << 16) | n as u64).bytes(*sz);
                if !p.is_empty() {
                    p[0] = uniq;
                    uniq = uniq.wrapping_add(1);
                }
                mine.push(p);
            }
            submitted[r].extend(mine.iter().cloned());
            let d = rig.ep[r].dtls.clone();
            if eager {
                // start hammering send() before the handshake is finished: it fails until the
                // transport says Connected, and the first success races the end of the handshake
                handles.push(tokio::spawn(async move {
                    let mut errs_after_ok = 0u32;
                    let mut ok_seen = false;
                    for p in mine {
                        let mut spins = 0u64;
                        loop {
                            match d.send(Bytes::from(p.clone())).await {
                                Ok(()) => {
                                    ok_seen = true;
                                    break;
                                }
                                Err(_) if !ok_seen && spins < 20_000_000 => {
                                    spins += 1;
                                    if spins % 64 == 0 {
                                        tokio::task::yield_now().await;
                                    }
                                }
                                Err(_) => {
                                    errs_after_ok += 1;
                                    break;
                                }
                            }
                        }
                    }
                    errs_after_ok
                }));
            }
        }
    }
    let wd = Duration::from_secs(12);
    let keys = rig.wait_connected(1, wd).await?;
    rig.wait_connected(0, wd).await?;
    if !eager {
        for &r in &senders {
            let mut idx = 0usize;
            for sizes in plan.iter() {
                let mine: Vec<Vec<u8>> = submitted[r][idx..idx + sizes.len()].to_vec();
                idx += sizes.len();
                let d = rig.ep[r].dtls.clone();
                handles.push(tokio::spawn(async move {
                    let mut errs = 0u32;
                    for p in mine {
                        if d.send(Bytes::from(p)).await.is_err() {
                            errs += 1;
                        }
                    }
                    errs
                }));
            }
        }
    }
    // hostile network, send side: while the payloads are going out, genuine handshake datagrams of
    // the PEER (its ClientHello / ServerHello flight, its CCS + Finished) captured earlier are
    // delivered again to the sender - late duplicates of association-setup packets. Whatever the
    // sender answers (a re-sent final flight, an alert, nothing) is on the wire log under the same
    // write key as the payload records and falls under the same uniqueness oracle below.
    let replay = scn["replay"].as_str().unwrap_or("none").to_string();
    let mut replay_task = None;
    if replay != "none" && !eager {
        let snap = rig.log_snapshot();
        let mut jobs: Vec<(Arc<UdpSocket>, SocketAddr, Vec<Vec<u8>>)> = vec![];
        for &r in &senders {
            let dgrams: Vec<Vec<u8>> = snap
                .iter()
                .filter(|c| c.dir == 1 - r && !c.bytes.is_empty())
                .filter(|c| match replay.as_str() {
                    "hello" => c.bytes[0] == 22 && c.bytes.len() > 4 && c.bytes[3] == 0 && c.bytes[4] == 0,
                    "final" => c.bytes[0] == 20 || (c.bytes[0] == 22 && c.bytes.len() > 4 && (c.bytes[3] != 0 || c.bytes[4] != 0)),
                    _ => c.bytes[0] == 20 || c.bytes[0] == 22,
                })
                .map(|c| c.bytes.clone())
                .collect();
            out.obs.count("tx_replayed_peer_handshake_datagrams_per_round", dgrams.len() as u64);
            jobs.push((rig.wire.socks[r].clone(), rig.ep[r].addr, dgrams));
        }
        let rounds = scn["replay_rounds"].as_u64().unwrap_or(3);
        replay_task = Some(tokio::spawn(async move {
            let mut sent = 0u64;
            for _ in 0..rounds {
                for (sock, to, dgrams) in &jobs {
                    for d in dgrams {
                        if sock.send_to(d, *to).await.is_ok() {
                            sent += 1;
                        }
                        tokio::task::yield_now().await;
                    }
                }
                tokio::time::sleep(Duration::from_millis(3)).await;
            }
            sent
        }));
    }
    let mut send_errs = 0u32;
    for h in handles {
        match tokio::time::timeout(Duration::from_secs(40), h).await {
            Ok(Ok(e)) => send_errs += e,
            Ok(Err(_)) => return Err("sender task panicked/aborted".into()),
            Err(_) => return Err("sender task watchdog".into()),
        }
    }
    if send_errs > 0 {
        return Err(format!("{send_errs} send() calls returned Err (payload may be partly on the wire)"));
    }
    if let Some(t) = replay_task {
        match tokio::time::timeout(Duration::from_secs(20), t).await {
            Ok(Ok(n)) => out.obs.count("tx_replayed_peer_handshake_datagrams_delivered", n),
            _ => return Err("replay task watchdog".into()),
        }
        // let the sender answer the last round before its log is read; one more payload after the
        // replays so that a number handed out to an answer is also contended by a later record
        tokio::time::sleep(Duration::from_millis(30)).await;
        for &r in &senders {
            let mut p = base.fork(0xFEED_0000 | r as u64).bytes(40);
            p[0] = 0xFD;
            submitted[r].push(p.clone());
            if rig.ep[r].dtls.send(Bytes::from(p)).await.is_err() {
                return Err("send() after the replays returned Err".into());
            }
        }
        tokio::time::sleep(Duration::from_millis(10)).await;
    }
    for &r in &senders {
        rig.flush(r).await?;
    }
    if do_close {
        for &r in &senders {
            rig.ep[r].dtls.close();
            if let Some(h) = rig.ep[r].runner.take() {
                if tokio::time::timeout(Duration::from_secs(5), h).await.is_err() {
                    return Err("runner did not end after close() (watchdog)".into());
                }
            }
            rig.flush(r).await?;
        }
    }
    let log = rig.log_snapshot();
    out.obs.count("datagrams_captured", log.len() as u64);

    for &r in &senders {
        let (wk, wiv) = own_write(&keys, r);
        let scn_tag = json!({"sender": role(r)});
        // (a) nothing of any payload in clear: 16-byte windows
        let mut windows: HashSet<[u8; 16]> = HashSet::new();
        for p in &submitted[r] {
            for w in p.windows(16) {
                let mut a = [0u8; 16];
                a.copy_from_slice(w);
                windows.insert(a);
            }
        }
        let mut recs: Vec<(usize, Rec)> = vec![];
        for (di, c) in log.iter().enumerate() {
            if c.dir != r {
                continue;
            }
            if !windows.is_empty() {
                for w in c.bytes.windows(16) {
                    let mut a = [0u8; 16];
                    a.copy_from_slice(w);
                    if windows.contains(&a) {
                        out.violations.push((
                            "tx=payload_bytes_in_clear".into(),
                            "16 consecutive bytes of a submitted application payload appear in clear in a transmitted datagram".into(),
                            json!({"sender": role(r), "datagram_index": di, "datagram": hex_cap(&c.bytes, 64)}),
                        ));
                        break;
                    }
                }
            }
            let parsed = parse_records(&c.bytes);
            let consumed: usize = parsed.iter().map(|x| x.raw.len()).sum();
            if consumed != c.bytes.len() {
                out.obs.count("tx_datagram_with_unparsable_tail(observation)", 1);
            }
            for x in parsed {
                recs.push((di, x));
            }
        }
        // (b) per-record checks
        let mut app: Vec<(u16, u64, Vec<u8>)> = vec![];
        let mut protected: Vec<(&Rec, bool)> = vec![]; // epoch>=1 records, opened?
        for (di, x) in &recs {
            out.obs.seen("tx_record_kinds", format!("{}@epoch{}", ct_name(x.ctype), x.epoch.min(2)));
            if x.ctype == 23 {
                if x.epoch == 0 {
                    out.violations.push((
                        "tx=appdata_epoch0".into(),
                        "an ApplicationData record left with epoch 0 (the peer treats epoch 0 as unprotected)".into(),
                        json!({"sender": role(r), "datagram_index": di, "record": hex_cap(&x.raw, 48)}),
                    ));
                    continue;
                }
                match open(&wk, &wiv, x) {
                    Some(pt) => {
                        out.obs.count("tx_appdata_records_opened", 1);
                        if pt.len() > PATH_LIMIT {
                            out.violations.push((
                                "tx=record_over_path_limit".into(),
                                format!("ApplicationData record carries {} B > {} B path limit", pt.len(), PATH_LIMIT),
                                json!({"sender": role(r), "plaintext_len": pt.len(), "epoch": x.epoch, "seq": x.seq}),
                            ));
                        }
                        out.obs.seen("tx_record_plaintext_len_bucket", format!("{}", (pt.len() + 199) / 200 * 200));
                        app.push((x.epoch, x.seq, pt));
                        protected.push((x, true));
                    }
                    None => {
                        out.violations.push((
                            "tx=appdata_not_authentic_under_write_key".into(),
                            "an ApplicationData record does not open under the sender's negotiated write key".into(),
                            json!({"sender": role(r), "datagram_index": di, "epoch": x.epoch, "seq": x.seq, "record": hex_cap(&x.raw, 48)}),
                        ));
                        protected.push((x, false));
                    }
                }
            } else if x.epoch >= 1 {
                let ok = open(&wk, &wiv, x).is_some();
                if x.ctype == 21 {
                    out.obs.count(if ok { "tx_alert_records_opened" } else { "tx_alert_not_openable(observation)" }, 1);
                }
                protected.push((x, ok));
            } else if x.ctype == 21 {
                out.obs.count("tx_alert_epoch0(observation)", 1);
            }
        }
        // (c) uniqueness of (epoch, seq) and of the explicit nonce among byte-different records
        let mut by_seq: HashMap<(u16, u64), &Rec> = HashMap::new();
        let mut by_nonce: HashMap<Vec<u8>, &Rec> = HashMap::new();
        let mut reported = HashSet::new();
        for (x, opened) in &protected {
            let mut clash: Option<(&Rec, &str)> = None;
            match by_seq.get(&(x.epoch, x.seq)) {
                Some(o) if o.raw != x.raw => clash = Some((o, "sequence_number")),
                Some(_) => out.obs.count("tx_identical_retransmission(observation)", 1),
                None => {
                    by_seq.insert((x.epoch, x.seq), x);
                }
            }
            if *opened && x.body.len() >= 8 {
                match by_nonce.get(&x.body[0..8]) {
                    Some(o) if o.raw != x.raw => clash = Some((o, "explicit_nonce")),
                    Some(_) => {}
                    None => {
                        by_nonce.insert(x.body[0..8].to_vec(), x);
                    }
                }
            }
            if let Some((o, what)) = clash {
                let kinds = [o.ctype, x.ctype];
                let tag = if kinds.contains(&21) {
                    "close_notify"
                } else if kinds.contains(&22) {
                    "handshake"
                } else {
                    "appdata"
                };
                let key = format!("tx=nonce_reuse,{tag}");
                if reported.insert(key.clone()) {
                    out.violations.push((
                        key,
                        format!("two different records sent under one write key share the {what} (epoch {}, seq {})", x.epoch, x.seq),
                        json!({"sender": role(r), "epoch": x.epoch, "seq": x.seq, "shared": what,
                               "record_a": {"type": o.ctype, "len": o.raw.len(), "head": hex_cap(&o.raw, 29)},
                               "record_b": {"type": x.ctype, "len": x.raw.len(), "head": hex_cap(&x.raw, 29)}}),
                    ));
                }
            }
        }
        out.obs.count("tx_protected_records_checked_for_nonce", protected.len() as u64);
        // (d) plaintexts concatenate to the submitted payloads (sequence order)
        app.sort_by_key(|a| (a.0, a.1));
        let pts: Vec<Vec<u8>> = app.iter().map(|a| a.2.clone()).collect();
        let mut cursors = vec![0usize; submitted[r].len()];
        let mut budget = 2_000_000u64;
        let ok = tile(&pts, &submitted[r], &mut cursors, 0, &mut budget);
        // a kernel drop between rustrtc's socket and the wire socket would show as a gap in the
        // captured sequence numbers: then the capture, not rustrtc, is incomplete
        let mut gaps = 0u64;
        for w in app.windows(2) {
            if w[0].0 == w[1].0 && w[1].1 > w[0].1 + 1 {
                gaps += w[1].1 - w[0].1 - 1;
            }
        }
        // (the close_notify / other protected records legitimately occupy numbers too)
        let others = protected.iter().filter(|(x, _)| x.ctype != 23).count() as u64;
        if !ok && budget == 0 {
            out.incon = Some("tiling search budget exhausted".into());
        } else if !ok && gaps > others {
            out.incon = Some(format!("capture incomplete: {gaps} sequence numbers missing on the wire log"));
        } else if !ok && out.violations.iter().all(|v| !v.0.starts_with("tx=appdata")) {
            let total_sub: usize = submitted[r].iter().map(|p| p.len()).sum();
            let total_rec: usize = pts.iter().map(|p| p.len()).sum();
            out.violations.push((
                "tx=payloads_not_recoverable".into(),
                "the plaintexts of the transmitted ApplicationData records (sequence order) do not concatenate to the submitted payloads".into(),
                json!({"sender": role(r), "submitted_bytes": total_sub, "record_plaintext_bytes": total_rec, "records": pts.len(), "payloads": submitted[r].len()}),
            ));
        }
        if !pts.is_empty() {
            out.effective = true;
        }
        let _ = scn_tag;
    }
    Ok(())
}

// ------------------------------------------------------------------ scenario evaluation

struct Eval {
    scenario: Value,
    nontrivial: Option<u64>,
    verdict: Verdict,
}

fn rx_key(class: &str, effect: &str, position: &str) -> String {
    if position == "established" {
        format!("rx={class},{effect}")
    } else if position.starts_with("pre_") {
        format!("rx={class},{effect},pos=prekey")
    } else {
        format!("rx={class},{effect},pos=handshake")
    }
}

fn sub_scenario(scn: &Value, lo: usize, hi: usize) -> Value {
    let mut s = scn.clone();
    let inj: Vec<Value> = scn["inj"].as_array().map(|a| a[lo.min(a.len())..hi.min(a.len())].to_vec()).unwrap_or_default();
    s["inj"] = json!(inj);
    s["inj_base"] = json!(scn["inj_base"].as_u64().unwrap_or(0) + lo as u64);
    s["barrier_every"] = json!(1);
    s
}

/// Run one receive-side scenario. An anomaly seen in a multi-injection scenario is narrowed by
/// bisection (fresh rig each time) to a single injection and must reproduce there; otherwise the
/// scenario is inconclusive. This both pinpoints the witness and guards against scheduling noise.
async fn eval_rx(scn: Value, certs: Arc<Certs>) -> (Vec<Eval>, Obs) {
    let out = run_rx(&scn, &certs).await;
    let mut obs = out.obs.clone();
    let mut evals = vec![];
    if let Some(e) = out.incon {
        evals.push(Eval { scenario: scn, nontrivial: None, verdict: Verdict::Inconclusive(e) });
        return (evals, obs);
    }
    if out.anomalies.is_empty() {
        let h = if out.effective { Some(hash_value(&scn)) } else { None };
        evals.push(Eval { scenario: scn, nontrivial: h, verdict: Verdict::Held });
        return (evals, obs);
    }
    let n_inj = scn["inj"].as_array().map(|a| a.len()).unwrap_or(0);
    // "stopped_delivering" rests on genuine markers that did NOT come out: it only counts if an
    // identical rig without any injection does deliver its markers and its authentic control record.
    if out.anomalies.iter().any(|a| a.effect == "stopped_delivering") {
        let c = run_rx(&sub_scenario(&scn, 0, 0), &certs).await;
        obs.count("control_runs_without_injection", 1);
        if c.incon.is_some() || !c.effective || !c.anomalies.is_empty() {
            evals.push(Eval {
                scenario: scn,
                nontrivial: None,
                verdict: Verdict::Inconclusive(format!(
                    "genuine markers were not delivered after the injection, but the control rig without injection is not clean either ({})",
                    c.incon.unwrap_or_else(|| "control record not delivered".into())
                )),
            });
            return (evals, obs);
        }
    }
    let mut done_effects: HashSet<String> = HashSet::new();
    for a in out.anomalies.iter() {
        if !done_effects.insert(a.effect.clone()) {
            continue;
        }
        let (mut lo, mut hi) = (a.lo.min(n_inj), a.hi.min(n_inj));
        let mut single: Option<(Value, RxOut)> = None;
        if n_inj == 1 && a.effect != "handshake_derailed" && a.effect != "stopped_delivering" {
            single = Some((scn.clone(), RxOut { anomalies: vec![a.clone()], classes: out.classes.clone(), datagrams: out.datagrams.clone(), ..Default::default() }));
        } else if hi > lo {
            let mut steps = 0;
            while hi - lo > 1 && steps < 16 {
                steps += 1;
                let mid = (lo + hi) / 2;
                let s = sub_scenario(&scn, lo, mid);
                let o = run_rx(&s, &certs).await;
                obs.count("narrowing_runs", 1);
                if o.anomalies.iter().any(|x| x.effect == a.effect) {
                    hi = mid;
                } else {
                    lo = mid;
                }
            }
            let s = sub_scenario(&scn, lo, lo + 1);
            for _ in 0..2 {
                let o = run_rx(&s, &certs).await;
                obs.count("narrowing_runs", 1);
                if o.anomalies.iter().any(|x| x.effect == a.effect) {
                    single = Some((s.clone(), o));
                    break;
                }
            }
        }
        match single {
            Some((s, o)) => {
                let an = o.anomalies.iter().find(|x| x.effect == a.effect).cloned().unwrap_or_else(|| a.clone());
                let class = o.classes.first().cloned().unwrap_or_else(|| "unknown".into());
                let position = s["position"].as_str().unwrap_or("established").to_string();
                let key = rx_key(&class, &an.effect, &position);
                let what = match an.effect.as_str() {
                    "delivered" => format!("an unauthenticated record ({class}) made the victim hand bytes to the upper layer"),
                    "state_changed" => format!("an unauthenticated record ({class}) changed the victim's connection state"),
                    "receiver_closed" => format!("an unauthenticated record ({class}) ended the victim's application-data receiver (the upper layer is cut off) while the state still reads as before"),
                    "stopped_delivering" => format!("after an unauthenticated record ({class}) the victim no longer hands genuine authenticated records to the upper layer while the state still reads as before"),
                    _ => format!("an unauthenticated record ({class}) was not discarded: the handshake can no longer complete"),
                };
                let witness = json!({
                    "victim": s["victim"], "position": position, "hold_from": s["hold_from"], "source": s["source"],
                    "injection": s["inj"][0], "class": class, "effect": an.effect, "detail": an.detail,
                    "datagram": o.datagrams.first().map(|d| hex_cap(d, 96)),
                });
                let h = hash_value(&s);
                evals.push(Eval { scenario: s, nontrivial: Some(h), verdict: Verdict::violated(key, what, witness) });
            }
            None => {
                evals.push(Eval {
                    scenario: scn.clone(),
                    nontrivial: None,
                    verdict: Verdict::Inconclusive(format!(
                        "anomaly '{}' in a batch [{}..{}) of {} injections (first: {}; {} / victim {} / source {}) did not reproduce with a single injection",
                        a.effect, a.lo, a.hi, n_inj, scn["inj"][a.lo.min(n_inj.saturating_sub(1))]["t"], scn["position"], scn["victim"], scn["source"]
                    )),
                });
            }
        }
    }
    (evals, obs)
}

async fn eval_tx(scn: Value, certs: Arc<Certs>) -> (Vec<Eval>, Obs) {
    let out = run_tx(&scn, &certs).await;
    let obs = out.obs.clone();
    let mut evals = vec![];
    if let Some(e) = out.incon {
        evals.push(Eval { scenario: scn, nontrivial: None, verdict: Verdict::Inconclusive(e) });
        return (evals, obs);
    }
    let h = if out.effective { Some(hash_value(&scn)) } else { None };
    if out.violations.is_empty() {
        evals.push(Eval { scenario: scn, nontrivial: h, verdict: Verdict::Held });
    } else {
        let mut seen = HashSet::new();
        for (k, w, wit) in out.violations {
            if seen.insert(k.clone()) {
                evals.push(Eval { scenario: scn.clone(), nontrivial: h, verdict: Verdict::violated(k, w, wit) });
            }
        }
    }
    (evals, obs)
}

async fn eval_any(scn: Value, certs: Arc<Certs>) -> (Vec<Eval>, Obs) {
    let wd = Duration::from_secs(150);
    let kind = scn["kind"].as_str().unwrap_or("").to_string();
    let s2 = scn.clone();
    let fut = async move {
        if kind == "tx" { eval_tx(s2, certs).await } else { eval_rx(s2, certs).await }
    };
    match tokio::time::timeout(wd, fut).await {
        Ok(r) => r,
        Err(_) => (
            vec![Eval { scenario: scn, nontrivial: None, verdict: Verdict::Inconclusive("scenario watchdog (150 s)".into()) }],
            Obs::default(),
        ),
    }
}

// ------------------------------------------------------------------ scenario generation

fn gen_scenarios(tier: Tier, seed: u64) -> Vec<Value> {
    let mut rng = Rng::new(seed).fork(0xC03);
    let mut v: Vec<Value> = vec![];
    let thorough = tier == Tier::Thorough;
    let seqs = [0u64, 1, 2, 7, 1000, (1 << 48) - 1];
    let ctypes = [20u8, 21, 22, 23, 24, 0, 255];
    let epochs = [0u16, 1, 2, 65535];
    let payloads = ["sctp", "close_notify", "fatal_alert", "random"];

    // A. content type x epoch x payload x source x position x victim (x packing)
    let positions: [(&str, &[&str]); 3] = [
        ("established", &["client", "server"]),
        ("window_client", &["client"]),
        ("window_server", &["server"]),
    ];
    for (pos, victims) in positions {
        for victim in victims.iter() {
            for source in ["peer", "stranger"] {
                for &ct in &ctypes {
                    for &ep in &epochs {
                        if pos == "window_server" && ep > 1 {
                            continue; // without keys epochs >= 1 are all the same kind of garbage
                        }
                        for pl in payloads {
                            let packs: &[&str] = if pos == "established" || ct == 0 || ct == 255 { &["single", "coalesced"] } else { &["single"] };
                            for pack in packs {
                                let reps = if thorough { 4 } else { 1 };
                                for _ in 0..reps {
                                    let seq = *rng.pick(&seqs);
                                    let mut inj = vec![];
                                    if ep == 0 {
                                        inj.push(json!({"t":"craft","ctype":ct,"epoch":ep,"seq":seq,"payload":pl,"form":"raw","pack":pack}));
                                    } else {
                                        inj.push(json!({"t":"craft","ctype":ct,"epoch":ep,"seq":seq,"payload":pl,"form":"gcm_like","pack":pack}));
                                        inj.push(json!({"t":"craft","ctype":ct,"epoch":ep,"seq":seq,"payload":pl,"form":"raw","pack":pack}));
                                    }
                                    v.push(json!({"kind":"rx","victim":victim,"position":pos,"source":source,
                                        "seed": rng.next_u64() >> 16, "genuine_sizes":[], "victim_sizes":[], "barrier_every":1, "inj":inj}));
                                }
                            }
                        }
                    }
                }
            }
        }
    }
    // B. structured handshake messages in plaintext (and forged epoch-1) records, message_seq sweep
    for (pos, victims) in positions {
        for victim in victims.iter() {
            for source in ["peer", "stranger"] {
                for msg in ["finished", "cert_empty", "cert_other", "ske_bad", "hvr", "shd", "cke", "client_hello"] {
                    for ep in [0u16, 1] {
                        if ep == 1 && (msg != "finished" || !thorough) {
                            continue;
                        }
                        let inj: Vec<Value> = (0..8u16)
                            .map(|m| json!({"t":"hs","msg":msg,"mseq":m,"epoch":ep,"seq":*rng.pick(&seqs),"pack":"single"}))
                            .collect();
                        v.push(json!({"kind":"rx","victim":victim,"position":pos,"source":source,
                            "seed": rng.next_u64() >> 16, "genuine_sizes":[], "victim_sizes":[], "barrier_every":1, "inj":inj}));
                    }
                }
            }
        }
    }
    // C-F. mutations of captured genuine records (established; needs keys to capture)
    let size_pool: Vec<usize> = if thorough {
        vec![1, 2, 16, 37, 100, 255, 600, 1199, 1200, 8, 64, 300, 900, 1000, 24, 500, 1100, 3, 128, 750]
    } else {
        vec![1, 16, 37, 100, 600, 1200]
    };
    for victim in ["client", "server"] {
        for source in ["peer", "stranger"] {
            // one scenario per (record) keeps batches small and replays short
            for (_ri, sz) in size_pool.iter().enumerate() {
                let rec_len = 13 + 8 + sz + 16;
                let nbits = rec_len * 8;
                let mut bits: Vec<usize> = (0..13 * 8).collect();
                if thorough {
                    bits = (0..nbits).collect();
                } else {
                    let body: Vec<usize> = (13 * 8..nbits).collect();
                    if body.len() <= 600 {
                        bits.extend(body);
                    } else {
                        let mut b = body;
                        rng.shuffle(&mut b);
                        b.truncate(600);
                        b.sort();
                        bits.extend(b);
                    }
                }
                let gs = json!([sz]);
                for chunk in bits.chunks(1600) {
                    let inj: Vec<Value> = chunk.iter().map(|b| json!({"t":"flip","rec":0,"bit":b})).collect();
                    v.push(json!({"kind":"rx","victim":victim,"position":"established","source":source,
                        "seed": rng.next_u64() >> 16, "genuine_sizes":gs, "victim_sizes":[], "barrier_every":40, "inj":inj}));
                }
                // truncations: raw (every length in thorough; all <= 40 + 200 sampled in quick) and length-fixed
                let mut lens: Vec<usize> = (0..rec_len.min(41)).collect();
                if thorough {
                    lens = (0..rec_len).collect();
                } else if rec_len > 41 {
                    let mut rest: Vec<usize> = (41..rec_len).collect();
                    rng.shuffle(&mut rest);
                    rest.truncate(200);
                    lens.extend(rest);
                }
                let mut inj: Vec<Value> = lens.iter().map(|l| json!({"t":"trunc","rec":0,"len":l,"fix":false})).collect();
                let mut fl: Vec<usize> = (13..rec_len).collect();
                rng.shuffle(&mut fl);
                fl.truncate(if thorough { 400 } else { 100 });
                inj.extend(fl.iter().map(|l| json!({"t":"trunc","rec":0,"len":l,"fix":true})));
                v.push(json!({"kind":"rx","victim":victim,"position":"established","source":source,
                    "seed": rng.next_u64() >> 16, "genuine_sizes":gs, "victim_sizes":[], "barrier_every":40, "inj":inj}));
                // wrong keys
                let inj: Vec<Value> = ["random_key", "wrong_iv", "own_key", "aad_len", "fresh_seq_random_key"]
                    .iter()
                    .map(|m| json!({"t":"rekey","rec":0,"mode":m}))
                    .collect();
                v.push(json!({"kind":"rx","victim":victim,"position":"established","source":source,
                    "seed": rng.next_u64() >> 16, "genuine_sizes":gs, "victim_sizes":[], "barrier_every":1, "inj":inj}));
            }
            // cross-type: genuine ApplicationData whose plaintext would be a close_notify / a fatal
            // alert / a ChangeCipherSpec body if the content type in the header were different
            for hx in ["0100", "0228", "01"] {
                let rec_len = 13 + 8 + hx.len() / 2 + 16;
                let inj: Vec<Value> = (0..rec_len * 8).map(|b| json!({"t":"flip","rec":0,"bit":b})).collect();
                v.push(json!({"kind":"rx","victim":victim,"position":"established","source":source,
                    "seed": rng.next_u64() >> 16, "genuine_sizes":[], "genuine_hex":[hx], "victim_sizes":[], "barrier_every":8, "inj":inj}));
            }
            // replays (observation) and reflection of the victim's own records
            v.push(json!({"kind":"rx","victim":victim,"position":"established","source":source,
                "seed": rng.next_u64() >> 16, "genuine_sizes":[5, 700], "victim_sizes":[9, 800], "barrier_every":1,
                "inj":[{"t":"replay","rec":0},{"t":"replay","rec":1},{"t":"reflect","rec":0},{"t":"reflect","rec":1},
                       {"t":"replay","rec":1,"pack":"coalesced"},{"t":"reflect","rec":1,"pack":"coalesced"}]}));
        }
    }
    // H. PRE-KEY positions: the victim has no keys yet, so nothing that claims a protected epoch
    //    can authenticate; ApplicationData never travels in epoch 0. Not injected here: epoch-0
    //    Handshake / ChangeCipherSpec / Alert records - before keys exist those are by nature
    //    unauthenticated and legitimately acted on (the statement starts "once keys are
    //    negotiated"), so nothing could be demanded about them.
    //    rustrtc's flights: ClientHello | ServerHello, Certificate, ServerKeyExchange, ServerHelloDone |
    //    ClientKeyExchange, CCS, Finished | CCS, Finished (no HelloVerifyRequest, no client certificate).
    let pre_positions: [(&str, &str, &[u8]); 2] = [("pre_server", "server", &[1, 16]), ("pre_client", "client", &[2, 11, 12, 14])];
    let pre_epochs: &[u16] = if thorough { &[1, 2, 65535] } else { &[1, 2] };
    for (pos, victim, holds) in pre_positions {
        for &hold_from in holds {
            for source in ["peer", "stranger"] {
                for _rep in 0..(if thorough { 3 } else { 1 }) {
                    // H1: ApplicationData (and unknown content types) in every epoch
                    let mut inj: Vec<Value> = vec![];
                    for &ep in pre_epochs {
                        for pl in ["sctp", "random"] {
                            for form in ["raw", "gcm_like"] {
                                inj.push(json!({"t":"craft","ctype":23,"epoch":ep,"seq":*rng.pick(&seqs),"payload":pl,"form":form,"pack":"single"}));
                            }
                        }
                        inj.push(json!({"t":"craft","ctype":23,"epoch":ep,"seq":*rng.pick(&seqs),"payload":"sctp","form":"raw","pack":"coalesced"}));
                    }
                    for pack in ["single", "coalesced"] {
                        inj.push(json!({"t":"craft","ctype":23,"epoch":0,"seq":*rng.pick(&seqs),"payload":"sctp","form":"raw","pack":pack}));
                    }
                    for (ct, pack) in [(24u8, "single"), (25, "single"), (0, "coalesced"), (255, "coalesced")] {
                        for ep in [0u16, 1] {
                            inj.push(json!({"t":"craft","ctype":ct,"epoch":ep,"seq":*rng.pick(&seqs),"payload":"sctp","form":"raw","pack":pack}));
                        }
                    }
                    for blen in [0usize, 8, 16, 20, 24] {
                        inj.push(json!({"t":"len","ctype":23,"epoch":1,"seq":*rng.pick(&seqs),"blen":blen,"form":"raw","pack":"single"}));
                    }
                    let n = inj.len();
                    v.push(json!({"kind":"rx","victim":victim,"position":pos,"hold_from":hold_from,"source":source,
                        "seed": rng.next_u64() >> 16, "genuine_sizes":[], "victim_sizes":[], "barrier_every":n, "inj":inj}));
                    // H2: ChangeCipherSpec / Alert / Handshake records that claim a protected epoch
                    let mut inj: Vec<Value> = vec![];
                    for ct in [20u8, 21, 22] {
                        for &ep in pre_epochs {
                            for pl in payloads {
                                let forms: &[&str] = if thorough { &["raw", "gcm_like"] } else if ep == 1 { &["raw"] } else { &["gcm_like"] };
                                for form in forms {
                                    inj.push(json!({"t":"craft","ctype":ct,"epoch":ep,"seq":*rng.pick(&seqs),"payload":pl,"form":form,"pack":"single"}));
                                }
                            }
                        }
                        inj.push(json!({"t":"craft","ctype":ct,"epoch":1,"seq":*rng.pick(&seqs),"payload":"close_notify","form":"raw","pack":"coalesced"}));
                    }
                    for msg in ["finished", "client_hello", "cke", "shd", "hvr", "cert_other", "cert_empty", "ske_bad"] {
                        for m in 0..(if thorough { 6u16 } else { 3 }) {
                            inj.push(json!({"t":"hs","msg":msg,"mseq":m,"epoch":1,"seq":*rng.pick(&seqs),"pack":"single"}));
                        }
                    }
                    let n = inj.len();
                    v.push(json!({"kind":"rx","victim":victim,"position":pos,"hold_from":hold_from,"source":source,
                        "seed": rng.next_u64() >> 16, "genuine_sizes":[], "victim_sizes":[], "barrier_every":n, "inj":inj}));
                }
            }
        }
    }
    // I. exact body lengths around the explicit-nonce (8) and tag (16) boundaries, protected epochs
    let mut long_lens: Vec<usize> = (41..=64).collect();
    rng.shuffle(&mut long_lens);
    long_lens.truncate(8);
    let all_lens: Vec<usize> = (0..=40).chain(long_lens.iter().copied()).collect();
    let edge_lens = [0usize, 7, 8, 15, 16, 19, 23, 24, 25, 32, 40];
    for victim in ["client", "server"] {
        for source in ["peer", "stranger"] {
            if thorough {
                for ct in [20u8, 21, 22, 23, 24, 25, 0, 255] {
                    for ep in [1u16, 2, 65535] {
                        for form in ["raw", "gcm_like"] {
                            for pack in ["single", "coalesced"] {
                                if (ct == 0 || ct == 255) && pack == "single" {
                                    continue; // not routed to DTLS by the first-byte demultiplexer
                                }
                                let inj: Vec<Value> = all_lens
                                    .iter()
                                    .map(|l| json!({"t":"len","ctype":ct,"epoch":ep,"seq":*rng.pick(&seqs),"blen":l,"form":form,"pack":pack}))
                                    .collect();
                                v.push(json!({"kind":"rx","victim":victim,"position":"established","source":source,
                                    "seed": rng.next_u64() >> 16, "genuine_sizes":[], "victim_sizes":[], "barrier_every":7, "inj":inj}));
                            }
                        }
                    }
                }
            } else {
                // I1: ApplicationData, epoch 1 (the current one): every length 0..=40, both forms
                let mut inj: Vec<Value> = (0..=40usize)
                    .map(|l| json!({"t":"len","ctype":23,"epoch":1,"seq":*rng.pick(&seqs),"blen":l,"form":"raw","pack":"single"}))
                    .collect();
                inj.extend((8..=40usize).map(|l| json!({"t":"len","ctype":23,"epoch":1,"seq":*rng.pick(&seqs),"blen":l,"form":"gcm_like","pack":"single"})));
                inj.extend(long_lens.iter().map(|l| json!({"t":"len","ctype":23,"epoch":1,"seq":*rng.pick(&seqs),"blen":l,"form":"raw","pack":"single"})));
                v.push(json!({"kind":"rx","victim":victim,"position":"established","source":source,
                    "seed": rng.next_u64() >> 16, "genuine_sizes":[], "victim_sizes":[], "barrier_every":4, "inj":inj}));
                // I2: the other content types (25 = unknown) and epoch 2 at the boundary lengths
                let mut inj: Vec<Value> = vec![];
                let mut k = 0usize;
                let both: &[u16] = &[1, 2];
                let two: &[u16] = &[2];
                for (ct, eps) in [(20u8, both), (21, both), (22, both), (25, both), (23, two)] {
                    for &ep in eps {
                        for l in edge_lens {
                            k += 1;
                            inj.push(json!({"t":"len","ctype":ct,"epoch":ep,"seq":*rng.pick(&seqs),"blen":l,"form": if k % 2 == 0 { "raw" } else { "gcm_like" },"pack":"single"}));
                        }
                    }
                }
                v.push(json!({"kind":"rx","victim":victim,"position":"established","source":source,
                    "seed": rng.next_u64() >> 16, "genuine_sizes":[], "victim_sizes":[], "barrier_every":8, "inj":inj}));
                // I3: coalesced - the short record is the SECOND record of the datagram
                let mut inj: Vec<Value> = vec![];
                for ct in [23u8, 21, 20, 22, 255, 0] {
                    for ep in [1u16, 2] {
                        for l in [8usize, 16, 19, 23, 24] {
                            inj.push(json!({"t":"len","ctype":ct,"epoch":ep,"seq":*rng.pick(&seqs),"blen":l,"form":"raw","pack":"coalesced"}));
                        }
                    }
                }
                v.push(json!({"kind":"rx","victim":victim,"position":"established","source":source,
                    "seed": rng.next_u64() >> 16, "genuine_sizes":[], "victim_sizes":[], "barrier_every":6, "inj":inj}));
            }
        }
    }
    for (pos, victim) in [("window_client", "client"), ("window_server", "server")] {
        for source in ["peer", "stranger"] {
            let cts: &[u8] = if thorough { &[20, 21, 22, 23, 24, 25] } else { &[23, 21, 22, 20] };
            let mut groups: Vec<Vec<Value>> = vec![];
            let mut cur: Vec<Value> = vec![];
            for &ct in cts {
                for ep in [1u16, 2] {
                    let forms: &[&str] = if thorough { &["raw", "gcm_like"] } else { &["raw"] };
                    for form in forms {
                        let lens: Vec<usize> = if thorough { all_lens.clone() } else { vec![0, 8, 15, 16, 19, 23, 24, 40] };
                        for l in lens {
                            cur.push(json!({"t":"len","ctype":ct,"epoch":ep,"seq":*rng.pick(&seqs),"blen":l,"form":form,"pack":"single"}));
                        }
                        if thorough {
                            groups.push(std::mem::take(&mut cur));
                        }
                    }
                }
            }
            for l in [8usize, 16, 19, 23, 24] {
                for ct in [23u8, 21] {
                    cur.push(json!({"t":"len","ctype":ct,"epoch":1,"seq":*rng.pick(&seqs),"blen":l,"form":"raw","pack":"coalesced"}));
                }
            }
            groups.push(cur);
            for inj in groups {
                v.push(json!({"kind":"rx","victim":victim,"position":pos,"source":source,
                    "seed": rng.next_u64() >> 16, "genuine_sizes":[], "victim_sizes":[], "barrier_every":8, "inj":inj}));
            }
        }
    }
    // J. the same kinds of injection interleaved with genuine traffic (a genuine payload follows
    //    every injected datagram)
    for victim in ["client", "server"] {
        for source in ["peer", "stranger"] {
            for _rep in 0..(if thorough { 6 } else { 1 }) {
                let mut inj: Vec<Value> = vec![];
                for ct in [21u8, 23, 22, 20] {
                    for ep in [0u16, 1] {
                        let pl = *rng.pick(&payloads);
                        inj.push(json!({"t":"craft","ctype":ct,"epoch":ep,"seq":*rng.pick(&seqs),"payload":pl,"form": if ep == 0 { "raw" } else { "gcm_like" },"pack":"single"}));
                    }
                }
                for l in 14..=26usize {
                    inj.push(json!({"t":"len","ctype":23,"epoch":1,"seq":*rng.pick(&seqs),"blen":l,"form":"raw","pack": if l % 2 == 0 { "single" } else { "coalesced" }}));
                }
                let rec_len = 13 + 8 + 100 + 16;
                for _ in 0..24 {
                    inj.push(json!({"t":"flip","rec":0,"bit":rng.usize_below(rec_len * 8)}));
                }
                for _ in 0..6 {
                    inj.push(json!({"t":"trunc","rec":0,"len":rng.usize_below(rec_len),"fix":rng.bool()}));
                }
                for m in ["random_key", "own_key", "aad_len"] {
                    inj.push(json!({"t":"rekey","rec":0,"mode":m}));
                }
                inj.push(json!({"t":"replay","rec":0}));
                rng.shuffle(&mut inj);
                v.push(json!({"kind":"rx","victim":victim,"position":"established","source":source,"interleave":true,
                    "seed": rng.next_u64() >> 16, "genuine_sizes":[100], "victim_sizes":[], "barrier_every":5, "inj":inj}));
            }
        }
    }
    // K. the unauthenticated record rides in the same datagram BEHIND a record that authenticates
    for victim in ["client", "server"] {
        for source in ["peer", "stranger"] {
            for _rep in 0..(if thorough { 4 } else { 1 }) {
                let mut inj: Vec<Value> = vec![];
                for ct in [23u8, 21, 22, 20] {
                    for ep in [0u16, 1, 2] {
                        for pl in ["sctp", "close_notify"] {
                            inj.push(json!({"t":"craft","ctype":ct,"epoch":ep,"seq":*rng.pick(&seqs),"payload":pl,"form": if ep == 2 { "gcm_like" } else { "raw" },"pack":"after_authentic"}));
                        }
                    }
                }
                for l in [0usize, 8, 15, 16, 19, 23, 24, 25] {
                    inj.push(json!({"t":"len","ctype":23,"epoch":1,"seq":*rng.pick(&seqs),"blen":l,"form":"raw","pack":"after_authentic"}));
                }
                for msg in ["finished", "client_hello", "shd"] {
                    inj.push(json!({"t":"hs","msg":msg,"mseq":rng.below(8),"epoch":0,"seq":*rng.pick(&seqs),"pack":"after_authentic"}));
                }
                v.push(json!({"kind":"rx","victim":victim,"position":"established","source":source,
                    "seed": rng.next_u64() >> 16, "genuine_sizes":[], "victim_sizes":[], "barrier_every":3, "inj":inj}));
            }
        }
    }
    // G. send side
    let boundary =[0usize, 1, 15, 16, 17, 1199, 1200, 1201, 2399, 2400, 2401, 3600, 3601, 4999, 5000];
    let rounds = if thorough { 20 } else { 2 };
    for _round in 0..rounds {
        for senders in ["client", "server", "both"] {
            for n in [1usize, 2, 4, 8] {
                for eager in [false, true] {
                    let per_task = if n >= 4 { 3 } else { 5 };
                    let plan: Vec<Vec<usize>> = (0..n)
                        .map(|_| {
                            (0..per_task)
                                .map(|_| if rng.chance(1, 2) { *rng.pick(&boundary) } else { rng.usize_below(5001) })
                                .collect()
                        })
                        .collect();
                    v.push(json!({"kind":"tx","senders":senders,"tasks":n,"eager":eager,"close":true,
                        "seed": rng.next_u64() >> 16, "payloads":plan}));
                }
            }
        }
    }
    // late duplicates of the peer's handshake datagrams reach the sender while it is sending
    for i in 0..(if thorough { 36 } else { 9 }) {
        let senders = ["server", "client", "both"][i % 3];
        let replay = ["all", "final", "hello"][(i / 3) % 3];
        let n = [1usize, 2, 4][(i / 9) % 3];
        let plan: Vec<Vec<usize>> = (0..n).map(|_| (0..40).map(|_| 1 + rng.usize_below(200)).collect()).collect();
        v.push(json!({"kind":"tx","senders":senders,"tasks":n,"eager":false,"close":true,"replay":replay,"replay_rounds":3,
            "seed": rng.next_u64() >> 16, "payloads":plan}));
    }
    // hammer: many tiny payloads from many tasks - thousands of concurrent sequence allocations
    for i in 0..(if thorough { 60 } else { 6 }) {
        let senders = ["both", "client", "server"][i % 3];
        let n = [8usize, 16, 4][(i / 3) % 3];
        let plan: Vec<Vec<usize>> = (0..n).map(|_| (0..250).map(|_| 24 + rng.usize_below(24)).collect()).collect();
        v.push(json!({"kind":"tx","senders":senders,"tasks":n,"eager":false,"close":true,
            "seed": rng.next_u64() >> 16, "payloads":plan}));
    }
    // the first successful send() races the end of the handshake: many short payloads, many tasks
    for i in 0..(if thorough { 60 } else { 16 }) {
        let senders = ["client", "server", "both"][i % 3];
        let n = [8usize, 4, 2][(i / 3) % 3];
        let plan: Vec<Vec<usize>> = (0..n).map(|_| (0..4).map(|_| 1 + rng.usize_below(64)).collect()).collect();
        v.push(json!({"kind":"tx","senders":senders,"tasks":n,"eager":true,"close":true,
            "seed": rng.next_u64() >> 16, "payloads":plan}));
    }
    v
}

// ------------------------------------------------------------------ entry point

pub fn run(args: &Args) -> i32 {
    let mut report = Report::new(
        args,
        "exploration",
        "rx scenario: >=1 datagram injected, the closing genuine marker came out of the victim (barrier) and a harness-sealed authentic control record from the same source was delivered (or, in handshake-window and pre-key positions, every injected datagram was counted by the victim's IceConn before the release where no marker is possible, the withheld flight was released, the handshake completed and the closing marker came out / a violation was established); tx scenario: >=1 ApplicationData record captured on the wire and opened under the negotiated write key",
    );
    report.assume("loopback UDP keeps per-socket FIFO order; the harness socket pump stands in for the ICE agent's read loop exactly as src/transports/dtls/tests.rs does");
    report.assume("replayed genuine records authenticate, so their acceptance is counted as an observation, not a violation");
    report.assume("only the negotiated suite (ECDHE-ECDSA-AES128-GCM-SHA256) exists in rustrtc; the harness AES-GCM open/seal is aes-gcm 0.10 used independently of rustrtc's record code");
    if PATH_LIMIT != dtls::MAX_APP_DATA_RECORD_SIZE {
        report.note(format!("rustrtc MAX_APP_DATA_RECORD_SIZE={} differs from the oracle's path limit {}", dtls::MAX_APP_DATA_RECORD_SIZE, PATH_LIMIT));
    }
    let certs = match make_certs() {
        Ok(c) => Arc::new(c),
        Err(e) => {
            eprintln!("cannot generate certificates: {e}");
            return 2;
        }
    };
    let rt = build_runtime(16);

    if let Some(path) = &args.replay {
        let Some(scn) = load_replay(path) else {
            eprintln!("cannot load replay {}", path.display());
            return 2;
        };
        // rustrtc's keys/randoms and the scheduler are not seedable: up to 5 attempts
        // (every attempt is recorded; the attempt number is part of the scenario identity)
        for attempt in 0..5u64 {
            let (evals, obs) = rt.block_on(eval_any(scn.clone(), certs.clone()));
            obs.merge_into(&mut report);
            let hit = evals.iter().any(|e| e.verdict.is_violated());
            for e in evals {
                let h = e.nontrivial.map(|h| h ^ attempt.wrapping_mul(0x9E37_79B9_7F4A_7C15));
                report.record(&e.scenario, h, e.verdict);
            }
            if hit {
                break;
            }
        }
        return report.finish(1, 0);
    }

    let scenarios = gen_scenarios(args.tier, args.seed);
    let total = scenarios.len();
    let (rx_s, tx_s): (Vec<Value>, Vec<Value>) = scenarios.into_iter().partition(|s| s["kind"] == "rx");
    report.count("scenarios_generated_rx", rx_s.len() as u64);
    report.count("scenarios_generated_tx", tx_s.len() as u64);
    let mut sampled = 0;
    for (list, par) in [(rx_s, 24usize), (tx_s, 6usize)] {
        let certs2 = certs.clone();
        let results: Vec<(Vec<Eval>, Obs)> = rt.block_on(async move {
            use futures::stream::StreamExt;
            futures::stream::iter(list.into_iter().map(|s| {
                let c = certs2.clone();
                async move {
                    match tokio::spawn(eval_any(s.clone(), c)).await {
                        Ok(r) => r,
                        Err(e) => (
                            vec![Eval { scenario: s, nontrivial: None, verdict: Verdict::Inconclusive(format!("harness task failed: {e}")) }],
                            Obs::default(),
                        ),
                    }
                }
            }))
            .buffer_unordered(par)
            .collect()
            .await
        });
        for (evals, obs) in results {
            obs.merge_into(&mut report);
            for e in evals {
                if sampled < 6 && matches!(e.verdict, Verdict::Held) && e.nontrivial.is_some() && (sampled % 2 == 0) == (e.scenario["kind"] == "rx") {
                    let mut s = e.scenario.clone();
                    if let Some(a) = s["inj"].as_array() {
                        if a.len() > 4 {
                            let n = a.len();
                            s["inj"] = json!([a[0].clone(), a[1].clone(), format!("... {} more", n - 2)]);
                        }
                    }
                    report.sample(json!({"scenario": s, "verdict": "held"}));
                    sampled += 1;
                }
                report.record(&e.scenario, e.nontrivial, e.verdict);
            }
        }
    }
    let panics = panics_so_far();
    if !panics.is_empty() {
        report.count("panics_in_any_task(observation)", panics.len() as u64);
        for p in panics.iter().take(5) {
            report.note(format!("panic at {}: {}", norm_location(&p.location), p.message));
        }
    }
    let min = (total as u64) * 8 / 10;
    report.finish(min, min / 2)
}
