//! codec_diff – C15: RTP and RTCP encode/decode are mutually inverse and standards-conformant.
//!
//! The monitored code is the real `rustrtc::rtp` / `rustrtc::rtx` (plus the receiver NACK
//! interceptor of `rustrtc::peer_connection` as a genuine producer of NACK packets).  The
//! oracle is (a) the logical input itself (inverse laws), (b) the webrtc-rs crates `rtp 0.17`
//! and `rtcp 0.17` as an independent implementation, (c) tiny harness-own RFC models where a
//! law is about a *set* or a *map* (NACK sets, RFC 8285 id -> value).
//!
//! What is demanded (and no more):
//!   * p2w  – for a logical packet p inside the field ranges named by the property: if rustrtc
//!            serialises p (`Ok`), rustrtc parses the bytes back to p and the reference parses them
//!            to the same fields.  `Err` is always accepted.  Lossy formats are compared at the
//!            representable value (REMB: 18-bit mantissa floor; NACK: set of sequence numbers;
//!            packets_lost outside the signed 24-bit range: saturation accepted).
//!   * w2p  – for wire bytes w produced by the reference from a logical packet: rustrtc parses w
//!            to the same fields; rustrtc re-serialises what it parsed and the reference parses
//!            *that* to the same fields again.  Byte identity is only counted, never demanded.
//!   * ext  – set_extension(id,v) = Ok  =>  get_extension(id) = v and every other id keeps its value
//!            (also on headers that were received from the wire); Err => nothing changed.
//!   * rtx  – wrap -> marshal -> parse -> unwrap restores sequence number, timestamp, marker, payload,
//!            and the wire form is RFC 4588 (OSN || payload) as seen by the reference parser.
//!   * nack – packing preserves the set of lost sequence numbers, including 65535 -> 0.
//!
//! The reference is trusted only where it is self-consistent on the very same logical packet
//! (reference.unmarshal(reference.marshal(R)) == R); otherwise the reference comparison is skipped
//! and counted (`ref_skipped:*`) – webrtc-rs has quirks of its own (REMB mantissa 0, a TWCC whose
//! last chunk ends the packet, SDES item types > 8).

use crate::common::*;
use ::rtcp as rc;
use ::rtp as rp;
use bytes::Bytes;
use rustrtc::rtp as su;
use serde_json::{Value, json};
use std::cell::RefCell;
use std::collections::{BTreeMap, BTreeSet};
use std::panic::{AssertUnwindSafe, catch_unwind};
use webrtc_util::marshal::{Marshal, Unmarshal};

use rc::goodbye::Goodbye as RGoodbye;
use rc::payload_feedbacks::full_intra_request::{FirEntry as RFirEntry, FullIntraRequest as RFir};
use rc::payload_feedbacks::picture_loss_indication::PictureLossIndication as RPli;
use rc::payload_feedbacks::receiver_estimated_maximum_bitrate::ReceiverEstimatedMaximumBitrate as RRemb;
use rc::receiver_report::ReceiverReport as RRr;
use rc::reception_report::ReceptionReport as RBlock;
use rc::sender_report::SenderReport as RSr;
use rc::source_description::{
    SdesType, SourceDescription as RSdes, SourceDescriptionChunk as RChunk,
    SourceDescriptionItem as RItem,
};
use rc::transport_feedbacks::transport_layer_cc::{
    PacketStatusChunk, RecvDelta, RunLengthChunk, StatusChunkTypeTcc, StatusVectorChunk,
    SymbolSizeTypeTcc, SymbolTypeTcc, TransportLayerCc as RTwcc,
};
use rc::transport_feedbacks::transport_layer_nack::{
    NackPair, TransportLayerNack as RNack, nack_pairs_from_sequence_numbers,
};

// ------------------------------------------------------------------ panic capture (thread local)

thread_local! {
    static LAST_PANIC: RefCell<String> = const { RefCell::new(String::new()) };
}

fn install_local_hook() {
    let prev = std::panic::take_hook();
    std::panic::set_hook(Box::new(move |info| {
        let loc = info
            .location()
            .map(|l| format!("{}:{}", l.file(), l.line()))
            .unwrap_or_default();
        LAST_PANIC.with(|l| *l.borrow_mut() = loc);
        prev(info);
    }));
}

/// Run monitored (or reference) code; a panic becomes Err(normalised location).
fn guard<T>(f: impl FnOnce() -> T) -> Result<T, String> {
    match catch_unwind(AssertUnwindSafe(f)) {
        Ok(v) => Ok(v),
        Err(_) => {
            let loc = LAST_PANIC.with(|l| l.borrow().clone());
            let loc = match loc.find("/src/") {
                // keep `src/...:line` (worktree path differs between sandboxes)
                Some(i) if loc.contains("/repo/") => loc[i + 1..].to_string(),
                _ => norm_location(&loc),
            };
            Err(loc)
        }
    }
}

// ------------------------------------------------------------------ per-worker accumulator

#[derive(Default)]
struct Acc {
    counts: BTreeMap<String, u64>,
    seen: BTreeMap<&'static str, BTreeSet<String>>,
    nontrivial: bool,
}

impl Acc {
    fn c(&mut self, k: &str) {
        *self.counts.entry(k.to_string()).or_insert(0) += 1;
    }
    fn s(&mut self, set: &'static str, item: impl Into<String>) {
        let e = self.seen.entry(set).or_default();
        if e.len() < 5000 {
            e.insert(item.into());
        }
    }
}

// ------------------------------------------------------------------ JSON accessors (never panic)

fn ju(v: &Value, k: &str) -> u64 {
    v.get(k).and_then(|x| x.as_u64()).unwrap_or(0)
}
fn ji(v: &Value, k: &str) -> i64 {
    v.get(k).and_then(|x| x.as_i64()).unwrap_or(0)
}
fn jb(v: &Value, k: &str) -> bool {
    v.get(k).and_then(|x| x.as_bool()).unwrap_or(false)
}
fn js<'a>(v: &'a Value, k: &str) -> &'a str {
    v.get(k).and_then(|x| x.as_str()).unwrap_or("")
}
fn jhex(v: &Value, k: &str) -> Vec<u8> {
    unhex(js(v, k))
}
fn jarr<'a>(v: &'a Value, k: &str) -> &'a [Value] {
    v.get(k)
        .and_then(|x| x.as_array())
        .map(|a| a.as_slice())
        .unwrap_or(&[])
}
fn ju32s(v: &Value, k: &str) -> Vec<u32> {
    jarr(v, k)
        .iter()
        .map(|x| x.as_u64().unwrap_or(0) as u32)
        .collect()
}

fn viol(key: String, what: String, witness: Value) -> Verdict {
    Verdict::violated(key, what, witness)
}

// ================================================================== RTCP: logical -> rustrtc

fn su_blocks(l: &Value, clamp: bool) -> Vec<su::ReportBlock> {
    jarr(l, "blocks")
        .iter()
        .map(|b| {
            let mut lost = ji(b, "lost").clamp(i32::MIN as i64, i32::MAX as i64) as i32;
            if clamp {
                // outside the signed 24-bit field range the statement is silent: saturation accepted
                lost = lost.clamp(-(1 << 23), (1 << 23) - 1);
            }
            su::ReportBlock {
                ssrc: ju(b, "ssrc") as u32,
                fraction_lost: ju(b, "fl") as u8,
                packets_lost: lost,
                highest_sequence: ju(b, "hs") as u32,
                jitter: ju(b, "jit") as u32,
                last_sender_report: ju(b, "lsr") as u32,
                delay_since_last_sender_report: ju(b, "dlsr") as u32,
            }
        })
        .collect()
}

/// largest value <= b representable as 18-bit mantissa << exponent (REMB is lossy by definition)
fn remb_floor(b: u64) -> u64 {
    let bits = 64 - b.leading_zeros();
    if bits <= 18 {
        b
    } else {
        let e = bits - 18;
        (b >> e) << e
    }
}

/// harness encoding of the opaque TWCC payload: chunks (u16 BE) then deltas (1 or 2 bytes)
fn twcc_payload(l: &Value) -> Vec<u8> {
    let mut out = vec![];
    for c in jarr(l, "chunks") {
        out.extend_from_slice(&(c.as_u64().unwrap_or(0) as u16).to_be_bytes());
    }
    for d in jarr(l, "deltas") {
        let kind = d.get(0).and_then(|x| x.as_u64()).unwrap_or(1);
        let val = d.get(1).and_then(|x| x.as_i64()).unwrap_or(0);
        if kind == 1 {
            out.push(val as u8);
        } else {
            out.extend_from_slice(&(val as i16).to_be_bytes());
        }
    }
    out
}

/// `expected` = true: the value rustrtc must hand back (normalised where the format is lossy).
fn su_from(l: &Value, expected: bool) -> Option<su::RtcpPacket> {
    Some(match js(l, "t") {
        "sr" => su::RtcpPacket::SenderReport(su::SenderReport {
            sender_ssrc: ju(l, "ssrc") as u32,
            ntp_most: ju(l, "ntp_most") as u32,
            ntp_least: ju(l, "ntp_least") as u32,
            rtp_timestamp: ju(l, "rtp_ts") as u32,
            packet_count: ju(l, "pc") as u32,
            octet_count: ju(l, "oc") as u32,
            report_blocks: su_blocks(l, expected),
        }),
        "rr" => su::RtcpPacket::ReceiverReport(su::ReceiverReport {
            sender_ssrc: ju(l, "ssrc") as u32,
            report_blocks: su_blocks(l, expected),
        }),
        "sdes" => su::RtcpPacket::SourceDescription(su::SourceDescription {
            chunks: jarr(l, "chunks")
                .iter()
                .map(|c| su::SdesChunk {
                    ssrc: ju(c, "ssrc") as u32,
                    items: jarr(c, "items")
                        .iter()
                        .map(|i| su::SdesItem {
                            ty: ju(i, "ty") as u8,
                            text: js(i, "text").to_string(),
                        })
                        .collect(),
                })
                .collect(),
        }),
        "bye" => su::RtcpPacket::Goodbye(su::Goodbye {
            sources: ju32s(l, "sources"),
            reason: l
                .get("reason")
                .and_then(|x| x.as_str())
                .map(|s| s.to_string()),
        }),
        "pli" => su::RtcpPacket::PictureLossIndication(su::PictureLossIndication {
            sender_ssrc: ju(l, "sender") as u32,
            media_ssrc: ju(l, "media") as u32,
        }),
        "fir" => su::RtcpPacket::FullIntraRequest(su::FullIntraRequest {
            sender_ssrc: ju(l, "sender") as u32,
            requests: jarr(l, "reqs")
                .iter()
                .map(|q| su::FirRequest {
                    ssrc: ju(q, "ssrc") as u32,
                    sequence_number: ju(q, "seq") as u8,
                })
                .collect(),
        }),
        "nack" => su::RtcpPacket::GenericNack(su::GenericNack {
            sender_ssrc: ju(l, "sender") as u32,
            media_ssrc: ju(l, "media") as u32,
            lost_packets: jarr(l, "lost")
                .iter()
                .map(|x| x.as_u64().unwrap_or(0) as u16)
                .collect(),
        }),
        "remb" => {
            let b = ju(l, "bitrate");
            su::RtcpPacket::RemoteBitrateEstimate(su::RemoteBitrateEstimate {
                sender_ssrc: ju(l, "sender") as u32,
                bitrate_bps: if expected { remb_floor(b) } else { b },
                ssrcs: ju32s(l, "ssrcs"),
            })
        }
        "twcc" => su::RtcpPacket::TransportWideCc(su::TransportWideCc {
            sender_ssrc: ju(l, "sender") as u32,
            media_ssrc: ju(l, "media") as u32,
            base_sequence: ju(l, "base") as u16,
            packet_status_count: ju(l, "count") as u16,
            reference_time_64ms: ju(l, "ref_time") as u32,
            feedback_packet_count: ju(l, "fb") as u8,
            payload: twcc_payload(l),
        }),
        _ => return None,
    })
}

fn su_type(p: &su::RtcpPacket) -> &'static str {
    match p {
        su::RtcpPacket::SenderReport(_) => "sr",
        su::RtcpPacket::ReceiverReport(_) => "rr",
        su::RtcpPacket::SourceDescription(_) => "sdes",
        su::RtcpPacket::Goodbye(_) => "bye",
        su::RtcpPacket::PictureLossIndication(_) => "pli",
        su::RtcpPacket::FullIntraRequest(_) => "fir",
        su::RtcpPacket::GenericNack(_) => "nack",
        su::RtcpPacket::RemoteBitrateEstimate(_) => "remb",
        su::RtcpPacket::TransportWideCc(_) => "twcc",
    }
}

fn diff_blocks(a: &[su::ReportBlock], b: &[su::ReportBlock]) -> Option<String> {
    if a.len() != b.len() {
        return Some("report_blocks.len".into());
    }
    for (x, y) in a.iter().zip(b) {
        if x.ssrc != y.ssrc {
            return Some("report_blocks[].ssrc".into());
        }
        if x.fraction_lost != y.fraction_lost {
            return Some("report_blocks[].fraction_lost".into());
        }
        if x.packets_lost != y.packets_lost {
            return Some("report_blocks[].packets_lost".into());
        }
        if x != y {
            return Some("report_blocks[].other".into());
        }
    }
    None
}

/// First differing logical field (index-free, so it is stable enough for a key).
/// `lenient_reason`: BYE reason None == Some("") (the reference always writes a length byte).
fn diff_su(exp: &su::RtcpPacket, got: &su::RtcpPacket, lenient_reason: bool) -> Option<String> {
    use su::RtcpPacket::*;
    match (exp, got) {
        (SenderReport(a), SenderReport(b)) => {
            if a.sender_ssrc != b.sender_ssrc {
                return Some("sender_ssrc".into());
            }
            if (a.ntp_most, a.ntp_least) != (b.ntp_most, b.ntp_least) {
                return Some("ntp".into());
            }
            if a.rtp_timestamp != b.rtp_timestamp {
                return Some("rtp_timestamp".into());
            }
            if (a.packet_count, a.octet_count) != (b.packet_count, b.octet_count) {
                return Some("counts".into());
            }
            diff_blocks(&a.report_blocks, &b.report_blocks)
        }
        (ReceiverReport(a), ReceiverReport(b)) => {
            if a.sender_ssrc != b.sender_ssrc {
                return Some("sender_ssrc".into());
            }
            diff_blocks(&a.report_blocks, &b.report_blocks)
        }
        (SourceDescription(a), SourceDescription(b)) => {
            if a.chunks.len() != b.chunks.len() {
                return Some("chunks.len".into());
            }
            for (x, y) in a.chunks.iter().zip(&b.chunks) {
                if x.ssrc != y.ssrc {
                    return Some("chunks[].ssrc".into());
                }
                if x.items.len() != y.items.len() {
                    return Some("chunks[].items.len".into());
                }
                for (i, j) in x.items.iter().zip(&y.items) {
                    if i.ty != j.ty {
                        return Some("chunks[].items[].ty".into());
                    }
                    if i.text != j.text {
                        return Some("chunks[].items[].text".into());
                    }
                }
            }
            None
        }
        (Goodbye(a), Goodbye(b)) => {
            if a.sources.len() != b.sources.len() {
                return Some("sources.len".into());
            }
            if a.sources != b.sources {
                return Some("sources".into());
            }
            let same = if lenient_reason {
                a.reason.clone().unwrap_or_default() == b.reason.clone().unwrap_or_default()
            } else {
                a.reason == b.reason
            };
            if !same {
                return Some("reason".into());
            }
            None
        }
        (PictureLossIndication(a), PictureLossIndication(b)) => {
            if a != b {
                Some("ssrcs".into())
            } else {
                None
            }
        }
        (FullIntraRequest(a), FullIntraRequest(b)) => {
            if a.sender_ssrc != b.sender_ssrc {
                return Some("sender_ssrc".into());
            }
            if a.requests.len() != b.requests.len() {
                return Some("requests.len".into());
            }
            if a.requests != b.requests {
                return Some("requests[]".into());
            }
            None
        }
        (GenericNack(a), GenericNack(b)) => {
            if (a.sender_ssrc, a.media_ssrc) != (b.sender_ssrc, b.media_ssrc) {
                return Some("ssrcs".into());
            }
            let sa: BTreeSet<u16> = a.lost_packets.iter().copied().collect();
            let sb: BTreeSet<u16> = b.lost_packets.iter().copied().collect();
            if sa != sb {
                return Some("lost_packets(set)".into());
            }
            None
        }
        (RemoteBitrateEstimate(a), RemoteBitrateEstimate(b)) => {
            if a.sender_ssrc != b.sender_ssrc {
                return Some("sender_ssrc".into());
            }
            if a.bitrate_bps != b.bitrate_bps {
                return Some("bitrate_bps".into());
            }
            if a.ssrcs != b.ssrcs {
                return Some("ssrcs".into());
            }
            None
        }
        (TransportWideCc(a), TransportWideCc(b)) => {
            if (a.sender_ssrc, a.media_ssrc) != (b.sender_ssrc, b.media_ssrc) {
                return Some("ssrcs".into());
            }
            if (a.base_sequence, a.packet_status_count) != (b.base_sequence, b.packet_status_count)
            {
                return Some("base/count".into());
            }
            if a.reference_time_64ms != b.reference_time_64ms {
                return Some("reference_time".into());
            }
            if a.feedback_packet_count != b.feedback_packet_count {
                return Some("feedback_packet_count".into());
            }
            // trailing zero bytes (alignment) after the deltas are not part of the logical packet
            let (x, y) = (&a.payload, &b.payload);
            let n = x.len().min(y.len());
            let tail_zero = |v: &Vec<u8>| v[n..].iter().all(|z| *z == 0) && v.len() - n < 4;
            if x[..n] != y[..n] || !tail_zero(x) || !tail_zero(y) {
                return Some("payload".into());
            }
            None
        }
        _ => Some("packet_type".into()),
    }
}

/// Overflow class of a logical packet (values the wire format cannot carry). Non-empty tag =>
/// the scenario is one of the explicitly named out-of-format classes of the property; the key is
/// then the class, not the (content dependent) first differing field.
fn class_tag(l: &Value) -> String {
    let mut tags: Vec<&str> = vec![];
    match js(l, "t") {
        "sr" | "rr" => {
            if jarr(l, "blocks").len() > 31 {
                tags.push("blocks>31");
            }
        }
        "sdes" => {
            if jarr(l, "chunks").len() > 31 {
                tags.push("chunks>31");
            }
            if jarr(l, "chunks")
                .iter()
                .any(|c| jarr(c, "items").iter().any(|i| js(i, "text").len() > 255))
            {
                tags.push("text>255");
            }
        }
        "bye" => {
            if jarr(l, "sources").len() > 31 {
                tags.push("sources>31");
            }
            if js(l, "reason").len() > 255 {
                tags.push("reason>255");
            }
        }
        "remb" => {
            if remb_wire_overflow(l) {
                tags.push("mantissa<<exp>u64");
            }
        }
        _ => {}
    }
    if tags.is_empty() {
        String::new()
    } else {
        format!("[{}]", tags.join(","))
    }
}

/// w2p only: the wire mantissa/exponent describe a bitrate that does not fit rustrtc's u64
fn remb_wire_overflow(l: &Value) -> bool {
    if l.get("wire_exp").is_none() {
        return false;
    }
    let m = ju(l, "wire_mant");
    let e = ju(l, "wire_exp") as u32;
    m != 0 && e > m.leading_zeros()
}

fn rtcp_key(l: &Value, law: &str, field: &str) -> String {
    let tag = class_tag(l);
    if tag.is_empty() {
        format!("rtcp.{}:{}:{}", js(l, "t"), law, field)
    } else if law.starts_with("panic") {
        format!("rtcp.{}{}:{}", js(l, "t"), tag, law)
    } else {
        format!("rtcp.{}{}:silent_bad_encoding", js(l, "t"), tag)
    }
}

// ================================================================== RTCP: reference side

#[derive(Debug, Clone, PartialEq)]
enum RefPkt {
    Sr(RSr),
    Rr(RRr),
    Sdes(RSdes),
    Bye(RGoodbye),
    Pli(RPli),
    Fir(RFir),
    Nack(RNack),
    Remb(RRemb),
    Twcc(RTwcc),
    Other(String),
}

fn ref_blocks(l: &Value) -> Option<Vec<RBlock>> {
    let mut out = vec![];
    for b in jarr(l, "blocks") {
        let lost = ji(b, "lost");
        if !(-(1 << 23)..(1 << 23)).contains(&lost) {
            return None; // outside the field: no reference opinion
        }
        out.push(RBlock {
            ssrc: ju(b, "ssrc") as u32,
            fraction_lost: ju(b, "fl") as u8,
            total_lost: (lost as i32 as u32) & 0x00FF_FFFF,
            last_sequence_number: ju(b, "hs") as u32,
            jitter: ju(b, "jit") as u32,
            last_sender_report: ju(b, "lsr") as u32,
            delay: ju(b, "dlsr") as u32,
        });
    }
    Some(out)
}

fn ref_chunk(c: u16) -> PacketStatusChunk {
    if c >> 15 == 0 {
        PacketStatusChunk::RunLengthChunk(RunLengthChunk {
            type_tcc: StatusChunkTypeTcc::RunLengthChunk,
            packet_status_symbol: SymbolTypeTcc::from((c >> 13) & 3),
            run_length: c & 0x1FFF,
        })
    } else if (c >> 14) & 1 == 0 {
        PacketStatusChunk::StatusVectorChunk(StatusVectorChunk {
            type_tcc: StatusChunkTypeTcc::StatusVectorChunk,
            symbol_size: SymbolSizeTypeTcc::OneBit,
            symbol_list: (0..14)
                .map(|i| SymbolTypeTcc::from((c >> (13 - i)) & 1))
                .collect(),
        })
    } else {
        PacketStatusChunk::StatusVectorChunk(StatusVectorChunk {
            type_tcc: StatusChunkTypeTcc::StatusVectorChunk,
            symbol_size: SymbolSizeTypeTcc::TwoBit,
            symbol_list: (0..7)
                .map(|i| SymbolTypeTcc::from((c >> (12 - 2 * i)) & 3))
                .collect(),
        })
    }
}

/// The reference's view of the logical packet; None when its types cannot hold the value.
fn ref_from(l: &Value) -> Option<RefPkt> {
    Some(match js(l, "t") {
        "sr" => RefPkt::Sr(RSr {
            ssrc: ju(l, "ssrc") as u32,
            ntp_time: (ju(l, "ntp_most") << 32) | (ju(l, "ntp_least") & 0xFFFF_FFFF),
            rtp_time: ju(l, "rtp_ts") as u32,
            packet_count: ju(l, "pc") as u32,
            octet_count: ju(l, "oc") as u32,
            reports: ref_blocks(l)?,
            profile_extensions: Bytes::new(),
        }),
        "rr" => RefPkt::Rr(RRr {
            ssrc: ju(l, "ssrc") as u32,
            reports: ref_blocks(l)?,
            profile_extensions: Bytes::new(),
        }),
        "sdes" => {
            let mut chunks = vec![];
            for c in jarr(l, "chunks") {
                let mut items = vec![];
                for i in jarr(c, "items") {
                    let ty = ju(i, "ty");
                    if !(1..=8).contains(&ty) {
                        return None; // the reference maps unknown types to END
                    }
                    items.push(RItem {
                        sdes_type: SdesType::from(ty as u8),
                        text: Bytes::copy_from_slice(js(i, "text").as_bytes()),
                    });
                }
                chunks.push(RChunk {
                    source: ju(c, "ssrc") as u32,
                    items,
                });
            }
            RefPkt::Sdes(RSdes { chunks })
        }
        "bye" => RefPkt::Bye(RGoodbye {
            sources: ju32s(l, "sources"),
            reason: Bytes::copy_from_slice(js(l, "reason").as_bytes()),
        }),
        "pli" => RefPkt::Pli(RPli {
            sender_ssrc: ju(l, "sender") as u32,
            media_ssrc: ju(l, "media") as u32,
        }),
        "fir" => RefPkt::Fir(RFir {
            sender_ssrc: ju(l, "sender") as u32,
            media_ssrc: 0,
            fir: jarr(l, "reqs")
                .iter()
                .map(|q| RFirEntry {
                    ssrc: ju(q, "ssrc") as u32,
                    sequence_number: ju(q, "seq") as u8,
                })
                .collect(),
        }),
        "nack" => {
            let nacks: Vec<NackPair> = if l.get("pairs").is_some() {
                jarr(l, "pairs")
                    .iter()
                    .map(|p| NackPair {
                        packet_id: p.get(0).and_then(|x| x.as_u64()).unwrap_or(0) as u16,
                        lost_packets: p.get(1).and_then(|x| x.as_u64()).unwrap_or(0) as u16,
                    })
                    .collect()
            } else {
                let set: BTreeSet<u16> = jarr(l, "lost")
                    .iter()
                    .map(|x| x.as_u64().unwrap_or(0) as u16)
                    .collect();
                let sorted: Vec<u16> = set.into_iter().collect();
                nack_pairs_from_sequence_numbers(&sorted)
            };
            RefPkt::Nack(RNack {
                sender_ssrc: ju(l, "sender") as u32,
                media_ssrc: ju(l, "media") as u32,
                nacks,
            })
        }
        "remb" => {
            // exact in f32: at most 18 significant bits, exponent <= 2^81
            let bitrate = if l.get("wire_exp").is_some() {
                (ju(l, "wire_mant") as f32) * 2f32.powi(ju(l, "wire_exp") as i32)
            } else {
                remb_floor(ju(l, "bitrate")) as f32
            };
            RefPkt::Remb(RRemb {
                sender_ssrc: ju(l, "sender") as u32,
                bitrate,
                ssrcs: ju32s(l, "ssrcs"),
            })
        }
        "twcc" => {
            if ju(l, "ref_time") > 0xFF_FFFF {
                return None;
            }
            RefPkt::Twcc(RTwcc {
                sender_ssrc: ju(l, "sender") as u32,
                media_ssrc: ju(l, "media") as u32,
                base_sequence_number: ju(l, "base") as u16,
                packet_status_count: ju(l, "count") as u16,
                reference_time: ju(l, "ref_time") as u32,
                fb_pkt_count: ju(l, "fb") as u8,
                packet_chunks: jarr(l, "chunks")
                    .iter()
                    .map(|c| ref_chunk(c.as_u64().unwrap_or(0) as u16))
                    .collect(),
                recv_deltas: jarr(l, "deltas")
                    .iter()
                    .map(|d| {
                        let kind = d.get(0).and_then(|x| x.as_u64()).unwrap_or(1);
                        let val = d.get(1).and_then(|x| x.as_i64()).unwrap_or(0);
                        RecvDelta {
                            type_tcc_packet: if kind == 1 {
                                SymbolTypeTcc::PacketReceivedSmallDelta
                            } else {
                                SymbolTypeTcc::PacketReceivedLargeDelta
                            },
                            delta: val * 250,
                        }
                    })
                    .collect(),
            })
        }
        _ => return None,
    })
}

fn ref_marshal(p: &RefPkt) -> Result<Vec<u8>, String> {
    let r = guard(|| match p {
        RefPkt::Sr(x) => x.marshal(),
        RefPkt::Rr(x) => x.marshal(),
        RefPkt::Sdes(x) => x.marshal(),
        RefPkt::Bye(x) => x.marshal(),
        RefPkt::Pli(x) => x.marshal(),
        RefPkt::Fir(x) => x.marshal(),
        RefPkt::Nack(x) => x.marshal(),
        RefPkt::Remb(x) => x.marshal(),
        RefPkt::Twcc(x) => x.marshal(),
        RefPkt::Other(_) => Err(webrtc_util::Error::Other("other".into())),
    });
    match r {
        Ok(Ok(b)) => Ok(b.to_vec()),
        Ok(Err(e)) => Err(format!("{e}")),
        Err(loc) => Err(format!("reference panicked at {loc}")),
    }
}

fn ref_parse(w: &[u8]) -> Result<Vec<RefPkt>, String> {
    let r = guard(|| {
        let mut b = Bytes::copy_from_slice(w);
        rc::packet::unmarshal(&mut b)
    });
    let list = match r {
        Ok(Ok(l)) => l,
        Ok(Err(e)) => return Err(format!("{e}")),
        Err(loc) => return Err(format!("reference panicked at {loc}")),
    };
    let mut out = vec![];
    for p in list {
        let a = p.as_any();
        let x = if let Some(v) = a.downcast_ref::<RSr>() {
            RefPkt::Sr(v.clone())
        } else if let Some(v) = a.downcast_ref::<RRr>() {
            RefPkt::Rr(v.clone())
        } else if let Some(v) = a.downcast_ref::<RSdes>() {
            RefPkt::Sdes(v.clone())
        } else if let Some(v) = a.downcast_ref::<RGoodbye>() {
            RefPkt::Bye(v.clone())
        } else if let Some(v) = a.downcast_ref::<RPli>() {
            RefPkt::Pli(v.clone())
        } else if let Some(v) = a.downcast_ref::<RFir>() {
            RefPkt::Fir(v.clone())
        } else if let Some(v) = a.downcast_ref::<RNack>() {
            RefPkt::Nack(v.clone())
        } else if let Some(v) = a.downcast_ref::<RRemb>() {
            RefPkt::Remb(v.clone())
        } else if let Some(v) = a.downcast_ref::<RTwcc>() {
            RefPkt::Twcc(v.clone())
        } else {
            RefPkt::Other(format!("{}", p.header().packet_type))
        };
        out.push(x);
    }
    Ok(out)
}

/// logical equality on the reference side (NACK: the set of sequence numbers, any pairing)
fn ref_eq(a: &RefPkt, b: &RefPkt) -> bool {
    match (a, b) {
        (RefPkt::Nack(x), RefPkt::Nack(y)) => {
            let set = |n: &RNack| -> BTreeSet<u16> {
                n.nacks.iter().flat_map(|p| p.packet_list()).collect()
            };
            x.sender_ssrc == y.sender_ssrc && x.media_ssrc == y.media_ssrc && set(x) == set(y)
        }
        (RefPkt::Fir(x), RefPkt::Fir(y)) => x.sender_ssrc == y.sender_ssrc && x.fir == y.fir,
        _ => a == b,
    }
}

/// The reference is an oracle for this logical packet only if it round-trips it itself.
fn ref_usable(l: &Value, acc: &mut Acc) -> Option<(RefPkt, Vec<u8>)> {
    let t = js(l, "t").to_string();
    let Some(r) = ref_from(l) else {
        acc.c(&format!("ref_skipped:{t}:not_representable"));
        return None;
    };
    let w = match ref_marshal(&r) {
        Ok(w) => w,
        Err(_) => {
            acc.c(&format!("ref_skipped:{t}:marshal_err"));
            return None;
        }
    };
    match ref_parse(&w) {
        Ok(v) if v.len() == 1 && ref_eq(&v[0], &r) => Some((r, w)),
        _ => {
            acc.c(&format!("ref_skipped:{t}:not_self_consistent"));
            None
        }
    }
}

/// harness-own framing check of one serialised RTCP packet (RFC 3550 §6.4.1 common header)
fn framing_ok(bytes: &[u8], t: &str) -> bool {
    if bytes.len() < 4 || bytes.len() % 4 != 0 || bytes[0] >> 6 != 2 {
        return false;
    }
    let words = u16::from_be_bytes([bytes[2], bytes[3]]) as usize;
    if (words + 1) * 4 != bytes.len() {
        return false;
    }
    let pt = bytes[1];
    let fmt = bytes[0] & 0x1F;
    match t {
        "sr" => pt == 200,
        "rr" => pt == 201,
        "sdes" => pt == 202,
        "bye" => pt == 203,
        "pli" => pt == 206 && fmt == 1,
        "fir" => pt == 206 && fmt == 4,
        "remb" => pt == 206 && fmt == 15,
        "nack" => pt == 205 && fmt == 1,
        "twcc" => pt == 205 && fmt == 15,
        _ => false,
    }
}

// ================================================================== RTCP laws

fn su_marshal(pkts: &[su::RtcpPacket]) -> Result<Result<Vec<u8>, String>, String> {
    guard(|| su::marshal_rtcp_packets(pkts).map_err(|e| format!("{e}")))
}
fn su_parse(w: &[u8]) -> Result<Result<Vec<su::RtcpPacket>, String>, String> {
    guard(|| su::parse_rtcp_packets(w, None).map_err(|e| format!("{e}")))
}

/// p2w for one logical packet. Ok(Some(bytes)) = serialised and all laws held.
fn rtcp_single_p2w(l: &Value, acc: &mut Acc) -> Result<Option<Vec<u8>>, Verdict> {
    let t = js(l, "t").to_string();
    let Some(p) = su_from(l, false) else {
        return Err(Verdict::Inconclusive(format!(
            "scenario has unknown rtcp type {t:?}"
        )));
    };
    let exp = su_from(l, true).unwrap_or_else(|| p.clone());
    acc.s("rtcp_types_p2w", t.clone());
    let tag = class_tag(l);
    if !tag.is_empty() {
        acc.s("overflow_classes", format!("{t}{tag}"));
    }
    let bytes = match su_marshal(std::slice::from_ref(&p)) {
        Err(loc) => {
            return Err(viol(
                rtcp_key(l, &format!("panic_marshal@{loc}"), ""),
                format!("marshal_rtcp_packets panicked at {loc}"),
                json!({"packet": l}),
            ));
        }
        Ok(Err(e)) => {
            acc.c(&format!("marshal_err:{t}"));
            acc.s("marshal_errors", format!("{t}: {e}"));
            return Ok(None); // Err for a value the format cannot carry is fine
        }
        Ok(Ok(b)) => b,
    };
    acc.nontrivial = true;
    acc.c(&format!("p2w_serialised:{t}"));
    if !framing_ok(&bytes, &t) {
        return Err(viol(
            rtcp_key(l, "framing", "header"),
            "serialised RTCP packet has an inconsistent common header (version/PT/FMT/length/alignment)".into(),
            json!({"packet": l, "bytes": hex_cap(&bytes, 96)}),
        ));
    }
    // law 1: rustrtc parses its own bytes back to the logical packet
    match su_parse(&bytes) {
        Err(loc) => {
            return Err(viol(
                rtcp_key(l, &format!("panic_parse@{loc}"), ""),
                format!("parse_rtcp_packets panicked at {loc} on rustrtc's own output"),
                json!({"packet": l, "bytes": hex_cap(&bytes, 96)}),
            ));
        }
        Ok(Err(e)) => {
            return Err(viol(
                rtcp_key(l, "self", "parse_err"),
                format!("rustrtc serialised the packet (Ok) but cannot parse its own bytes: {e}"),
                json!({"packet": l, "bytes": hex_cap(&bytes, 96), "error": e}),
            ));
        }
        Ok(Ok(v)) => {
            let d = if v.len() != 1 {
                Some(format!("packet_count={}", v.len()))
            } else {
                diff_su(&exp, &v[0], false)
            };
            if let Some(field) = d {
                return Err(viol(
                    rtcp_key(l, "self", &field),
                    format!("parse(marshal(p)) != p: first differing field {field}"),
                    json!({"packet": l, "bytes": hex_cap(&bytes, 96), "field": field,
                           "parsed": format!("{:.600}", format!("{:?}", v))}),
                ));
            }
        }
    }
    // law 2: the reference parses the same bytes to the same fields
    if let Some((r, _)) = ref_usable(l, acc) {
        acc.c(&format!("p2w_ref_compared:{t}"));
        let bad = match ref_parse(&bytes) {
            Err(e) => Some(format!("reference rejects the bytes: {e}")),
            Ok(v) if v.len() != 1 => Some(format!("reference sees {} packets", v.len())),
            Ok(v) if !ref_eq(&v[0], &r) => Some(format!(
                "reference parses different fields: {:.400}",
                format!("{:?}", v[0])
            )),
            Ok(_) => None,
        };
        if let Some(why) = bad {
            return Err(viol(
                rtcp_key(l, "ref", "mismatch"),
                format!("independent implementation disagrees on rustrtc's bytes: {why}"),
                json!({"packet": l, "bytes": hex_cap(&bytes, 96), "why": why}),
            ));
        }
    }
    Ok(Some(bytes))
}

fn check_rtcp_p2w(sc: &Value, acc: &mut Acc) -> Verdict {
    let pkts = jarr(sc, "pkts");
    let mut all_ok = true;
    for l in pkts {
        match rtcp_single_p2w(l, acc) {
            Err(v) => return v,
            Ok(None) => all_ok = false,
            Ok(Some(_)) => {}
        }
    }
    if !all_ok || pkts.len() < 2 {
        return Verdict::Held;
    }
    // compound, in the given order
    let ps: Vec<su::RtcpPacket> = pkts.iter().filter_map(|l| su_from(l, false)).collect();
    let es: Vec<su::RtcpPacket> = pkts.iter().filter_map(|l| su_from(l, true)).collect();
    let order: Vec<&str> = ps.iter().map(su_type).collect();
    let bytes = match su_marshal(&ps) {
        Ok(Ok(b)) => b,
        Ok(Err(e)) => {
            return viol(
                "rtcp.compound:marshal_err".into(),
                format!("every member serialises alone but the compound does not: {e}"),
                json!({"order": order}),
            );
        }
        Err(loc) => {
            return viol(
                format!("rtcp.compound:panic_marshal@{loc}"),
                "panic serialising a compound".into(),
                json!({"order": order}),
            );
        }
    };
    acc.c("compound_p2w");
    acc.s("compound_sizes", format!("{}", ps.len()));
    match su_parse(&bytes) {
        Ok(Ok(v)) => {
            if v.len() != es.len() {
                return viol(
                    "rtcp.compound:self:packet_count".into(),
                    format!(
                        "compound of {} parses back to {} packets",
                        es.len(),
                        v.len()
                    ),
                    json!({"order": order, "bytes": hex_cap(&bytes, 128)}),
                );
            }
            for (e, g) in es.iter().zip(&v) {
                if let Some(f) = diff_su(e, g, false) {
                    return viol(
                        format!("rtcp.compound:self:{}.{}", su_type(e), f),
                        "compound round trip changes a member".into(),
                        json!({"order": order, "field": f, "bytes": hex_cap(&bytes, 128)}),
                    );
                }
            }
        }
        Ok(Err(e)) => {
            return viol(
                "rtcp.compound:self:parse_err".into(),
                format!("rustrtc cannot parse its own compound: {e}"),
                json!({"order": order, "bytes": hex_cap(&bytes, 128)}),
            );
        }
        Err(loc) => {
            return viol(
                format!("rtcp.compound:panic_parse@{loc}"),
                "panic parsing own compound".into(),
                json!({"order": order}),
            );
        }
    }
    let rs: Vec<Option<RefPkt>> = pkts
        .iter()
        .map(|l| ref_usable(l, acc).map(|x| x.0))
        .collect();
    // the reference rejects a whole datagram when it dislikes one member (e.g. SDES item types > 8),
    // so it is consulted on the compound only when it is usable for every member
    if rs.iter().any(|r| r.is_none()) {
        acc.c("ref_skipped:compound_member_unusable");
    } else {
        match ref_parse(&bytes) {
            Ok(v) if v.len() == rs.len() => {
                for (i, (r, g)) in rs.iter().zip(&v).enumerate() {
                    if let Some(r) = r {
                        if !ref_eq(r, g) {
                            return viol(
                                format!("rtcp.compound:ref:{}", order[i]),
                                "reference parses a compound member differently".into(),
                                json!({"order": order, "index": i, "got": format!("{:.400}", format!("{g:?}"))}),
                            );
                        }
                    }
                }
                acc.c("compound_p2w_ref_compared");
            }
            Ok(v) => {
                return viol(
                    "rtcp.compound:ref:packet_count".into(),
                    format!(
                        "reference sees {} packets in a compound of {}",
                        v.len(),
                        rs.len()
                    ),
                    json!({"order": order, "bytes": hex_cap(&bytes, 128)}),
                );
            }
            Err(e) => {
                return viol(
                    "rtcp.compound:ref:parse_err".into(),
                    format!("reference rejects rustrtc's compound: {e}"),
                    json!({"order": order, "bytes": hex_cap(&bytes, 128)}),
                );
            }
        }
    }
    Verdict::Held
}

/// reference wire for one logical packet (+ hand patch of the REMB mantissa/exponent bytes)
fn ref_wire(l: &Value, acc: &mut Acc) -> Option<(RefPkt, Vec<u8>)> {
    let (r, mut w) = ref_usable(l, acc)?;
    if js(l, "t") == "remb" && l.get("wire_exp").is_some() && w.len() >= 20 {
        let m = ju(l, "wire_mant") as u32 & 0x3FFFF;
        let e = ju(l, "wire_exp") as u8 & 0x3F;
        w[17] = (e << 2) | (m >> 16) as u8;
        w[18] = (m >> 8) as u8;
        w[19] = m as u8;
        // the patched bytes must still mean the same to the reference
        match ref_parse(&w) {
            Ok(v) if v.len() == 1 && ref_eq(&v[0], &r) => {}
            _ => {
                acc.c("ref_skipped:remb:patched_not_consistent");
                return None;
            }
        }
    }
    Some((r, w))
}

fn rtcp_single_w2p(l: &Value, r: &RefPkt, w: &[u8], acc: &mut Acc) -> Result<(), Verdict> {
    let t = js(l, "t").to_string();
    acc.s("rtcp_types_w2p", t.clone());
    acc.nontrivial = true;
    let exp = su_from(l, true);
    let overflow = remb_wire_overflow(l);
    let parsed = match su_parse(w) {
        Err(loc) => {
            return Err(viol(
                format!("rtcp.{t}:w2p:panic_parse@{loc}"),
                format!("parse_rtcp_packets panicked at {loc} on a well-formed reference packet"),
                json!({"packet": l, "wire": hex_cap(w, 96)}),
            ));
        }
        Ok(Err(e)) => {
            if overflow {
                acc.c("w2p_remb_overflow_rejected");
                return Ok(());
            }
            return Err(viol(
                format!("rtcp.{t}:w2p:parse_err"),
                format!("rustrtc rejects a well-formed packet produced by the reference: {e}"),
                json!({"packet": l, "wire": hex_cap(w, 96), "error": e}),
            ));
        }
        Ok(Ok(v)) => v,
    };
    if overflow {
        let got = match parsed.first() {
            Some(su::RtcpPacket::RemoteBitrateEstimate(x)) => x.bitrate_bps,
            _ => 0,
        };
        return Err(viol(
            "rtcp.remb[mantissa<<exp>u64]:silent_bad_decoding".into(),
            format!(
                "REMB mantissa {} << exponent {} does not fit u64; parse returned Ok with bitrate_bps={} (high bits shifted out)",
                ju(l, "wire_mant"),
                ju(l, "wire_exp"),
                got
            ),
            json!({"packet": l, "wire": hex_cap(w, 64), "parsed_bitrate": got}),
        ));
    }
    let d = match (&exp, parsed.len()) {
        (Some(e), 1) => diff_su(e, &parsed[0], true),
        (_, n) => Some(format!("packet_count={n}")),
    };
    if let Some(field) = d {
        return Err(viol(
            format!("rtcp.{t}:w2p:{field}"),
            format!("rustrtc parses a reference packet to different fields (first: {field})"),
            json!({"packet": l, "wire": hex_cap(w, 96), "parsed": format!("{:.600}", format!("{parsed:?}"))}),
        ));
    }
    acc.c(&format!("w2p_parsed_equal:{t}"));
    // re-serialise what was parsed; the reference must read the same fields again
    let w2 = match su_marshal(&parsed) {
        Err(loc) => {
            return Err(viol(
                format!("rtcp.{t}:w2p_remarshal:panic@{loc}"),
                "panic re-serialising a parsed packet".into(),
                json!({"packet": l}),
            ));
        }
        Ok(Err(e)) => {
            return Err(viol(
                format!("rtcp.{t}:w2p_remarshal:marshal_err"),
                format!(
                    "a packet rustrtc parsed from a well-formed wire cannot be serialised: {e}"
                ),
                json!({"packet": l, "wire": hex_cap(w, 96)}),
            ));
        }
        Ok(Ok(b)) => b,
    };
    if w2 == w {
        acc.c("w2p_byte_identical");
    } else {
        acc.c("w2p_bytes_differ_fields_equal_required");
    }
    let bad = match ref_parse(&w2) {
        Err(e) => Some(format!("reference rejects: {e}")),
        Ok(v) if v.len() != 1 => Some(format!("reference sees {} packets", v.len())),
        Ok(v) if !ref_eq(&v[0], r) => {
            Some(format!("fields differ: {:.400}", format!("{:?}", v[0])))
        }
        Ok(_) => None,
    };
    if let Some(why) = bad {
        return Err(viol(
            format!("rtcp.{t}:w2p_remarshal:ref_mismatch"),
            format!("marshal(parse(w)) is not read back by the reference as w was: {why}"),
            json!({"packet": l, "wire": hex_cap(w, 96), "rewire": hex_cap(&w2, 96)}),
        ));
    }
    Ok(())
}

fn check_rtcp_w2p(sc: &Value, acc: &mut Acc) -> Verdict {
    let mut usable: Vec<(&Value, RefPkt, Vec<u8>)> = vec![];
    for l in jarr(sc, "pkts") {
        if let Some((r, w)) = ref_wire(l, acc) {
            usable.push((l, r, w));
        }
    }
    for (l, r, w) in &usable {
        if let Err(v) = rtcp_single_w2p(l, r, w, acc) {
            return v;
        }
    }
    if usable.len() < 2 || usable.iter().any(|(l, _, _)| remb_wire_overflow(l)) {
        return Verdict::Held;
    }
    // compound = concatenation in order; optional RTCP padding on the last member
    let mut w: Vec<u8> = vec![];
    let mut last_off = 0;
    for (_, _, x) in &usable {
        last_off = w.len();
        w.extend_from_slice(x);
    }
    let pad_words = ju(sc, "pad_words") as usize;
    let last_has_p = w[last_off] & 0x20 != 0;
    if pad_words > 0 && pad_words < 64 && !last_has_p {
        let words = u16::from_be_bytes([w[last_off + 2], w[last_off + 3]]) as usize + pad_words;
        w[last_off] |= 0x20;
        w[last_off + 2..last_off + 4].copy_from_slice(&(words as u16).to_be_bytes());
        w.extend(std::iter::repeat(0u8).take(pad_words * 4 - 1));
        w.push((pad_words * 4) as u8);
        // only use the padded form if the reference still reads the same compound
        let ok = matches!(ref_parse(&w), Ok(v) if v.len() == usable.len()
            && v.iter().zip(&usable).all(|(g, (_, r, _))| ref_eq(g, r)));
        if !ok {
            acc.c("ref_skipped:compound_padding");
            w.truncate(w.len() - pad_words * 4);
            w[last_off] &= !0x20;
            let words = words - pad_words;
            w[last_off + 2..last_off + 4].copy_from_slice(&(words as u16).to_be_bytes());
        } else {
            acc.c("compound_w2p_padded");
        }
    }
    let order: Vec<&str> = usable.iter().map(|(l, _, _)| js(l, "t")).collect();
    acc.c("compound_w2p");
    match su_parse(&w) {
        Ok(Ok(v)) => {
            if v.len() != usable.len() {
                return viol(
                    "rtcp.compound:w2p:packet_count".into(),
                    format!(
                        "reference compound of {} parsed as {} packets",
                        usable.len(),
                        v.len()
                    ),
                    json!({"order": order, "wire": hex_cap(&w, 128)}),
                );
            }
            for ((l, _, _), g) in usable.iter().zip(&v) {
                if let Some(e) = su_from(l, true) {
                    if let Some(f) = diff_su(&e, g, true) {
                        return viol(
                            format!("rtcp.compound:w2p:{}.{}", js(l, "t"), f),
                            "member of a reference compound parsed differently than alone".into(),
                            json!({"order": order, "field": f, "wire": hex_cap(&w, 128)}),
                        );
                    }
                }
            }
            // re-serialise the whole compound, reference must agree member by member
            match su_marshal(&v) {
                Ok(Ok(w2)) => match ref_parse(&w2) {
                    Ok(g)
                        if g.len() == usable.len()
                            && g.iter().zip(&usable).all(|(g, (_, r, _))| ref_eq(g, r)) => {}
                    other => {
                        return viol(
                            "rtcp.compound:w2p_remarshal:ref_mismatch".into(),
                            "re-serialised compound is not read back by the reference as the original".into(),
                            json!({"order": order, "rewire": hex_cap(&w2, 128),
                                   "ref": format!("{:.300}", format!("{other:?}"))}),
                        );
                    }
                },
                Ok(Err(e)) => {
                    return viol(
                        "rtcp.compound:w2p_remarshal:marshal_err".into(),
                        format!("parsed compound cannot be serialised: {e}"),
                        json!({"order": order}),
                    );
                }
                Err(loc) => {
                    return viol(
                        format!("rtcp.compound:w2p_remarshal:panic@{loc}"),
                        "panic".into(),
                        json!({"order": order}),
                    );
                }
            }
        }
        Ok(Err(e)) => {
            return viol(
                "rtcp.compound:w2p:parse_err".into(),
                format!("rustrtc rejects a well-formed reference compound: {e}"),
                json!({"order": order, "wire": hex_cap(&w, 128)}),
            );
        }
        Err(loc) => {
            return viol(
                format!("rtcp.compound:w2p:panic_parse@{loc}"),
                "panic parsing a reference compound".into(),
                json!({"order": order, "wire": hex_cap(&w, 128)}),
            );
        }
    }
    Verdict::Held
}

// ================================================================== RTP

/// harness RFC 8285 encoder: elems [[id, hex]], optional gaps (zero bytes before an element)
fn ext_data(ext: &Value) -> Vec<u8> {
    let mut d = vec![];
    match js(ext, "kind") {
        "raw" => return jhex(ext, "raw"),
        kind => {
            let gaps = jarr(ext, "gaps");
            for (i, e) in jarr(ext, "elems").iter().enumerate() {
                let id = e.get(0).and_then(|x| x.as_u64()).unwrap_or(0) as u8;
                let v = unhex(e.get(1).and_then(|x| x.as_str()).unwrap_or(""));
                let g = gaps.get(i).and_then(|x| x.as_u64()).unwrap_or(0);
                d.extend(std::iter::repeat(0u8).take(g as usize));
                if kind == "one" {
                    d.push((id << 4) | ((v.len().max(1) - 1) as u8 & 0x0F));
                } else {
                    d.push(id);
                    d.push(v.len() as u8);
                }
                d.extend_from_slice(&v);
            }
        }
    }
    while d.len() % 4 != 0 {
        d.push(0);
    }
    d
}

fn ext_model(ext: &Value) -> BTreeMap<u8, Vec<u8>> {
    let mut m = BTreeMap::new();
    if js(ext, "kind") == "raw" {
        return m;
    }
    for e in jarr(ext, "elems") {
        let id = e.get(0).and_then(|x| x.as_u64()).unwrap_or(0) as u8;
        let v = unhex(e.get(1).and_then(|x| x.as_str()).unwrap_or(""));
        m.entry(id).or_insert(v);
    }
    m
}

fn su_rtp_from(l: &Value) -> su::RtpPacket {
    let ext = l.get("ext").filter(|e| !e.is_null());
    su::RtpPacket {
        header: su::RtpHeader {
            marker: jb(l, "m"),
            payload_type: ju(l, "pt") as u8,
            sequence_number: ju(l, "seq") as u16,
            timestamp: ju(l, "ts") as u32,
            ssrc: ju(l, "ssrc") as u32,
            csrcs: ju32s(l, "csrcs"),
            extension: ext
                .map(|e| su::RtpHeaderExtension::new(ju(e, "profile") as u16, ext_data(e))),
        },
        payload: Bytes::from(jhex(l, "payload")),
        padding_len: ju(l, "pad") as u8,
    }
}

fn ref_rtp_from(l: &Value) -> rp::packet::Packet {
    let ext = l.get("ext").filter(|e| !e.is_null());
    let mut h = rp::header::Header {
        version: 2,
        padding: false,
        extension: ext.is_some(),
        marker: jb(l, "m"),
        payload_type: ju(l, "pt") as u8,
        sequence_number: ju(l, "seq") as u16,
        timestamp: ju(l, "ts") as u32,
        ssrc: ju(l, "ssrc") as u32,
        csrc: ju32s(l, "csrcs"),
        extension_profile: 0,
        extensions: vec![],
        extensions_padding: 0,
    };
    if let Some(e) = ext {
        h.extension_profile = ju(e, "profile") as u16;
        if js(e, "kind") == "raw" {
            h.extensions.push(rp::header::Extension {
                id: 0,
                payload: Bytes::from(jhex(e, "raw")),
            });
        } else {
            for x in jarr(e, "elems") {
                h.extensions.push(rp::header::Extension {
                    id: x.get(0).and_then(|v| v.as_u64()).unwrap_or(0) as u8,
                    payload: Bytes::from(unhex(x.get(1).and_then(|v| v.as_str()).unwrap_or(""))),
                });
            }
        }
    }
    rp::packet::Packet {
        header: h,
        payload: Bytes::from(jhex(l, "payload")),
    }
}

fn ref_rtp_parse(w: &[u8]) -> Result<rp::packet::Packet, String> {
    match guard(|| {
        let mut b = Bytes::copy_from_slice(w);
        rp::packet::Packet::unmarshal(&mut b)
    }) {
        Ok(Ok(p)) => Ok(p),
        Ok(Err(e)) => Err(format!("{e}")),
        Err(loc) => Err(format!("reference panicked at {loc}")),
    }
}

fn diff_rtp_su(a: &su::RtpPacket, b: &su::RtpPacket) -> Option<&'static str> {
    let (x, y) = (&a.header, &b.header);
    if x.marker != y.marker {
        return Some("marker");
    }
    if x.payload_type != y.payload_type {
        return Some("payload_type");
    }
    if x.sequence_number != y.sequence_number {
        return Some("sequence_number");
    }
    if x.timestamp != y.timestamp {
        return Some("timestamp");
    }
    if x.ssrc != y.ssrc {
        return Some("ssrc");
    }
    if x.csrcs != y.csrcs {
        return Some("csrcs");
    }
    match (&x.extension, &y.extension) {
        (None, None) => {}
        (Some(p), Some(q)) => {
            if p.profile != q.profile {
                return Some("extension.profile");
            }
            if p.data != q.data {
                return Some("extension.data");
            }
        }
        _ => return Some("extension.present"),
    }
    if a.payload != b.payload {
        return Some("payload");
    }
    if a.padding_len != b.padding_len {
        return Some("padding_len");
    }
    None
}

/// rustrtc packet vs the reference's parse of the same bytes: logical fields only
fn diff_rtp_ref(a: &su::RtpPacket, r: &rp::packet::Packet, total_len: usize) -> Option<String> {
    let (x, y) = (&a.header, &r.header);
    if y.version != 2 {
        return Some("version".into());
    }
    if x.marker != y.marker {
        return Some("marker".into());
    }
    if x.payload_type != y.payload_type {
        return Some("payload_type".into());
    }
    if x.sequence_number != y.sequence_number {
        return Some("sequence_number".into());
    }
    if x.timestamp != y.timestamp {
        return Some("timestamp".into());
    }
    if x.ssrc != y.ssrc {
        return Some("ssrc".into());
    }
    if x.csrcs != y.csrc {
        return Some("csrcs".into());
    }
    if x.extension.is_some() != y.extension {
        return Some("extension.present".into());
    }
    if let Some(e) = &x.extension {
        if e.profile != y.extension_profile {
            return Some("extension.profile".into());
        }
        let ids: Vec<u8> = match e.profile {
            0xBEDE => (1..=14).collect(),
            0x1000 => (1..=255).collect(),
            _ => vec![],
        };
        if ids.is_empty() {
            let rp_data = y
                .extensions
                .first()
                .map(|z| z.payload.clone())
                .unwrap_or_default();
            if rp_data != e.data {
                return Some("extension.data".into());
            }
        }
        for id in ids {
            if x.get_extension(id) != y.get_extension(id) {
                return Some("extension.element".into());
            }
        }
    }
    if a.payload != r.payload {
        return Some("payload".into());
    }
    if (a.padding_len > 0) != y.padding {
        return Some("padding_bit".into());
    }
    // header + payload + padding must account for every byte of the wire
    let hdr = 12 + 4 * x.csrcs.len() + x.extension.as_ref().map_or(0, |e| 4 + e.data.len());
    if hdr + a.payload.len() + a.padding_len as usize != total_len {
        return Some("length_accounting".into());
    }
    None
}

fn rtp_tag(l: &Value) -> &'static str {
    if jarr(l, "csrcs").len() > 15 {
        "[csrcs>15]"
    } else {
        ""
    }
}

fn check_elements(h: &su::RtpHeader, model: &BTreeMap<u8, Vec<u8>>, two_byte: bool) -> Option<u8> {
    let max = if two_byte { 255u8 } else { 14u8 };
    for id in 1..=max {
        let got = h.get_extension(id).map(|b| b.to_vec());
        if got.as_ref() != model.get(&id) {
            return Some(id);
        }
    }
    None
}

fn check_rtp_p2w(sc: &Value, acc: &mut Acc) -> Verdict {
    let l = &sc["pkt"];
    let p = su_rtp_from(l);
    let tag = rtp_tag(l);
    acc.s(
        "rtp_shapes",
        format!(
            "csrc={} pad={} ext={}",
            p.header.csrcs.len(),
            match p.padding_len {
                0 => "0",
                1 => "1",
                255 => "255",
                _ => "mid",
            },
            l.get("ext")
                .filter(|e| !e.is_null())
                .map(|e| js(e, "kind").to_string())
                .unwrap_or("none".into())
        ),
    );
    let bytes = match guard(|| p.marshal().map_err(|e| format!("{e}"))) {
        Err(loc) => {
            return viol(
                format!("rtp{tag}:panic_marshal@{loc}"),
                "RtpPacket::marshal panicked".into(),
                json!({"pkt": l}),
            );
        }
        Ok(Err(e)) => {
            acc.c("rtp_marshal_err");
            acc.s("marshal_errors", format!("rtp: {e}"));
            return Verdict::Held;
        }
        Ok(Ok(b)) => b,
    };
    acc.nontrivial = true;
    acc.c("rtp_p2w_serialised");
    if !tag.is_empty() {
        // 16 CSRCs cannot be carried; Ok here means the count nibble was silently truncated
        return viol(
            format!("rtp{tag}:silent_bad_encoding"),
            "marshal accepted more CSRCs than the 4-bit count can carry".into(),
            json!({"pkt": l, "bytes": hex_cap(&bytes, 64)}),
        );
    }
    // marshal_into is the second public serialiser: same bytes demanded for in-range packets
    let mut via_into = Vec::new();
    if guard(|| p.marshal_into(&mut via_into)).is_err() || via_into != bytes {
        return viol(
            "rtp:marshal_into:differs_from_marshal".into(),
            "marshal_into and marshal disagree on an in-range packet".into(),
            json!({"pkt": l, "marshal": hex_cap(&bytes, 64), "marshal_into": hex_cap(&via_into, 64)}),
        );
    }
    // ... also when the buffer is reused, as the bridge fast path does ("reusing its capacity
    // across calls"): whatever a previous, longer or shorter, packet left in it
    for (what, fill) in [("longer", bytes.len() + 37), ("shorter", bytes.len() / 2), ("much_longer", bytes.len() + 1500)] {
        let mut reused = vec![0xEEu8; fill];
        if guard(|| p.marshal_into(&mut reused)).is_err() || reused != bytes {
            return viol(
                format!("rtp:marshal_into:reused_buffer_{what}"),
                "marshal_into into a buffer that held another packet does not produce the packet's bytes".into(),
                json!({"pkt": l, "marshal_len": bytes.len(), "marshal_into_len": reused.len(), "buffer_held_bytes": fill,
                       "tail": hex_cap(&reused[bytes.len().min(reused.len())..], 32)}),
            );
        }
    }
    acc.c("rtp_marshal_into_reused_buffer_checks");
    for (name, parsed) in [
        (
            "parse",
            guard(|| su::RtpPacket::parse(&bytes).map_err(|e| format!("{e}"))),
        ),
        (
            "parse_bytes",
            guard(|| {
                su::RtpPacket::parse_bytes(Bytes::from(bytes.clone())).map_err(|e| format!("{e}"))
            }),
        ),
    ] {
        match parsed {
            Err(loc) => {
                return viol(
                    format!("rtp:panic_{name}@{loc}"),
                    "panic parsing own RTP bytes".into(),
                    json!({"pkt": l}),
                );
            }
            Ok(Err(e)) => {
                return viol(
                    format!("rtp:self:{name}_err"),
                    format!("rustrtc cannot parse the RTP packet it serialised: {e}"),
                    json!({"pkt": l, "bytes": hex_cap(&bytes, 64)}),
                );
            }
            Ok(Ok(q)) => {
                if let Some(f) = diff_rtp_su(&p, &q) {
                    return viol(
                        format!("rtp:self:{f}"),
                        format!("parse(marshal(p)) != p at {f}"),
                        json!({"pkt": l, "bytes": hex_cap(&bytes, 64), "parsed": format!("{:.400}", format!("{q:?}"))}),
                    );
                }
            }
        }
    }
    // RFC 8285 model: every element the harness encoded is found under its id
    if let Some(e) = l.get("ext").filter(|e| !e.is_null()) {
        if js(e, "kind") != "raw" {
            if let Some(id) = check_elements(&p.header, &ext_model(e), js(e, "kind") == "two") {
                return viol(
                    format!("rtp.ext:get:{}", js(e, "kind")),
                    format!("get_extension({id}) does not return the encoded element"),
                    json!({"pkt": l, "id": id}),
                );
            }
            acc.c("rtp_ext_model_checked");
        }
    }
    match ref_rtp_parse(&bytes) {
        Err(e) => viol(
            "rtp:ref:parse_err".into(),
            format!("reference rejects rustrtc's RTP bytes: {e}"),
            json!({"pkt": l, "bytes": hex_cap(&bytes, 64)}),
        ),
        Ok(r) => {
            acc.c("rtp_p2w_ref_compared");
            match diff_rtp_ref(&p, &r, bytes.len()) {
                Some(f) => viol(
                    format!("rtp:ref:{f}"),
                    format!("reference parses rustrtc's bytes to a different {f}"),
                    json!({"pkt": l, "bytes": hex_cap(&bytes, 64)}),
                ),
                None => Verdict::Held,
            }
        }
    }
}

/// reference-made wire for a logical RTP packet; RTP padding appended by the harness (RFC 3550 §5.1)
fn ref_rtp_wire(l: &Value) -> Option<Vec<u8>> {
    let r = ref_rtp_from(l);
    let mut w = match guard(|| r.marshal()) {
        Ok(Ok(b)) => b.to_vec(),
        _ => return None,
    };
    let pad = ju(l, "pad") as usize;
    if pad > 0 && pad < 256 {
        w[0] |= 0x20;
        w.extend(std::iter::repeat(0u8).take(pad - 1));
        w.push(pad as u8);
    }
    Some(w)
}

fn check_rtp_w2p(sc: &Value, acc: &mut Acc) -> Verdict {
    let l = &sc["pkt"];
    let Some(w) = ref_rtp_wire(l) else {
        acc.c("ref_skipped:rtp:marshal_err");
        return Verdict::Held;
    };
    let Ok(rw) = ref_rtp_parse(&w) else {
        acc.c("ref_skipped:rtp:not_self_consistent");
        return Verdict::Held;
    };
    if rw.payload != jhex(l, "payload") {
        acc.c("ref_skipped:rtp:not_self_consistent");
        return Verdict::Held;
    }
    acc.nontrivial = true;
    acc.c("rtp_w2p_wires");
    let q = match guard(|| su::RtpPacket::parse(&w).map_err(|e| format!("{e}"))) {
        Err(loc) => {
            return viol(
                format!("rtp:w2p:panic_parse@{loc}"),
                "panic parsing a reference RTP packet".into(),
                json!({"pkt": l, "wire": hex_cap(&w, 64)}),
            );
        }
        Ok(Err(e)) => {
            return viol(
                "rtp:w2p:parse_err".into(),
                format!("rustrtc rejects a well-formed reference RTP packet: {e}"),
                json!({"pkt": l, "wire": hex_cap(&w, 64)}),
            );
        }
        Ok(Ok(q)) => q,
    };
    if let Some(f) = diff_rtp_ref(&q, &rw, w.len()) {
        return viol(
            format!("rtp:w2p:{f}"),
            format!("rustrtc and the reference parse the same wire to a different {f}"),
            json!({"pkt": l, "wire": hex_cap(&w, 64), "parsed": format!("{:.400}", format!("{q:?}"))}),
        );
    }
    if q.padding_len as u64 != ju(l, "pad")
        || q.header.csrcs != ju32s(l, "csrcs")
        || q.header.sequence_number as u64 != ju(l, "seq")
    {
        return viol(
            "rtp:w2p:logical_input".into(),
            "parsed fields differ from the logical packet the wire was made from".into(),
            json!({"pkt": l, "wire": hex_cap(&w, 64)}),
        );
    }
    if let Some(e) = l.get("ext").filter(|e| !e.is_null()) {
        if js(e, "kind") != "raw" {
            if let Some(id) = check_elements(&q.header, &ext_model(e), js(e, "kind") == "two") {
                return viol(
                    format!("rtp.ext:get_received:{}", js(e, "kind")),
                    format!("get_extension({id}) on a received header does not return the element"),
                    json!({"pkt": l, "id": id, "wire": hex_cap(&w, 64)}),
                );
            }
        }
    }
    let w2 = match guard(|| q.marshal().map_err(|e| format!("{e}"))) {
        Err(loc) => {
            return viol(
                format!("rtp:w2p_remarshal:panic@{loc}"),
                "panic".into(),
                json!({"pkt": l}),
            );
        }
        Ok(Err(e)) => {
            return viol(
                "rtp:w2p_remarshal:marshal_err".into(),
                format!("a parsed well-formed packet cannot be serialised: {e}"),
                json!({"pkt": l, "wire": hex_cap(&w, 64)}),
            );
        }
        Ok(Ok(b)) => b,
    };
    if w2 == w {
        acc.c("rtp_w2p_byte_identical");
    } else {
        acc.c("rtp_w2p_bytes_differ");
    }
    match ref_rtp_parse(&w2) {
        Ok(r2) if r2 == rw => Verdict::Held,
        other => viol(
            "rtp:w2p_remarshal:ref_mismatch".into(),
            "reference does not read marshal(parse(w)) as it read w".into(),
            json!({"pkt": l, "wire": hex_cap(&w, 64), "rewire": hex_cap(&w2, 64), "ref": format!("{:.300}", format!("{other:?}"))}),
        ),
    }
}

// ------------------------------------------------------------------ set/get extension

fn check_ext(sc: &Value, acc: &mut Acc) -> Verdict {
    let base = &sc["base"];
    let ext = base.get("ext").filter(|e| !e.is_null());
    let kind = ext
        .map(|e| js(e, "kind").to_string())
        .unwrap_or("none".into());
    let mut model = ext.map(ext_model).unwrap_or_default();
    let mut h = if jb(sc, "via_wire") {
        // a *received* header: reference wire, rustrtc parse
        let Some(w) = ref_rtp_wire(base) else {
            acc.c("ref_skipped:ext:marshal_err");
            return Verdict::Held;
        };
        match guard(|| su::RtpPacket::parse(&w)) {
            Ok(Ok(p)) => p.header,
            _ => {
                return Verdict::Inconclusive(
                    "received header did not parse (reported by rtp_w2p)".into(),
                );
            }
        }
    } else {
        su_rtp_from(base).header
    };
    acc.s(
        "ext_base_kinds",
        format!(
            "{kind}{}",
            if jb(sc, "via_wire") { "(received)" } else { "" }
        ),
    );
    let max_id: u8 = if kind == "two" { 255 } else { 14 };
    for op in jarr(sc, "ops") {
        let id = op.get(0).and_then(|x| x.as_u64()).unwrap_or(0) as u8;
        let val = unhex(op.get(1).and_then(|x| x.as_str()).unwrap_or(""));
        let before: Vec<Option<Vec<u8>>> = (1..=max_id)
            .map(|i| h.get_extension(i).map(|b| b.to_vec()))
            .collect();
        let r = match guard(|| h.set_extension(id, &val).map_err(|e| format!("{e}"))) {
            Err(loc) => {
                return viol(
                    format!("rtp.ext:set:panic@{loc}"),
                    "set_extension panicked on a well-formed header".into(),
                    json!({"scenario": sc}),
                );
            }
            Ok(r) => r,
        };
        acc.nontrivial = true;
        match r {
            Ok(()) => {
                acc.c("ext_set_ok");
                model.insert(id, val.clone());
                if h.get_extension(id).map(|b| b.to_vec()) != Some(val.clone()) {
                    return viol(
                        "rtp.ext:set_then_get:value".into(),
                        format!(
                            "set_extension({id}) Ok but get_extension({id}) does not return the value"
                        ),
                        json!({"scenario": sc, "id": id}),
                    );
                }
                for i in 1..=max_id {
                    if i != id && h.get_extension(i).map(|b| b.to_vec()) != before[(i - 1) as usize]
                    {
                        return viol(
                            "rtp.ext:set:other_id_changed".into(),
                            format!("set_extension({id}) changed extension {i}"),
                            json!({"scenario": sc, "set": id, "changed": i}),
                        );
                    }
                }
            }
            Err(_) => {
                acc.c("ext_set_err");
                for i in 1..=max_id {
                    if h.get_extension(i).map(|b| b.to_vec()) != before[(i - 1) as usize] {
                        return viol(
                            "rtp.ext:set_err:header_changed".into(),
                            format!("set_extension({id}) returned Err but extension {i} changed"),
                            json!({"scenario": sc, "set": id, "changed": i}),
                        );
                    }
                }
            }
        }
    }
    if kind == "raw" {
        return Verdict::Held;
    }
    // the edited header on the wire: model == rustrtc == reference
    if let Some(id) = check_elements(&h, &model, kind == "two") {
        return viol(
            "rtp.ext:model".into(),
            format!("extension {id} differs from the id->value model after the edits"),
            json!({"scenario": sc, "id": id}),
        );
    }
    let pkt = su::RtpPacket::new(h.clone(), vec![1, 2, 3]);
    let bytes = match guard(|| pkt.marshal()) {
        Ok(Ok(b)) => b,
        Ok(Err(e)) => {
            return viol(
                "rtp.ext:edited_header:marshal_err".into(),
                format!("header edited by set_extension does not serialise: {e}"),
                json!({"scenario": sc}),
            );
        }
        Err(loc) => {
            return viol(
                format!("rtp.ext:edited_header:panic@{loc}"),
                "panic".into(),
                json!({"scenario": sc}),
            );
        }
    };
    match ref_rtp_parse(&bytes) {
        Ok(r) => {
            for id in 1..=max_id {
                let want = model.get(&id).cloned();
                if r.header.get_extension(id).map(|b| b.to_vec()) != want {
                    return viol(
                        "rtp.ext:edited_header:ref_mismatch".into(),
                        format!("reference reads extension {id} differently after set_extension"),
                        json!({"scenario": sc, "id": id, "bytes": hex_cap(&bytes, 96)}),
                    );
                }
            }
            acc.c("ext_ref_compared");
        }
        Err(e) => {
            return viol(
                "rtp.ext:edited_header:ref_parse_err".into(),
                format!("reference rejects the edited header: {e}"),
                json!({"scenario": sc, "bytes": hex_cap(&bytes, 96)}),
            );
        }
    }
    match guard(|| su::RtpPacket::parse(&bytes)) {
        Ok(Ok(q)) => match check_elements(&q.header, &model, kind == "two") {
            Some(id) => viol(
                "rtp.ext:edited_header:reparse".into(),
                format!("extension {id} lost across marshal/parse"),
                json!({"scenario": sc, "id": id}),
            ),
            None => Verdict::Held,
        },
        _ => viol(
            "rtp.ext:edited_header:reparse_err".into(),
            "edited header does not parse back".into(),
            json!({"scenario": sc}),
        ),
    }
}

// ------------------------------------------------------------------ RTX

fn check_rtx(sc: &Value, acc: &mut Acc) -> Verdict {
    let orig = su_rtp_from(&sc["orig"]);
    let cfg = rustrtc::rtx::RtxSenderConfig {
        rtx_ssrc: ju(sc, "rtx_ssrc") as u32,
        rtx_payload_type: ju(sc, "rtx_pt") as u8,
    };
    let rtx_seq = ju(sc, "rtx_seq") as u16;
    let wrapped = match guard(|| rustrtc::rtx::wrap_rtx_packet(&orig, &cfg, rtx_seq)) {
        Ok(p) => p,
        Err(loc) => {
            return viol(
                format!("rtx:wrap:panic@{loc}"),
                "wrap_rtx_packet panicked".into(),
                json!({"scenario": sc}),
            );
        }
    };
    let bytes = match guard(|| wrapped.marshal()) {
        Ok(Ok(b)) => b,
        Ok(Err(e)) => {
            return viol(
                "rtx:wrap:marshal_err".into(),
                format!("RTX packet does not serialise: {e}"),
                json!({"scenario": sc}),
            );
        }
        Err(loc) => {
            return viol(
                format!("rtx:marshal:panic@{loc}"),
                "panic".into(),
                json!({"scenario": sc}),
            );
        }
    };
    acc.nontrivial = true;
    acc.c("rtx_wrapped");
    // RFC 4588 §4 as seen by the independent parser: own SSRC/PT/seq, payload = OSN || original payload
    match ref_rtp_parse(&bytes) {
        Ok(r) => {
            let mut want = orig.header.sequence_number.to_be_bytes().to_vec();
            want.extend_from_slice(&orig.payload);
            if r.header.ssrc != cfg.rtx_ssrc
                || r.header.payload_type != cfg.rtx_payload_type
                || r.header.sequence_number != rtx_seq
                || r.header.timestamp != orig.header.timestamp
                || r.header.marker != orig.header.marker
                || r.payload != want
            {
                return viol("rtx:wire:rfc4588".into(), "RTX packet on the wire is not (rtx ssrc, rtx pt, rtx seq, same ts/marker, OSN||payload)".into(),
                    json!({"scenario": sc, "bytes": hex_cap(&bytes, 64)}));
            }
        }
        Err(e) => {
            return viol(
                "rtx:wire:ref_parse_err".into(),
                format!("reference rejects the RTX packet: {e}"),
                json!({"scenario": sc}),
            );
        }
    }
    let received = match guard(|| su::RtpPacket::parse(&bytes)) {
        Ok(Ok(p)) => p,
        _ => {
            return viol(
                "rtx:reparse_err".into(),
                "RTX packet does not parse back".into(),
                json!({"scenario": sc}),
            );
        }
    };
    let restored = match guard(|| {
        rustrtc::rtx::unwrap_rtx_packet(&received, orig.header.ssrc, orig.header.payload_type)
    }) {
        Ok(Some(p)) => p,
        Ok(None) => {
            return viol(
                "rtx:unwrap:none".into(),
                "unwrap_rtx_packet returned None for a packet wrap_rtx_packet produced".into(),
                json!({"scenario": sc}),
            );
        }
        Err(loc) => {
            return viol(
                format!("rtx:unwrap:panic@{loc}"),
                "panic".into(),
                json!({"scenario": sc}),
            );
        }
    };
    let f = if restored.header.sequence_number != orig.header.sequence_number {
        Some("sequence_number")
    } else if restored.header.timestamp != orig.header.timestamp {
        Some("timestamp")
    } else if restored.header.marker != orig.header.marker {
        Some("marker")
    } else if restored.payload != orig.payload {
        Some("payload")
    } else if restored.header.ssrc != orig.header.ssrc
        || restored.header.payload_type != orig.header.payload_type
    {
        Some("ssrc/pt")
    } else {
        None
    };
    match f {
        Some(f) => viol(
            format!("rtx:roundtrip:{f}"),
            format!("unwrap(wrap(p)) does not restore {f}"),
            json!({"scenario": sc}),
        ),
        None => Verdict::Held,
    }
}

// ------------------------------------------------------------------ NACK produced by the receiver interceptor

fn check_nack_gap(sc: &Value, acc: &mut Acc) -> Verdict {
    use rustrtc::peer_connection::{DefaultRtpReceiverNackHandler, RtpReceiverInterceptor};
    let first = ju(sc, "first") as u16;
    let gap = ju(sc, "gap") as u16;
    let ssrc = ju(sc, "ssrc") as u32;
    let addr: std::net::SocketAddr = "127.0.0.1:9".parse().unwrap();
    let h = DefaultRtpReceiverNackHandler::new();
    let mk = |seq: u16| su::RtpPacket::new(su::RtpHeader::new(96, seq, 0, ssrc), vec![0]);
    let second = first.wrapping_add(gap).wrapping_add(1);
    let out = guard(|| {
        futures::executor::block_on(async {
            let _ = h.on_packet_received(&mk(first), addr, addr).await;
            h.on_packet_received(&mk(second), addr, addr).await
        })
    });
    let nack = match out {
        Ok(Some(su::RtcpPacket::GenericNack(n))) => n,
        Ok(_) => {
            acc.c("nack_gap_no_nack");
            return Verdict::Held; // whether a NACK is produced is not part of C15
        }
        Err(loc) => {
            return viol(
                format!("nack_gap:panic@{loc}"),
                "receiver NACK interceptor panicked".into(),
                json!({"scenario": sc}),
            );
        }
    };
    acc.nontrivial = true;
    let want: BTreeSet<u16> = nack.lost_packets.iter().copied().collect();
    if want.iter().any(|s| *s > 65000) && want.iter().any(|s| *s < 500) {
        acc.c("nack_sets_spanning_wrap");
    }
    let l = json!({"t":"nack","sender": nack.sender_ssrc, "media": nack.media_ssrc, "lost": nack.lost_packets});
    match rtcp_single_p2w(&l, acc) {
        Err(v) => v,
        Ok(_) => Verdict::Held,
    }
}

// ================================================================== generators (boundary biased)

fn b_u32(r: &mut Rng) -> u32 {
    match r.below(8) {
        0 => 0,
        1 => u32::MAX,
        2 => 1,
        3 => 0x8000_0000,
        4 => 0x7FFF_FFFF,
        _ => r.u32(),
    }
}
fn b_u16(r: &mut Rng) -> u16 {
    match r.below(8) {
        0 => 0,
        1 => u16::MAX,
        2 => 1,
        3 => 0x8000,
        4 => 65534,
        _ => r.u16(),
    }
}
fn b_u8(r: &mut Rng) -> u8 {
    match r.below(6) {
        0 => 0,
        1 => 255,
        2 => 1,
        _ => r.u8(),
    }
}

/// text of exactly `n` bytes (valid UTF-8); `multi` mixes 2/3/4-byte code points
fn gen_text(r: &mut Rng, n: usize, multi: bool) -> String {
    let mut s = String::new();
    let pool = ["é", "€", "😀", "ß", "漢", "𝄞"];
    while s.len() < n {
        let left = n - s.len();
        if multi && r.chance(2, 3) {
            let c = *r.pick(&pool);
            if c.len() <= left {
                s.push_str(c);
                continue;
            }
        }
        s.push((b'a' + (r.below(26) as u8)) as char);
    }
    s
}

fn gen_block(r: &mut Rng, in_range: bool) -> Value {
    let lost: i64 = match r.below(if in_range { 8 } else { 12 }) {
        0 => -(1 << 23),
        1 => (1 << 23) - 1,
        2 => -(1 << 23) + 1,
        3 => -1,
        4 => 0,
        5 => 1,
        6 | 7 => r.range(0, (1 << 24) - 1) as i64 - (1 << 23),
        8 => 1 << 23,
        9 => -(1 << 23) - 1,
        10 => i32::MAX as i64,
        _ => i32::MIN as i64,
    };
    json!({"ssrc": b_u32(r), "fl": b_u8(r), "lost": lost, "hs": b_u32(r), "jit": b_u32(r),
           "lsr": b_u32(r), "dlsr": b_u32(r)})
}

fn count_in(r: &mut Rng) -> usize {
    match r.below(8) {
        0 => 0,
        1 | 2 => 1,
        3 => 31,
        4 => 2,
        _ => r.range(0, 31) as usize,
    }
}
fn count_over(r: &mut Rng) -> usize {
    *r.pick(&[32usize, 32, 33, 255, 256, 64])
}

#[derive(Clone, Copy, PartialEq)]
enum Over {
    No,
    Count,
    Text,
}

/// `strict` = must stay inside what the reference can encode (w2p direction)
fn gen_rtcp(r: &mut Rng, t: &str, over: Over, strict: bool) -> Value {
    match t {
        "sr" | "rr" => {
            let n = if over == Over::Count {
                count_over(r)
            } else {
                count_in(r)
            };
            let blocks: Vec<Value> = (0..n)
                .map(|_| {
                    let ir = strict || r.chance(9, 10);
                    gen_block(r, ir)
                })
                .collect();
            if t == "sr" {
                json!({"t":"sr","ssrc":b_u32(r),"ntp_most":b_u32(r),"ntp_least":b_u32(r),"rtp_ts":b_u32(r),
                       "pc":b_u32(r),"oc":b_u32(r),"blocks":blocks})
            } else {
                json!({"t":"rr","ssrc":b_u32(r),"blocks":blocks})
            }
        }
        "sdes" => {
            let n = if over == Over::Count {
                count_over(r)
            } else {
                count_in(r)
            };
            let long_at = if over == Over::Text {
                Some(r.usize_below(n.max(1)))
            } else {
                None
            };
            let n = if over == Over::Text { n.max(1) } else { n };
            let chunks: Vec<Value> = (0..n)
                .map(|ci| {
                    let k = if n > 40 {
                        r.below(2)
                    } else {
                        *r.pick(&[0u64, 1, 1, 2, 3])
                    } as usize;
                    let k = if long_at == Some(ci) { k.max(1) } else { k };
                    let items: Vec<Value> = (0..k)
                        .map(|ii| {
                            let len = if long_at == Some(ci) && ii == 0 {
                                *r.pick(&[256usize, 256, 257, 1000, 511, 512])
                            } else if n > 40 {
                                r.range(0, 12) as usize
                            } else {
                                match r.below(8) {
                                    0 => 0,
                                    1 => 1,
                                    2 => 255,
                                    3 => 254,
                                    _ => r.range(0, 40) as usize,
                                }
                            };
                            let ty = if strict || r.chance(9, 10) {
                                r.range(1, 8)
                            } else {
                                r.range(9, 255)
                            };
                            {
                                let m = r.bool();
                                json!({"ty": ty, "text": gen_text(r, len, m)})
                            }
                        })
                        .collect();
                    json!({"ssrc": b_u32(r), "items": items})
                })
                .collect();
            json!({"t":"sdes","chunks":chunks})
        }
        "bye" => {
            let n = if over == Over::Count {
                count_over(r)
            } else {
                count_in(r)
            };
            let sources: Vec<u32> = (0..n).map(|_| b_u32(r)).collect();
            let reason = if over == Over::Text {
                let len = *r.pick(&[256usize, 256, 257, 1000, 300]);
                {
                    let m = r.bool();
                    Value::String(gen_text(r, len, m))
                }
            } else {
                match r.below(6) {
                    0 | 1 => Value::Null,
                    2 => Value::String(String::new()),
                    3 => {
                        let m = r.bool();
                        Value::String(gen_text(r, 255, m))
                    }
                    4 => Value::String(gen_text(r, 1, false)),
                    _ => {
                        let n = r.range(0, 60) as usize;
                        let m = r.bool();
                        Value::String(gen_text(r, n, m))
                    }
                }
            };
            json!({"t":"bye","sources":sources,"reason":reason})
        }
        "pli" => json!({"t":"pli","sender":b_u32(r),"media":b_u32(r)}),
        "fir" => {
            let n = *r.pick(&[0usize, 1, 1, 2, 17, 60]);
            let reqs: Vec<Value> = (0..n)
                .map(|_| json!({"ssrc": b_u32(r), "seq": b_u8(r)}))
                .collect();
            json!({"t":"fir","sender":b_u32(r),"reqs":reqs})
        }
        "nack" => gen_nack(r, strict),
        "remb" => gen_remb(r, strict),
        "twcc" => gen_twcc(r),
        _ => Value::Null,
    }
}

fn expand_pairs(pairs: &[(u16, u16)]) -> Vec<u16> {
    // RFC 4585 §6.2.1: PID, then bit i of BLP <=> PID + i + 1 (mod 2^16)
    let mut out = vec![];
    for (pid, blp) in pairs {
        out.push(*pid);
        for i in 0..16u16 {
            if (blp >> i) & 1 == 1 {
                out.push(pid.wrapping_add(i + 1));
            }
        }
    }
    out
}

fn gen_nack(r: &mut Rng, strict: bool) -> Value {
    let sender = b_u32(r);
    let media = b_u32(r);
    if strict {
        // explicit (pid, blp) pairs on the wire, including pairs whose bitmap crosses 65535 -> 0
        let n = *r.pick(&[1usize, 1, 2, 5, 40]);
        let pairs: Vec<(u16, u16)> = (0..n)
            .map(|_| {
                let pid = if r.chance(1, 2) {
                    65535u16.wrapping_sub(r.below(17) as u16)
                } else {
                    b_u16(r)
                };
                let blp = match r.below(5) {
                    0 => 0,
                    1 => 0xFFFF,
                    2 => 0x8000,
                    3 => 1,
                    _ => r.u16(),
                };
                (pid, blp)
            })
            .collect();
        let lost = expand_pairs(&pairs);
        let pj: Vec<Value> = pairs.iter().map(|(a, b)| json!([a, b])).collect();
        return json!({"t":"nack","sender":sender,"media":media,"lost":lost,"pairs":pj});
    }
    let mut lost: Vec<u16> = vec![];
    match r.below(7) {
        0 => {}
        1 => lost.push(b_u16(r)),
        2 => {
            // dense run across the wrap
            let before = r.range(1, 40) as u16;
            let len = r.range(2, 80) as u16;
            for i in 0..len {
                lost.push(0u16.wrapping_sub(before).wrapping_add(i));
            }
        }
        3 => {
            // sparse around the wrap
            for _ in 0..r.range(2, 30) {
                lost.push((65536i64 + r.range(0, 120) as i64 - 60) as u16);
            }
        }
        4 => {
            for _ in 0..r.range(1, 20) {
                lost.push(r.u16());
            }
        }
        5 => {
            // exactly the bitmap boundaries: pid, pid+16, pid+17
            let pid = if r.bool() { 65530 } else { r.u16() };
            for d in [0u16, 1, 16, 17, 33] {
                lost.push(pid.wrapping_add(d));
            }
        }
        _ => {
            let start = r.u16();
            for i in 0..r.range(100, 400) as u16 {
                if r.chance(2, 3) {
                    lost.push(start.wrapping_add(i));
                }
            }
        }
    }
    if r.chance(1, 3) && !lost.is_empty() {
        let dup = lost[r.usize_below(lost.len())];
        lost.push(dup);
        r.shuffle(&mut lost);
    }
    json!({"t":"nack","sender":sender,"media":media,"lost":lost})
}

fn gen_remb(r: &mut Rng, strict: bool) -> Value {
    let ns = if strict {
        *r.pick(&[0usize, 1, 2, 255, 3])
    } else {
        *r.pick(&[0usize, 1, 2, 255, 256, 3])
    };
    let ssrcs: Vec<u32> = (0..ns).map(|_| b_u32(r)).collect();
    if strict {
        let mant: u64 = match r.below(6) {
            0 => 0,
            1 => 1,
            2 => 1 << 17,
            3 => (1 << 18) - 1,
            _ => r.below(1 << 18),
        };
        let exp = match r.below(6) {
            0 => 0,
            1 => 63,
            2 => 46,
            3 => 47,
            _ => r.below(64),
        };
        let fits = mant == 0 || exp as u32 <= mant.leading_zeros();
        let bitrate = if fits { mant << exp } else { 0 };
        return json!({"t":"remb","sender":b_u32(r),"bitrate":bitrate,"ssrcs":ssrcs,"wire_mant":mant,"wire_exp":exp});
    }
    let k = r.below(64) as u32;
    let bitrate: u64 = match r.below(10) {
        0 => 0,
        1 => u64::MAX,
        2 => (1 << 18) - 1,
        3 => 1 << 18,
        4 => (1 << 18) + 1,
        5 => 1u64 << k,
        6 => (1u64 << k).wrapping_sub(1),
        7 => (1u64 << k) | 1,
        8 => ((1u64 << 18) - 1) << (k % 47),
        _ => r.next_u64() >> k,
    };
    json!({"t":"remb","sender":b_u32(r),"bitrate":bitrate,"ssrcs":ssrcs})
}

fn gen_twcc(r: &mut Rng) -> Value {
    let groups = *r.pick(&[0usize, 1, 1, 2, 3, 8, 40]);
    let mut chunks: Vec<u16> = vec![];
    let mut deltas: Vec<Value> = vec![];
    let mut count: u32 = 0;
    let push_delta = |r: &mut Rng, sym: u16, deltas: &mut Vec<Value>| {
        if sym == 1 {
            deltas.push(json!([1, b_u8(r)]));
        } else if sym == 2 {
            let v = match r.below(4) {
                0 => i16::MIN,
                1 => i16::MAX,
                2 => -1,
                _ => r.u16() as i16,
            };
            deltas.push(json!([2, v]));
        }
    };
    for _ in 0..groups {
        match r.below(3) {
            0 => {
                let sym = r.below(3) as u16;
                let run = match r.below(5) {
                    0 => 1,
                    1 => 300,
                    _ => r.range(1, 20),
                } as u16;
                chunks.push((sym << 13) | run);
                for _ in 0..run {
                    push_delta(r, sym, &mut deltas);
                }
                count += run as u32;
            }
            1 => {
                let mut c: u16 = 0x8000;
                for i in 0..14 {
                    let s = r.below(2) as u16;
                    c |= s << (13 - i);
                    push_delta(r, s, &mut deltas);
                }
                chunks.push(c);
                count += 14;
            }
            _ => {
                let mut c: u16 = 0xC000;
                for i in 0..7 {
                    let s = r.below(3) as u16;
                    c |= s << (12 - 2 * i);
                    push_delta(r, s, &mut deltas);
                }
                chunks.push(c);
                count += 7;
            }
        }
    }
    let ref_time = match r.below(5) {
        0 => 0,
        1 => 0xFF_FFFF,
        2 => 0x80_0000,
        3 => 1,
        _ => r.below(1 << 24),
    };
    json!({"t":"twcc","sender":b_u32(r),"media":b_u32(r),"base":b_u16(r),"count":count.min(65535),
           "ref_time":ref_time,"fb":b_u8(r),"chunks":chunks,"deltas":deltas})
}

const RTCP_TYPES: [&str; 9] = [
    "sr", "rr", "sdes", "bye", "pli", "fir", "nack", "remb", "twcc",
];

fn gen_compound(r: &mut Rng, strict: bool) -> Vec<Value> {
    let n = *r.pick(&[1usize, 1, 1, 2, 2, 3, 4, 6]);
    let over_at = if !strict && r.chance(1, 4) {
        Some(r.usize_below(n))
    } else {
        None
    };
    (0..n)
        .map(|i| {
            let t = *r.pick(&RTCP_TYPES);
            let over = if over_at == Some(i) {
                match t {
                    "sr" | "rr" => Over::Count,
                    "sdes" | "bye" => {
                        if r.bool() {
                            Over::Count
                        } else {
                            Over::Text
                        }
                    }
                    _ => Over::No,
                }
            } else {
                Over::No
            };
            gen_rtcp(r, t, over, strict)
        })
        .collect()
}

fn gen_ext(r: &mut Rng, gaps_ok: bool) -> Value {
    match r.below(8) {
        0 | 1 => Value::Null,
        2 | 3 | 4 => {
            let mut ids: Vec<u8> = (1..=14).collect();
            r.shuffle(&mut ids);
            let n = *r.pick(&[0usize, 1, 1, 2, 3, 14, 5]);
            let elems: Vec<Value> = ids[..n]
                .iter()
                .map(|id| {
                    let len = match r.below(4) {
                        0 => 1,
                        1 => 16,
                        _ => r.range(1, 16),
                    } as usize;
                    json!([id, hex(&r.bytes(len))])
                })
                .collect();
            let gaps: Vec<u64> = (0..n)
                .map(|_| {
                    if gaps_ok && r.chance(1, 4) {
                        r.range(1, 3)
                    } else {
                        0
                    }
                })
                .collect();
            json!({"profile": 0xBEDE, "kind": "one", "elems": elems, "gaps": gaps})
        }
        5 | 6 => {
            let n = *r.pick(&[0usize, 1, 1, 2, 4]);
            let mut used = BTreeSet::new();
            let mut elems = vec![];
            for _ in 0..n {
                let id = match r.below(5) {
                    0 => 1,
                    1 => 255,
                    2 => 15,
                    3 => 16,
                    _ => r.range(1, 255),
                } as u8;
                if !used.insert(id) {
                    continue;
                }
                let len = match r.below(6) {
                    0 => 0,
                    1 => 255,
                    2 => 1,
                    3 => 17,
                    _ => r.range(0, 255),
                } as usize;
                elems.push(json!([id, hex(&r.bytes(len))]));
            }
            let gaps: Vec<u64> = elems
                .iter()
                .map(|_| {
                    if gaps_ok && r.chance(1, 4) {
                        r.range(1, 3)
                    } else {
                        0
                    }
                })
                .collect();
            json!({"profile": 0x1000, "kind": "two", "elems": elems, "gaps": gaps})
        }
        _ => {
            let profile = *r.pick(&[0u16, 0x1001, 0xBEDF, 0xABAC, 0xFFFF, 0x100F]);
            let words = *r.pick(&[0usize, 1, 3, 10]);
            json!({"profile": profile, "kind": "raw", "raw": hex(&r.bytes(words * 4))})
        }
    }
}

fn gen_rtp(r: &mut Rng, gaps_ok: bool, allow16: bool) -> Value {
    let nc = match r.below(10) {
        0 | 1 | 2 => 0,
        3 | 4 => 1,
        5 | 6 => 15,
        7 if allow16 => 16,
        _ => r.range(2, 14),
    } as usize;
    let csrcs: Vec<u32> = (0..nc).map(|_| b_u32(r)).collect();
    let pad = match r.below(8) {
        0 => 1,
        1 => 255,
        2 => r.range(2, 254),
        3 => 4,
        _ => 0,
    };
    let plen = match r.below(8) {
        0 => 0,
        1 => 1,
        2 => 3,
        3 => 4,
        4 => 1200,
        _ => r.range(0, 300),
    } as usize;
    json!({"pt": r.below(128), "m": r.bool(), "seq": b_u16(r), "ts": b_u32(r), "ssrc": b_u32(r),
           "csrcs": csrcs, "ext": gen_ext(r, gaps_ok), "payload": hex(&r.bytes(plen)), "pad": pad})
}

fn gen_ext_scenario(r: &mut Rng) -> Value {
    let via_wire = r.bool();
    let mut base = gen_rtp(r, !via_wire, false);
    if r.chance(2, 3) {
        // favour editable headers
        loop {
            let e = gen_ext(r, !via_wire);
            if e.is_null() || js(&e, "kind") == "one" {
                base["ext"] = e;
                break;
            }
        }
    }
    let nops = r.range(1, 8);
    let ops: Vec<Value> = (0..nops)
        .map(|_| {
            let id = match r.below(10) {
                0 => 0,
                1 => 15,
                2 => 14,
                3 => 1,
                _ => r.range(1, 14),
            };
            let len = match r.below(10) {
                0 => 0,
                1 => 17,
                2 => 16,
                3 => 1,
                _ => r.range(1, 16),
            } as usize;
            json!([id, hex(&r.bytes(len))])
        })
        .collect();
    json!({"law":"ext","base":base,"via_wire":via_wire,"ops":ops})
}

fn gen_scenario(r: &mut Rng) -> Value {
    match r.below(20) {
        0..=5 => json!({"law":"rtcp_p2w","pkts": gen_compound(r, false)}),
        6..=10 => {
            json!({"law":"rtcp_w2p","pkts": gen_compound(r, true), "pad_words": if r.chance(1, 4) { r.range(1, 3) } else { 0 }})
        }
        11..=13 => json!({"law":"rtp_p2w","pkt": gen_rtp(r, true, true)}),
        14 | 15 => json!({"law":"rtp_w2p","pkt": gen_rtp(r, false, false)}),
        16 | 17 => gen_ext_scenario(r),
        18 => {
            json!({"law":"rtx","orig": gen_rtp(r, true, false), "rtx_ssrc": b_u32(r), "rtx_pt": r.below(128), "rtx_seq": b_u16(r)})
        }
        _ => {
            json!({"law":"nack_gap","first": if r.bool() { 65535 - r.below(200) } else { r.below(65536) },
                    "gap": *r.pick(&[1u64, 2, 16, 17, 100, 128, 129, 300]), "ssrc": r.range(1, u32::MAX as u64)})
        }
    }
}

// ------------------------------------------------------------------ deterministic boundary sweep

fn sweep() -> Vec<Value> {
    let mut r = Rng::new(0xC15);
    let r = &mut r;
    let mut out = vec![];
    let both = |out: &mut Vec<Value>, p: Value, w2p: bool| {
        out.push(json!({"law":"rtcp_p2w","pkts":[p.clone()]}));
        if w2p {
            out.push(json!({"law":"rtcp_w2p","pkts":[p],"pad_words":0}));
        }
    };
    // counts 0/1/31/32/33/255/256 for the four counted packet types
    for t in ["sr", "rr", "sdes", "bye"] {
        for n in [0usize, 1, 31, 32, 33, 255, 256] {
            let mut p = gen_rtcp(r, t, Over::No, true);
            match t {
                "sr" | "rr" => p["blocks"] = Value::Array((0..n).map(|_| gen_block(r, true)).collect()),
                "sdes" => p["chunks"] = Value::Array((0..n).map(|i| json!({"ssrc": i as u32 + 1, "items":[{"ty":1,"text":format!("c{i}")}]})).collect()),
                _ => p["sources"] = Value::Array((0..n).map(|i| json!(i as u32 + 7)).collect()),
            }
            both(&mut out, p, n <= 31);
        }
    }
    // text lengths 0/1/255/256/1000, ascii and multi-byte
    for len in [0usize, 1, 254, 255, 256, 257, 1000] {
        for multi in [false, true] {
            let text = gen_text(r, len, multi);
            both(
                &mut out,
                json!({"t":"sdes","chunks":[{"ssrc":1,"items":[{"ty":1,"text":text.clone()}]}]}),
                len <= 255,
            );
            both(
                &mut out,
                json!({"t":"sdes","chunks":[{"ssrc":1,"items":[{"ty":2,"text":"x"},{"ty":1,"text":text.clone()}]},{"ssrc":2,"items":[{"ty":1,"text":"tail"}]}]}),
                len <= 255,
            );
            both(
                &mut out,
                json!({"t":"bye","sources":[1],"reason":text.clone()}),
                len <= 255,
            );
            both(
                &mut out,
                json!({"t":"bye","sources":[],"reason":text}),
                len <= 255,
            );
        }
    }
    both(
        &mut out,
        json!({"t":"bye","sources":[1,2],"reason":null}),
        true,
    );
    // packets_lost at the 24-bit signed boundaries
    for lost in [
        -(1i64 << 23),
        (1 << 23) - 1,
        -(1 << 23) + 1,
        (1 << 23) - 2,
        -1,
        0,
        1,
        1 << 23,
        -(1 << 23) - 1,
        i32::MAX as i64,
        i32::MIN as i64,
    ] {
        let mut b = gen_block(r, true);
        b["lost"] = json!(lost);
        let in_range = (-(1i64 << 23)..(1 << 23)).contains(&lost);
        both(
            &mut out,
            json!({"t":"rr","ssrc":9,"blocks":[b.clone()]}),
            in_range,
        );
        both(
            &mut out,
            json!({"t":"sr","ssrc":9,"ntp_most":1,"ntp_least":2,"rtp_ts":3,"pc":4,"oc":5,"blocks":[b]}),
            in_range,
        );
    }
    // REMB: every exponent with extreme mantissas (wire side), every power of two (logical side)
    for exp in 0..64u64 {
        for mant in [0u64, 1, 1 << 17, (1 << 18) - 1, 0x2AAAA] {
            let fits = mant == 0 || exp as u32 <= mant.leading_zeros();
            out.push(json!({"law":"rtcp_w2p","pkts":[{"t":"remb","sender":1,"bitrate": if fits { mant << exp } else { 0 },
                "ssrcs":[2,3],"wire_mant":mant,"wire_exp":exp}],"pad_words":0}));
        }
        for b in [
            1u64 << exp,
            (1u64 << exp).wrapping_sub(1),
            (1u64 << exp) | 1,
            (((1u64 << 18) - 1) << exp.min(46)),
        ] {
            out.push(
                json!({"law":"rtcp_p2w","pkts":[{"t":"remb","sender":1,"bitrate":b,"ssrcs":[5]}]}),
            );
        }
    }
    both(
        &mut out,
        json!({"t":"remb","sender":1,"bitrate":u64::MAX,"ssrcs":[]}),
        false,
    );
    for ns in [0usize, 1, 255, 256] {
        let ssrcs: Vec<u32> = (0..ns as u32).collect();
        both(
            &mut out,
            json!({"t":"remb","sender":1,"bitrate":750_000,"ssrcs":ssrcs}),
            false,
        );
    }
    // FIR / NACK / TWCC lists of 0 / 1 / many
    for n in [0usize, 1, 2, 100] {
        let reqs: Vec<Value> = (0..n)
            .map(|i| json!({"ssrc": i as u32, "seq": (i * 7) as u8}))
            .collect();
        both(&mut out, json!({"t":"fir","sender":3,"reqs":reqs}), true);
        let lost: Vec<u16> = (0..n as u16)
            .map(|i| i.wrapping_mul(19).wrapping_add(65530))
            .collect();
        both(
            &mut out,
            json!({"t":"nack","sender":3,"media":4,"lost":lost}),
            n > 0,
        );
    }
    for _ in 0..40 {
        both(&mut out, gen_twcc(r), true);
    }
    both(
        &mut out,
        json!({"t":"twcc","sender":1,"media":2,"base":65535,"count":0,"ref_time":0xFFFFFF,"fb":255,"chunks":[],"deltas":[]}),
        true,
    );
    // NACK sets spanning 65535 -> 0: dense runs of length 2k starting k before the wrap
    for k in 1..=24u16 {
        let lost: Vec<u16> = (0..2 * k)
            .map(|i| 0u16.wrapping_sub(k).wrapping_add(i))
            .collect();
        both(
            &mut out,
            json!({"t":"nack","sender":1,"media":2,"lost":lost}),
            true,
        );
        out.push(json!({"law":"rtcp_w2p","pkts":[{"t":"nack","sender":1,"media":2,
            "lost": expand_pairs(&[(0u16.wrapping_sub(k), 0xFFFF)]), "pairs":[[0u16.wrapping_sub(k), 0xFFFF]]}],"pad_words":0}));
    }
    for first in [65530u64, 65535, 0, 65400, 65407] {
        for gap in [1u64, 5, 16, 17, 100, 128, 129, 300] {
            out.push(json!({"law":"nack_gap","first":first,"gap":gap,"ssrc":77}));
        }
    }
    // RTP: CSRC 0/1/15/16 x padding 0/1/255 x extension shapes
    let exts = [
        Value::Null,
        json!({"profile":0xBEDE,"kind":"one","elems":[[1,"aa"]],"gaps":[0]}),
        json!({"profile":0xBEDE,"kind":"one","elems":[[14,"000102030405060708090a0b0c0d0e0f"],[1,"ff"]],"gaps":[0,2]}),
        json!({"profile":0xBEDE,"kind":"one","elems":[],"gaps":[]}),
        json!({"profile":0x1000,"kind":"two","elems":[[1,""],[255,hex(&[0x5a;255])]],"gaps":[0,0]}),
        json!({"profile":0x1000,"kind":"two","elems":[[16,"0102"],[15,""]],"gaps":[1,0]}),
        json!({"profile":0xABAC,"kind":"raw","raw":"0011223344556677"}),
        json!({"profile":0x0000,"kind":"raw","raw":""}),
    ];
    for nc in [0usize, 1, 15, 16] {
        for pad in [0u64, 1, 255] {
            for e in &exts {
                for plen in [0usize, 5] {
                    let csrcs: Vec<u32> = (0..nc as u32)
                        .map(|i| i.wrapping_mul(0x0101_0101))
                        .collect();
                    let pkt = json!({"pt":127,"m":true,"seq":65535,"ts":u32::MAX,"ssrc":1,"csrcs":csrcs,
                        "ext":e,"payload":hex(&vec![0xEE; plen]),"pad":pad});
                    out.push(json!({"law":"rtp_p2w","pkt":pkt.clone()}));
                    let no_gaps =
                        e.is_null() || jarr(e, "gaps").iter().all(|g| g.as_u64() == Some(0));
                    if nc <= 15 && no_gaps {
                        out.push(json!({"law":"rtp_w2p","pkt":pkt.clone()}));
                        out.push(json!({"law":"rtx","orig":pkt,"rtx_ssrc":2,"rtx_pt":97,"rtx_seq":65535}));
                    }
                }
            }
        }
    }
    // set/get: fill all 14 ids with 16 bytes, overwrite with 1 byte, on fresh and on received headers
    for via_wire in [false, true] {
        let mut ops: Vec<Value> = (1..=14u8).map(|id| json!([id, hex(&[id; 16])])).collect();
        ops.extend((1..=14u8).rev().map(|id| json!([id, hex(&[id ^ 0xFF; 1])])));
        ops.push(json!([0, "aa"]));
        ops.push(json!([15, "aa"]));
        ops.push(json!([3, ""]));
        ops.push(json!([3, hex(&[1; 17])]));
        for e in &exts {
            if !e.is_null() && jarr(e, "gaps").iter().any(|g| g.as_u64() != Some(0)) && via_wire {
                continue;
            }
            let base = json!({"pt":96,"m":false,"seq":1,"ts":2,"ssrc":3,"csrcs":[],"ext":e,"payload":"00","pad":0});
            out.push(json!({"law":"ext","base":base,"via_wire":via_wire,"ops":ops.clone()}));
        }
    }
    out
}

// ================================================================== driver

fn run_scenario(sc: &Value, acc: &mut Acc) -> Verdict {
    acc.nontrivial = false;
    let law = js(sc, "law").to_string();
    acc.c(&format!("scenarios:{law}"));
    match law.as_str() {
        "rtcp_p2w" => check_rtcp_p2w(sc, acc),
        "rtcp_w2p" => check_rtcp_w2p(sc, acc),
        "rtp_p2w" => check_rtp_p2w(sc, acc),
        "rtp_w2p" => check_rtp_w2p(sc, acc),
        "ext" => check_ext(sc, acc),
        "rtx" => check_rtx(sc, acc),
        "nack_gap" => check_nack_gap(sc, acc),
        other => Verdict::Inconclusive(format!("unknown law {other:?} in scenario")),
    }
}

struct Event {
    index: u64,
    hash: Option<u64>,
    verdict: Verdict,
    scenario: Value,
}

struct WorkerOut {
    held: u64,
    held_hashes: Vec<u64>,
    events: Vec<Event>,
    acc: Acc,
    samples: Vec<Value>,
}

pub fn run(args: &Args) -> i32 {
    install_local_hook();
    let mut report = Report::new(
        args,
        "exploration",
        "a scenario is non-trivial when rustrtc really produced or consumed wire bytes for it: \
         marshal returned Ok and the bytes were parsed back (p2w), a reference-made wire was handed to \
         rustrtc's parser (w2p), set_extension was executed (ext), an RTX packet was wrapped and \
         serialised (rtx), the receiver interceptor emitted a NACK (nack_gap). Scenarios where rustrtc \
         returned Err for the whole input, or the reference could not produce a wire, are trivial.",
    );
    report.assume("webrtc-rs rtp/rtcp 0.17.2 are a correct reading of RFC 3550/4585/5104/8285, draft REMB and TWCC wherever they round-trip the same logical packet themselves; elsewhere no reference verdict is used");
    report.assume("logical packets stay inside the field ranges of the formats except for the overflow classes the property names (counts up to 256, SDES/BYE text up to 1000 bytes, 16 CSRCs, packets_lost beyond 24 bit, REMB exponents up to 63)");
    report.assume("values outside the signed 24-bit packets_lost range may saturate; REMB compares at the 18-bit-mantissa floor; NACK compares sets");
    report.max_samples = 8;

    if let Some(path) = &args.replay {
        let Some(sc) = load_replay(path) else {
            eprintln!("cannot load replay {}", path.display());
            return 2;
        };
        let mut acc = Acc::default();
        let v = run_scenario(&sc, &mut acc);
        let h = if acc.nontrivial {
            Some(hash_value(&sc))
        } else {
            None
        };
        println!("replay verdict: {:.400}", format!("{v:?}"));
        report.sample(json!({"replayed": true, "law": js(&sc, "law")}));
        let violated = v.is_violated();
        report.record(&sc, h, v);
        for (k, n) in acc.counts {
            report.count(&k, n);
        }
        // a single replayed scenario cannot reach the distinct-scenario minimum of a full run
        let code = report.finish(1, 0);
        return if violated {
            code
        } else if code == 2 && h.is_some() {
            0
        } else {
            code
        };
    }

    let sweep_list = sweep();
    let n_random: u64 = args.tier.pick(400_000, 6_000_000);
    let total = sweep_list.len() as u64 + n_random;
    let workers = 12usize;
    let seed = args.seed;
    let sweep_ref = &sweep_list;
    let n_sweep = sweep_list.len() as u64;

    let mut results: Vec<WorkerOut> = std::thread::scope(|s| {
        let handles: Vec<_> = (0..workers)
            .map(|wi| {
                std::thread::Builder::new()
                    .name(format!("codec{wi}"))
                    .stack_size(8 << 20)
                    .spawn_scoped(s, move || {
                        let root = Rng::new(seed);
                        let mut out = WorkerOut { held: 0, held_hashes: vec![], events: vec![], acc: Acc::default(), samples: vec![] };
                        let mut keys_seen: BTreeSet<String> = BTreeSet::new();
                        let mut i = wi as u64;
                        while i < total {
                            let sc = if i < n_sweep {
                                sweep_ref[i as usize].clone()
                            } else {
                                gen_scenario(&mut root.fork(i - n_sweep + 1))
                            };
                            let v = run_scenario(&sc, &mut out.acc);
                            let h = if out.acc.nontrivial { Some(hash_value(&sc)) } else { None };
                            if wi == 0 && out.samples.len() < 8 && i >= n_sweep && out.acc.nontrivial && sc.to_string().len() < 1500 {
                                out.samples.push(json!({"index": i, "scenario": sc, "verdict": format!("{:.80}", format!("{v:?}"))}));
                            }
                            match v {
                                Verdict::Held => {
                                    out.held += 1;
                                    if let Some(h) = h {
                                        out.held_hashes.push(h);
                                    }
                                }
                                Verdict::Violated { key, what, witness } => {
                                    // keep the (possibly large) scenario only for this worker's first hit of a key
                                    let first = keys_seen.insert(key.clone());
                                    out.events.push(Event {
                                        index: i,
                                        hash: h,
                                        verdict: if first { Verdict::Violated { key, what, witness } } else { Verdict::Violated { key, what: String::new(), witness: Value::Null } },
                                        scenario: if first { sc } else { Value::Null },
                                    });
                                }
                                other => out.events.push(Event { index: i, hash: h, verdict: other, scenario: Value::Null }),
                            }
                            i += workers as u64;
                        }
                        out
                    })
                    .expect("spawn worker")
            })
            .collect();
        handles
            .into_iter()
            .map(|h| h.join().expect("worker thread"))
            .collect()
    });

    // held scenarios are order-independent; everything else is replayed into the report in index order
    let mut events: Vec<Event> = vec![];
    let mut accs = vec![];
    for w in results.drain(..) {
        report.evaluations += w.held;
        report.held += w.held;
        report.nontrivial.extend(w.held_hashes);
        events.extend(w.events);
        for s in w.samples {
            report.sample(s);
        }
        accs.push(w.acc);
    }
    events.sort_by_key(|e| e.index);
    for e in events {
        report.record(&e.scenario, e.hash, e.verdict);
    }
    for acc in accs {
        for (k, n) in acc.counts {
            report.count(&k, n);
        }
        for (set, items) in acc.seen {
            for it in items {
                report.seen(set, it);
            }
        }
    }
    report.count("sweep_scenarios", n_sweep);
    report.count("random_scenarios", n_random);
    report.note("violation keys: rtcp.<type>[<overflow class>]:silent_bad_encoding for the out-of-format classes named by the property; <codec>.<type>:<law>:<first differing field> otherwise");
    report.finish(total / 2, total / 4)
}
