//! C07 – totality of every network-facing decoder (DESIGN.md "### C07", §2.4).
//!
//! Statement (the law): every byte string delivered to a network-facing entry point is processed
//! promptly to a value or an error – no panic in any task, no unbounded loop, no allocation
//! disproportionate to the input; operations applied to parsed packets are equally total.
//!
//! Oracle (what is demanded, and why it is not stricter than the statement):
//!  * panic  – a call into rustrtc unwound (`catch_unwind`) / a task panicked (global recorder).
//!             Returning `Err`/`None` is always accepted. The harness is built like the repo's own
//!             tests (overflow-checks on), so an arithmetic-overflow panic is a genuine panic.
//!  * hang   – one call on ≤ 64 KiB burned > 2 s of *thread CPU time* (not wall time), and the
//!             same input, re-run alone in a fresh process three times, did so every time.
//!             Anything short of that is inconclusive, never a violation.
//!  * bloat  – bytes requested from the allocator during one call > 512·len + 256 KiB, where
//!             `len` is the number of input bytes the callee (or the stateful object it belongs
//!             to) has been given. DESIGN.md proposed 64·len; measurement on the unchanged tree
//!             showed that ordinary *linear* tokenising (one owned struct per 2-byte token:
//!             `m=` format lists → VideoCapability ≈ 71 B/B, STAP-A NAL list → VideoFrame +
//!             packet clone ≈ 250 B/B) exceeds 64× while staying strictly proportional to the
//!             input, which the statement allows ("disproportionate" is what is forbidden).
//!             512× keeps every such linear parser silent and still fires on any allocation
//!             driven by a wire count/length field (a u16 count × 8 B already exceeds the
//!             slack) and on quadratic growth (≥ 4 GiB at 64 KiB). The largest observed
//!             ratio is written to the evidence (`pure_max`).
//! Stage 1 (this file + totality_pure.rs): pure decoders in-process on 16 threads.
//! Stage 2 (totality_live.rs): live ICE/DTLS/SCTP/RTP/PeerConnection endpoints: mutation
//! campaigns and structured floods (long consistent histories that drive bounded structures
//! to their caps); monitors there: panic, liveness probe, heap growth, largest single block
//! requested by rustrtc code (alloc_count's per-tag large-block monitor).

use crate::alloc_count::thread_allocated;
use crate::common::*;
use crate::engines::totality_mut as mutators;
use crate::engines::totality_pure as pure;
use serde_json::{Value, json};
use std::cell::{Cell, RefCell};
use std::collections::{BTreeMap, HashMap, HashSet};
use std::panic::{AssertUnwindSafe, catch_unwind};
use std::sync::atomic::{AtomicBool, AtomicUsize, Ordering};
use std::sync::{Arc, Once};
use std::time::{Duration, Instant};

pub const HANG_CPU_NS: u64 = 2_000_000_000;
pub const BLOAT_FACTOR: u64 = 512;
pub const BLOAT_SLACK: u64 = 256 * 1024;

// ------------------------------------------------------------------ panic-site hook

thread_local! {
    static IN_CALL: Cell<bool> = const { Cell::new(false) };
    static CUR_OP: Cell<&'static str> = const { Cell::new("") };
    static LAST_SITE: RefCell<Option<PanicSite>> = const { RefCell::new(None) };
}

#[derive(Clone, Debug)]
pub struct PanicSite {
    /// normalised `src/..:line` inside rustrtc (or `fn:<symbol>` / `unresolved`)
    pub site: String,
    /// where the panic was raised (may be inside a dependency such as `bytes`)
    pub raised_at: String,
    pub message: String,
}

/// Stage 2: panics of *any* thread/task are attributed (thread name tells the campaign).
pub static PROBE_MODE: AtomicBool = AtomicBool::new(false);
pub static LIVE_MODE: AtomicBool = AtomicBool::new(false);
pub static LIVE_PANICS: parking_lot::Mutex<Vec<(String, PanicSite)>> = parking_lot::Mutex::new(Vec::new());

static BT_BUDGET: parking_lot::Mutex<Option<HashMap<(String, String, String), u32>>> =
    parking_lot::Mutex::new(None);
/// backtraces resolved per (operation, raising location, message): the message of a
/// dependency's panic ("the len is 0 but advancing by 1") differs between call sites, so one
/// frequent site cannot use up the budget of another
const BT_PER_TUPLE: u32 = 600;

fn is_rustrtc_src(path: &str) -> bool {
    path.contains("/repo/src/") && !path.contains("/registry/") && !path.contains("/harness/")
}

/// First rustrtc frame of a rendered std backtrace (`at <path>:<line>:<col>` lines).
pub(crate) fn rustrtc_frame_of_backtrace(bt: &str) -> Option<String> {
    let mut first_fn: Option<String> = None;
    for line in bt.lines() {
        let t = line.trim_start();
        if let Some(rest) = t.strip_prefix("at ") {
            // path:line:col
            let mut parts = rest.rsplitn(3, ':');
            let _col = parts.next();
            let ln = parts.next();
            let path = parts.next();
            if let (Some(path), Some(ln)) = (path, ln) {
                if is_rustrtc_src(path) {
                    return Some(norm_location(&format!("{path}:{ln}")));
                }
            }
        } else if first_fn.is_none() {
            // "  12: rustrtc::transports::dtls::handshake::ClientHello::decode"
            if let Some(i) = t.find(": ") {
                let name = &t[i + 2..];
                if name.starts_with("rustrtc::") || name.starts_with("<rustrtc::") {
                    first_fn = Some(format!("fn:{name}"));
                }
            }
        }
    }
    first_fn
}

/// Chain a hook in front of the global recorder: while a monitored call is running on this
/// thread, compute the *rustrtc* source line responsible for the panic (walking the backtrace
/// when the panic was raised inside a dependency) so that each panic site gets its own key.
pub fn install_site_hook() {
    static ONCE: Once = Once::new();
    ONCE.call_once(|| {
        let prev = std::panic::take_hook();
        std::panic::set_hook(Box::new(move |info| {
            // what the hooks allocate (recorded panics, backtraces, std's symboliser) is the
            // harness's memory, not the campaign's; it also keeps the allocator's
            // large-block monitor from capturing a backtrace while std holds its backtrace lock
            let outer_tag = crate::alloc_count::thread_tag();
            crate::alloc_count::set_thread_tag(0);
            let in_call = IN_CALL.try_with(|c| c.get()).unwrap_or(false);
            let live = !in_call && LIVE_MODE.load(Ordering::Relaxed);
            if in_call || live {
                let msg = if let Some(s) = info.payload().downcast_ref::<&str>() {
                    s.to_string()
                } else if let Some(s) = info.payload().downcast_ref::<String>() {
                    s.clone()
                } else {
                    "<non-string panic>".to_string()
                };
                let (file, line) = info
                    .location()
                    .map(|l| (l.file().to_string(), l.line()))
                    .unwrap_or_default();
                let raised = norm_location(&format!("{file}:{line}"));
                let site = if is_rustrtc_src(&file) {
                    raised.clone()
                } else {
                    let op = CUR_OP.try_with(|c| c.get()).unwrap_or("");
                    let allowed = {
                        let mut g = BT_BUDGET.lock();
                        let m = g.get_or_insert_with(HashMap::new);
                        let e = m.entry((op.to_string(), raised.clone(), msg.chars().take(80).collect())).or_insert(0);
                        *e += 1;
                        *e <= BT_PER_TUPLE
                    };
                    if allowed {
                        // std caches the parsed debug info of the binary (tens of MiB) on first
                        // use: that is the harness's memory, not the campaign's
                        let tag = crate::alloc_count::thread_tag();
                        crate::alloc_count::set_thread_tag(0);
                        let bt = std::backtrace::Backtrace::force_capture().to_string();
                        let r = rustrtc_frame_of_backtrace(&bt).unwrap_or_else(|| "unresolved".into());
                        drop(bt);
                        crate::alloc_count::set_thread_tag(tag);
                        r
                    } else {
                        "unresolved".into()
                    }
                };
                let ps = PanicSite {
                    site,
                    raised_at: raised,
                    message: msg.chars().take(200).collect(),
                };
                if live {
                    let th = std::thread::current().name().unwrap_or("?").to_string();
                    let mut g = LIVE_PANICS.lock();
                    if g.len() < 100_000 {
                        g.push((th, ps));
                    }
                } else {
                    let _ = LAST_SITE.try_with(|s| *s.borrow_mut() = Some(ps));
                }
            }
            prev(info);
            crate::alloc_count::set_thread_tag(outer_tag);
        }));
    });
}

// ------------------------------------------------------------------ per-worker accumulation

#[derive(Clone, Debug)]
pub struct Viol {
    pub key: String,
    pub what: String,
    pub entry: &'static str,
    pub input: Vec<u8>,
    pub witness: Value,
    pub count: u64,
}

#[derive(Clone, Debug)]
pub struct HangCand {
    pub entry: &'static str,
    pub op: String,
    pub input: Vec<u8>,
    pub cpu_ns: u64,
}

#[derive(Default)]
pub struct WorkerAcc {
    pub inputs: u64,
    pub accepted: u64,
    pub calls: u64,
    pub op_calls: BTreeMap<&'static str, u64>,
    pub op_ok: BTreeMap<&'static str, u64>,
    pub entry_inputs: BTreeMap<&'static str, u64>,
    pub entry_accepted: BTreeMap<&'static str, u64>,
    pub nontrivial: HashSet<u64>,
    pub viols: HashMap<String, Viol>,
    pub hangs: Vec<HangCand>,
    pub unresolved_panics: u64,
    pub max_cpu_ns: u64,
    pub max_cpu_op: &'static str,
    pub max_alloc_ratio_x100: u64,
    pub max_alloc_op: &'static str,
    pub bytes_fed: u64,
}

impl WorkerAcc {
    fn add_viol(&mut self, v: Viol) {
        match self.viols.get_mut(&v.key) {
            Some(old) => {
                old.count += 1;
                if v.input.len() < old.input.len() {
                    let c = old.count;
                    *old = v;
                    old.count = c;
                }
            }
            None => {
                self.viols.insert(v.key.clone(), v);
            }
        }
    }
    pub fn merge(&mut self, o: WorkerAcc) {
        self.inputs += o.inputs;
        self.accepted += o.accepted;
        self.calls += o.calls;
        self.bytes_fed += o.bytes_fed;
        self.unresolved_panics += o.unresolved_panics;
        for (k, v) in o.op_calls {
            *self.op_calls.entry(k).or_insert(0) += v;
        }
        for (k, v) in o.op_ok {
            *self.op_ok.entry(k).or_insert(0) += v;
        }
        for (k, v) in o.entry_inputs {
            *self.entry_inputs.entry(k).or_insert(0) += v;
        }
        for (k, v) in o.entry_accepted {
            *self.entry_accepted.entry(k).or_insert(0) += v;
        }
        self.nontrivial.extend(o.nontrivial);
        for (_, v) in o.viols {
            let c = v.count;
            match self.viols.get_mut(&v.key) {
                Some(old) => {
                    old.count += c;
                    if v.input.len() < old.input.len() {
                        let tot = old.count;
                        *old = v;
                        old.count = tot;
                    }
                }
                None => {
                    self.viols.insert(v.key.clone(), v);
                }
            }
        }
        self.hangs.extend(o.hangs);
        if o.max_cpu_ns > self.max_cpu_ns {
            self.max_cpu_ns = o.max_cpu_ns;
            self.max_cpu_op = o.max_cpu_op;
        }
        if o.max_alloc_ratio_x100 > self.max_alloc_ratio_x100 {
            self.max_alloc_ratio_x100 = o.max_alloc_ratio_x100;
            self.max_alloc_op = o.max_alloc_op;
        }
    }
}

/// What the watchdog sees of a worker: the input it is working on and since when.
pub struct WorkerSlot {
    pub cur: parking_lot::Mutex<(Option<Instant>, &'static str, Vec<u8>)>,
    pub done: AtomicBool,
}

/// Handed to an entry function: runs monitored operations on one input.
pub struct Ctx<'a> {
    pub entry: &'static str,
    pub input: &'a [u8],
    pub acc: &'a mut WorkerAcc,
}

impl<'a> Ctx<'a> {
    /// Run one rustrtc operation under the three monitors. `len` = input bytes this callee was
    /// given (for the bloat bound). Returns None if it panicked.
    pub fn op_len<T>(&mut self, name: &'static str, len: usize, f: impl FnOnce() -> T) -> Option<T> {
        if PROBE_MODE.load(Ordering::Relaxed) && CUR_OP.with(|c| c.get()) != name && self.acc.calls < 400 {
            // child of confirm_hang: tell the parent which operation is about to run, so that a
            // call that never returns can still be named (only on change and bounded, so the
            // pipe can never fill up and block the child)
            println!("HANGPROBE-OP {name}");
            use std::io::Write;
            let _ = std::io::stdout().flush();
        }
        IN_CALL.with(|c| c.set(true));
        CUR_OP.with(|c| c.set(name));
        let a0 = thread_allocated();
        let c0 = thread_cpu_ns();
        let r = catch_unwind(AssertUnwindSafe(f));
        let c1 = thread_cpu_ns();
        let a1 = thread_allocated();
        IN_CALL.with(|c| c.set(false));
        self.acc.calls += 1;
        *self.acc.op_calls.entry(name).or_insert(0) += 1;
        match r {
            Err(_payload) => {
                let site = LAST_SITE.with(|s| s.borrow_mut().take());
                let site = site.unwrap_or(PanicSite {
                    site: "unresolved".into(),
                    raised_at: String::new(),
                    message: String::new(),
                });
                if site.site == "unresolved" {
                    self.acc.unresolved_panics += 1;
                    return None;
                }
                // one key per (API function, rustrtc source line): the "(variant)" suffix of an op
                // name only says how the argument was obtained
                let key = format!("entry={},panic={}", base_name(name), site.site);
                self.acc.add_viol(Viol {
                    key,
                    what: format!(
                        "{} panicked at {} ({}) on a {}-byte input",
                        name,
                        site.site,
                        site.message,
                        self.input.len()
                    ),
                    entry: self.entry,
                    input: self.input.to_vec(),
                    witness: json!({"kind":"panic","op":name,"site":site.site,"raised_at":site.raised_at,
                        "message":site.message,"input_len":self.input.len()}),
                    count: 1,
                });
                None
            }
            Ok(v) => {
                *self.acc.op_ok.entry(name).or_insert(0) += 1;
                let cpu = c1.saturating_sub(c0);
                let alloc = a1.wrapping_sub(a0);
                if cpu > self.acc.max_cpu_ns {
                    self.acc.max_cpu_ns = cpu;
                    self.acc.max_cpu_op = name;
                }
                let bound = BLOAT_FACTOR * len as u64 + BLOAT_SLACK;
                let ratio = alloc * 100 / bound;
                if ratio > self.acc.max_alloc_ratio_x100 {
                    self.acc.max_alloc_ratio_x100 = ratio;
                    self.acc.max_alloc_op = name;
                }
                if alloc > bound {
                    self.acc.add_viol(Viol {
                        key: format!("entry={},bloat", base_name(name)),
                        what: format!(
                            "{name} allocated {alloc} bytes for {len} input bytes (bound 512*len+256KiB = {bound})"
                        ),
                        entry: self.entry,
                        input: self.input.to_vec(),
                        witness: json!({"kind":"bloat","op":name,"allocated":alloc,"len":len,"bound":bound}),
                        count: 1,
                    });
                }
                if cpu > HANG_CPU_NS && self.input.len() <= mutators::MAX_INPUT {
                    self.acc.hangs.push(HangCand {
                        entry: self.entry,
                        op: name.to_string(),
                        input: self.input.to_vec(),
                        cpu_ns: cpu,
                    });
                }
                Some(v)
            }
        }
    }
    pub fn op<T>(&mut self, name: &'static str, f: impl FnOnce() -> T) -> Option<T> {
        let len = self.input.len();
        self.op_len(name, len, f)
    }
}

fn base_name(op: &str) -> &str {
    op.split('(').next().unwrap_or(op)
}

/// Run one entry on one input (shared by the campaign, `--replay` and `--hang-probe`).
pub fn run_one(e: &pure::Entry, input: &[u8], acc: &mut WorkerAcc) -> bool {
    let mut ctx = Ctx {
        entry: e.name,
        input,
        acc,
    };
    let accepted = (e.run)(&mut ctx);
    acc.inputs += 1;
    acc.bytes_fed += input.len() as u64;
    *acc.entry_inputs.entry(e.name).or_insert(0) += 1;
    if accepted {
        acc.accepted += 1;
        *acc.entry_accepted.entry(e.name).or_insert(0) += 1;
        if acc.nontrivial.len() < 3_000_000 {
            let mut h = fnv64(e.name.as_bytes());
            h ^= fnv64(input).rotate_left(13);
            acc.nontrivial.insert(h);
        }
    }
    accepted
}

pub fn pure_scenario(entry: &str, input: &[u8], text: bool) -> Value {
    let mut v = json!({"stage":"pure","entry":entry,"input_hex":hex(input)});
    if text {
        v["input_text"] = json!(String::from_utf8_lossy(input));
    }
    v
}

// ------------------------------------------------------------------ stage-1 campaign

#[derive(Clone, Copy)]
enum TaskKind {
    Specials,
    Enum(usize),
    Random(u64, usize),
    Plain(u64, usize),
}

struct Task {
    entry: usize,
    kind: TaskKind,
}

fn stage1(args: &Args, report: &mut Report) {
    let entries = Arc::new(pure::entries());
    let quick = args.tier == Tier::Quick;
    let max_off = if quick { 1200 } else { 8000 };
    let n_random: usize = if quick { 100_000 } else { 2_000_000 };
    let n_plain: usize = if quick { 20_000 } else { 400_000 };
    let chunk = 2000usize;
    let only = args.opt("--entry");

    let mut tasks = vec![];
    for (i, e) in entries.iter().enumerate() {
        if let Some(o) = &only {
            if e.name != o {
                continue;
            }
        }
        tasks.push(Task {
            entry: i,
            kind: TaskKind::Specials,
        });
        for s in 0..e.seeds.len() {
            tasks.push(Task {
                entry: i,
                kind: TaskKind::Enum(s),
            });
        }
        let scale = e.weight;
        let nr = (n_random as f64 * scale) as usize;
        let np = (n_plain as f64 * scale) as usize;
        for c in 0..nr.div_ceil(chunk) {
            tasks.push(Task {
                entry: i,
                kind: TaskKind::Random(c as u64, chunk.min(nr - c * chunk)),
            });
        }
        for c in 0..np.div_ceil(chunk) {
            tasks.push(Task {
                entry: i,
                kind: TaskKind::Plain(c as u64, chunk.min(np - c * chunk)),
            });
        }
    }
    // deterministic interleaving so that slow entries do not pile up at the end
    let mut order_rng = Rng::new(args.seed).fork(0xA11);
    order_rng.shuffle(&mut tasks);
    let tasks = Arc::new(tasks);
    let next = Arc::new(AtomicUsize::new(0));
    let nthreads = std::thread::available_parallelism()
        .map(|n| n.get())
        .unwrap_or(16)
        .clamp(2, 16);
    let base = Rng::new(args.seed);
    let mut slots = vec![];
    let mut handles = vec![];
    for t in 0..nthreads {
        let slot = Arc::new(WorkerSlot {
            cur: parking_lot::Mutex::new((None, "", Vec::new())),
            done: AtomicBool::new(false),
        });
        slots.push(slot.clone());
        let entries = entries.clone();
        let tasks = tasks.clone();
        let next = next.clone();
        let base = base.clone();
        let (tx, rx) = std::sync::mpsc::channel::<WorkerAcc>();
        let h = std::thread::Builder::new()
            .name(format!("c07-pure-{t}"))
            .stack_size(16 << 20)
            .spawn(move || {
                let mut acc = WorkerAcc::default();
                loop {
                    let i = next.fetch_add(1, Ordering::SeqCst);
                    if i >= tasks.len() {
                        break;
                    }
                    let task = &tasks[i];
                    let e = &entries[task.entry];
                    let feed = |input: Vec<u8>, acc: &mut WorkerAcc| {
                        {
                            let mut g = slot.cur.lock();
                            g.0 = Some(Instant::now());
                            g.1 = e.name;
                            g.2.clear();
                            g.2.extend_from_slice(&input);
                        }
                        run_one(e, &input, acc);
                        slot.cur.lock().0 = None;
                    };
                    match task.kind {
                        TaskKind::Specials => {
                            feed(Vec::new(), &mut acc);
                            for s in &e.seeds {
                                feed(s.clone(), &mut acc);
                            }
                            for s in &e.specials {
                                feed(s.clone(), &mut acc);
                            }
                        }
                        TaskKind::Enum(s) => {
                            let seed = &e.seeds[s];
                            let mut batch = vec![];
                            mutators::enumerated(seed, max_off, |v| batch.push(v));
                            for v in batch {
                                feed(v, &mut acc);
                            }
                        }
                        TaskKind::Random(c, n) => {
                            let mut r = base.fork(0x5000_0000 + ((task.entry as u64) << 20) + c);
                            for _ in 0..n {
                                let v = if e.text && r.chance(3, 4) {
                                    mutators::random_text_mutant(&e.seeds, &mut r)
                                } else {
                                    mutators::random_mutant(&e.seeds, &mut r)
                                };
                                feed(v, &mut acc);
                            }
                        }
                        TaskKind::Plain(c, n) => {
                            let mut r = base.fork(0x9000_0000 + ((task.entry as u64) << 20) + c);
                            for _ in 0..n {
                                let v = mutators::plain_random(&e.seeds, &mut r);
                                feed(v, &mut acc);
                            }
                        }
                    }
                }
                slot.done.store(true, Ordering::SeqCst);
                let _ = tx.send(acc);
            });
        match h {
            Ok(_) => handles.push(rx),
            Err(e) => report.note(format!("could not spawn pure worker: {e}")),
        }
    }

    // Wait; a worker stuck > 30 s wall on one input is handed to the hang prober (its thread
    // cannot be killed; the process exits at the end anyway).
    let mut total = WorkerAcc::default();
    let mut stuck: Vec<HangCand> = vec![];
    let mut pending: Vec<usize> = (0..handles.len()).collect();
    while !pending.is_empty() {
        let mut still = vec![];
        for &i in &pending {
            match handles[i].recv_timeout(Duration::from_millis(50)) {
                Ok(acc) => total.merge(acc),
                Err(std::sync::mpsc::RecvTimeoutError::Timeout) => {
                    let g = slots[i].cur.lock();
                    if let Some(t0) = g.0 {
                        if t0.elapsed() > Duration::from_secs(30) {
                            stuck.push(HangCand {
                                entry: g.1,
                                op: "(did not return)".into(),
                                input: g.2.clone(),
                                cpu_ns: 30_000_000_000,
                            });
                            continue; // abandon this worker (its partial counts are lost)
                        }
                    }
                    still.push(i);
                }
                Err(_) => {
                    report.note("a pure worker died without reporting (harness bug)");
                }
            }
        }
        pending = still;
    }
    let n_stuck = stuck.len();
    total.hangs.extend(stuck);
    fold_into_report(&entries, total, report, args);
    if n_stuck > 0 {
        STUCK_WORKERS.store(n_stuck, Ordering::SeqCst);
        report.note(format!("{n_stuck} pure worker(s) never returned from a call and keep spinning; stage 2 skipped (its timing would be unreliable)"));
    }
}

static STUCK_WORKERS: AtomicUsize = AtomicUsize::new(0);

/// Re-run a hang candidate alone, in a fresh process, three times. Confirmed only if every
/// run burned > 2 s CPU (measured by the child itself, or from /proc when it had to be killed).
fn confirm_hang(args: &Args, h: &HangCand) -> Result<(Vec<u64>, Option<String>), String> {
    let exe = std::env::current_exe().map_err(|e| e.to_string())?;
    let dir = args.root.join("tmp");
    let _ = std::fs::create_dir_all(&dir);
    let path = dir.join(format!("c07-hang-{:016x}.json", fnv64(&h.input)));
    std::fs::write(
        &path,
        json!({"entry":h.entry,"input_hex":hex(&h.input)}).to_string(),
    )
    .map_err(|e| e.to_string())?;
    let mut cpus = vec![];
    let mut last_op: Option<String> = None;
    for _ in 0..3 {
        let mut child = std::process::Command::new(&exe)
            .arg("C07")
            .arg("--hang-probe")
            .arg(&path)
            .stdout(std::process::Stdio::piped())
            .stderr(std::process::Stdio::null())
            .spawn()
            .map_err(|e| e.to_string())?;
        let t0 = Instant::now();
        let mut killed_cpu = None;
        loop {
            match child.try_wait() {
                Ok(Some(_)) => break,
                Ok(None) => {
                    if t0.elapsed() > Duration::from_secs(40) {
                        killed_cpu = Some(proc_cpu_ns(child.id()));
                        let _ = child.kill();
                        let _ = child.wait();
                        break;
                    }
                    std::thread::sleep(Duration::from_millis(50));
                }
                Err(e) => return Err(e.to_string()),
            }
        }
        let mut out = String::new();
        if let Some(mut so) = child.stdout.take() {
            use std::io::Read;
            let _ = so.read_to_string(&mut out);
        }
        if let Some(c) = killed_cpu {
            cpus.push(c);
            last_op = out.lines().rev().find_map(|l| l.strip_prefix("HANGPROBE-OP ")).map(|s| s.trim().to_string());
        } else {
            let cpu = out
                .lines()
                .find_map(|l| l.strip_prefix("HANGPROBE cpu_ns="))
                .and_then(|s| s.trim().parse::<u64>().ok())
                .ok_or_else(|| "hang probe produced no result".to_string())?;
            cpus.push(cpu);
        }
    }
    let _ = std::fs::remove_file(&path);
    Ok((cpus, last_op))
}

fn proc_cpu_ns(pid: u32) -> u64 {
    let Ok(s) = std::fs::read_to_string(format!("/proc/{pid}/stat")) else {
        return 0;
    };
    let Some(i) = s.rfind(')') else { return 0 };
    let f: Vec<&str> = s[i + 1..].split_whitespace().collect();
    // after ')' : state(0) ... utime is field 14 overall => index 11 here, stime index 12
    let ut: u64 = f.get(11).and_then(|x| x.parse().ok()).unwrap_or(0);
    let st: u64 = f.get(12).and_then(|x| x.parse().ok()).unwrap_or(0);
    let hz = unsafe { libc::sysconf(libc::_SC_CLK_TCK) }.max(1) as u64;
    (ut + st) * 1_000_000_000 / hz
}

/// Child mode: run one entry on one input and print the largest per-op CPU time.
fn hang_probe(path: &str) -> i32 {
    PROBE_MODE.store(true, Ordering::SeqCst);
    let Some(v) = load_replay(std::path::Path::new(path)) else {
        return 2;
    };
    let entries = pure::entries();
    let name = v["entry"].as_str().unwrap_or("");
    let input = unhex(v["input_hex"].as_str().unwrap_or(""));
    let Some(e) = entries.iter().find(|e| e.name == name) else {
        return 2;
    };
    let mut acc = WorkerAcc::default();
    run_one(e, &input, &mut acc);
    println!("HANGPROBE cpu_ns={}", acc.max_cpu_ns);
    0
}

fn fold_into_report(entries: &[pure::Entry], total: WorkerAcc, report: &mut Report, args: &Args) {
    report.count("pure.inputs", total.inputs);
    report.count("pure.inputs_accepted_by_decoder", total.accepted);
    report.count("pure.monitored_calls", total.calls);
    report.count("pure.bytes_fed", total.bytes_fed);
    report.count("pure.panics_unattributed", total.unresolved_panics);
    for (k, v) in &total.entry_inputs {
        report.count(&format!("pure.inputs[{k}]"), *v);
    }
    for (k, v) in total.entry_inputs.iter().take(3) {
        report.sample(json!({"stage":"pure","entry":k,"inputs":v,
            "accepted_by_decoder": total.entry_accepted.get(k).copied().unwrap_or(0)}));
    }
    for (k, v) in &total.entry_accepted {
        report.count(&format!("pure.accepted[{k}]"), *v);
    }
    for (k, v) in &total.op_calls {
        report.seen(
            "pure.ops",
            format!("{k}: calls={v} returned={}", total.op_ok.get(k).copied().unwrap_or(0)),
        );
    }
    report.extra.insert(
        "pure_max".into(),
        json!({"max_cpu_ms_one_call": total.max_cpu_ns as f64 / 1e6, "max_cpu_op": total.max_cpu_op,
               "max_alloc_percent_of_bound": total.max_alloc_ratio_x100, "max_alloc_op": total.max_alloc_op}),
    );
    // held evaluations: everything that produced no violation. Recorded in bulk (a JSON
    // scenario per held input would dominate the run time); each violation gets its own
    // replayable scenario below.
    let n_viol_inputs: u64 = total.viols.values().map(|v| v.count).sum();
    let held = total.inputs.saturating_sub(n_viol_inputs.min(total.inputs));
    report.evaluations += held;
    report.held += held;
    for h in &total.nontrivial {
        report.nontrivial.insert(*h);
    }
    let text_of = |name: &str| entries.iter().find(|e| e.name == name).map(|e| e.text).unwrap_or(false);
    let mut keys: Vec<&String> = total.viols.keys().collect();
    keys.sort();
    for k in keys {
        let v = &total.viols[k];
        let sc = pure_scenario(v.entry, &v.input, text_of(v.entry));
        let mut w = v.witness.clone();
        w["occurrences"] = json!(v.count);
        report.record(&sc, Some(hash_value(&sc)), Verdict::violated(v.key.clone(), v.what.clone(), w));
        report.seen("pure.violation_keys", format!("{} x{}", v.key, v.count));
    }
    // hang candidates (deduplicated by entry+op; at most 4 confirmations)
    let mut seen = HashSet::new();
    let mut confirmed = 0;
    for h in &total.hangs {
        if !seen.insert((h.entry, h.op.clone())) || confirmed >= 4 {
            continue;
        }
        confirmed += 1;
        let sc = pure_scenario(h.entry, &h.input, text_of(h.entry));
        match confirm_hang(args, h) {
            Ok((cpus, last_op)) if cpus.len() == 3 && cpus.iter().all(|c| *c > HANG_CPU_NS) => {
                let opname = if h.op.starts_with('(') {
                    last_op.as_deref().map(|o| base_name(o).to_string()).unwrap_or_else(|| h.entry.to_string())
                } else {
                    base_name(&h.op).to_string()
                };
                report.record(
                    &sc,
                    Some(hash_value(&sc)),
                    Verdict::violated(
                        format!("entry={opname},hang"),
                        format!("{} burned > 2 s CPU on a {}-byte input in 3/3 isolated re-runs", h.op, h.input.len()),
                        json!({"kind":"hang","first_cpu_ns":h.cpu_ns,"rerun_cpu_ns":cpus,"input_len":h.input.len()}),
                    ),
                );
            }
            Ok((cpus, _)) => {
                report.record(&sc, None, Verdict::Inconclusive(format!(
                    "slow call {} ({} ms CPU) not reproduced alone: {:?}", h.op, h.cpu_ns / 1_000_000, cpus)));
            }
            Err(e) => {
                report.record(&sc, None, Verdict::Inconclusive(format!("hang probe failed: {e}")));
            }
        }
    }
    report.count("pure.hang_candidates", total.hangs.len() as u64);
}

// ------------------------------------------------------------------ replay

fn replay(args: &Args, report: &mut Report, sc: &Value) {
    match sc["stage"].as_str().unwrap_or("pure") {
        "pure" => {
            let entries = pure::entries();
            let name = sc["entry"].as_str().unwrap_or("");
            let input = unhex(sc["input_hex"].as_str().unwrap_or(""));
            let Some(e) = entries.iter().find(|e| e.name == name) else {
                report.record(sc, None, Verdict::Inconclusive(format!("unknown entry {name}")));
                return;
            };
            let mut acc = WorkerAcc::default();
            run_one(e, &input, &mut acc);
            if acc.viols.is_empty() && acc.hangs.is_empty() {
                report.record(sc, Some(hash_value(sc)), Verdict::Held);
            }
            fold_into_report(&entries, {
                // the held evaluation was recorded above
                acc.inputs = 0;
                acc
            }, report, args);
        }
        _ => crate::engines::totality_live::replay(args, report, sc),
    }
}

// ------------------------------------------------------------------ entry point

pub fn run(args: &Args) -> i32 {
    if let Some(p) = args.opt("--hang-probe") {
        install_site_hook();
        return hang_probe(&p);
    }
    install_site_hook();
    let mut report = Report::new(
        args,
        "exploration",
        "pure: the (entry,input) pair was accepted by the primary decoder (so the post-parse \
         operations ran on it) or produced a violation; live: the campaign delivered its inputs to \
         a live endpoint in the named state and every liveness probe was evaluated",
    );
    report.assume("panic = unwinding out of a rustrtc call or a panic recorded in any task; Err/None results are accepted");
    report.assume("hang = > 2 s thread-CPU for one call on <= 64 KiB, reproduced 3/3 alone in a fresh process");
    report.assume("bloat = bytes allocated during one call > 512*len + 256 KiB (realloc growth counted once)");
    report.assume("live bloat = campaign heap growth > 8 MiB + 64*sum(len), or a single block requested by rustrtc code > 256 KiB + 64*L + 2*H (L = longest input fed so far, H = live heap growth of the campaign at that moment: an accumulating container may double)");
    report.assume("harness built with overflow-checks=on and debug-assertions=on, like the repository's own cargo test");
    if let Some(p) = &args.replay {
        match load_replay(p) {
            Some(sc) => {
                replay(args, &mut report, &sc);
                return report.finish(1, 0);
            }
            None => {
                eprintln!("cannot load replay {}", p.display());
                return 2;
            }
        }
    }
    let t0 = Instant::now();
    if !args.has_flag("--live-only") {
        stage1(args, &mut report);
    }
    report.extra.insert("stage1_wall_s".into(), json!(t0.elapsed().as_secs_f64()));
    let _ = take_panics(); // stage-1 panics were attributed per call; start stage 2 clean
    let t1 = Instant::now();
    if !args.has_flag("--pure-only") && STUCK_WORKERS.load(Ordering::SeqCst) == 0 {
        crate::engines::totality_live::stage2(args, &mut report);
    }
    report.extra.insert("stage2_wall_s".into(), json!(t1.elapsed().as_secs_f64()));
    let min = if args.has_flag("--live-only") || args.opt("--entry").is_some() { 1 } else { 100_000 };
    report.finish(min, 1000.min(min))
}
