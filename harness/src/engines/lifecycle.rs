//! C17 – "Closing or losing a connection at any moment ends it cleanly and visibly".
//!
//! Scenario = transport mode × start-up phase × terminating event(s) × media shape ×
//! configuration variant.  One scenario per
//! SUBPROCESS: the parent re-executes its own binary with `C17 --child <scenario-json>`; the
//! child owns three tokio runtimes (harness, side A, side B), drives two real
//! `rustrtc::PeerConnection`s joined by a harness-owned UDP forwarder ("NatWire"), freezes the
//! connection in the requested phase, fires the event and then watches.
//!
//! Why one runtime per side: `RuntimeMetrics::num_alive_tasks()` of side X's runtime minus the
//! harness' own (counted) driver tasks on it is exactly the number of rustrtc tasks owned by
//! X's connection, so "the closed side released its tasks" can be decided while the *other*
//! side is still alive and healthy (a dropped-but-leaked connection is otherwise garbage
//! collected by its own ICE timeout as soon as the peer goes away, which would hide the leak).
//! Sockets are attributed to a side by inode identity (`/proc/self/fd`) at the step that
//! created them (a side that is still alone in the process when the event lands – phase
//! `gathering` – by exclusion: every socket that was not there before it was created, whenever
//! it appears).  The process baseline is taken before the first connection exists, so what
//! rustrtc keeps in process-wide registries (shared mux port, shared TCP listener) is never part
//! of it.
//!
//! Media shape (`"media"`, WebRTC mode; each phase owns different tasks depending on it):
//!  * `dc` (default): one data channel; a video track on top in `media_flowing`;
//!  * `audio+dc`: an audio track from the start (m=audio + m=application);
//!  * `audio`: an audio track and NO m=application section – no SCTP transport at all.  Phases
//!    that need a channel do not exist (`AUDIO_PHASES`; `connected` = ICE + DTLS up), neither do
//!    SCTP events; the channel clauses of the oracle have nothing to apply to; everything else
//!    (terminal state + reason, calls return, tasks and sockets released, no panic) stays.
//! Configuration variant (`"cfg"`): resources the plain configuration never creates, so that the
//! census can see them (each variant is checked to have had its effect on what the side gathered
//! – otherwise harness error):
//!  * `mux`: `ice_udp_mux` on both sides, one harness-chosen port each (`Ports`): the port's
//!    socket and demux task belong to a process-wide registry and are released by reference
//!    count – the subject is the only connection on its port, so its close / drop takes the count
//!    to zero and its own census must come back empty;
//!  * `mux2`: a second, complete connection (the "companion", own runtime, joined directly) is
//!    registered on the subject's port before the subject exists.  The subject's end must NOT
//!    release the port: after a pause of two polls of the demux loop's shutdown flag the shared
//!    socket is still open and one data-channel message each way still gets through on the
//!    companion; when the harness finally closes the companion (the LAST one) the final census
//!    must find port, demux task and everything else gone;
//!  * `tcp` / `tcprange` / `tcp1`: ICE-TCP passive listeners – ephemeral, first free port of a
//!    three-port `tcp_port_range`, single-port range (= process-wide shared listener + accept
//!    task, reference counted like the mux port).  TCP candidates are not signalled (the
//!    forwarder is UDP only); the listeners and their accept loops exist and are counted;
//!  * `latch`: `enable_latching` (WebRTC and Rtp mode);
//!  * `rtcpsplit`: Rtp mode with `RtcpMuxPolicy::Negotiate` – a second (RTCP) socket.
//! Violation keys carry `,cfg=…` / `,media=…` only for non-default values.
//!
//! Beyond the single events and racing pairs:
//!  * `flapN` (side "N", WebRTC mode): the forwarder blackholes the path until BOTH sides report
//!    Disconnected, heals it until both report Connected again – N times, driven by the observed
//!    states only – and then blackholes it for good.  `ice_disconnect_grace` is sized so that all
//!    N+1 outages begin inside the grace window of the first one, the hard ICE timeout is
//!    configured far away, and SCTP is told not to give up by itself: the connection must end
//!    through the documented grace period (bound = threshold + tick + grace + tick + 5 s).  A
//!    run whose state log does not show that history is a harness error, not evidence.
//!    (Rtp/Srtp mode has a second copy of the connected-state loop, but rustrtc's ICE runner
//!    only reports `Disconnected` in WebRTC mode; no network history or public call reaches it.)
//!  * phase `new`: close / drop / ICE stop land in the same poll as `PeerConnection::new()`,
//!    before any background task of the connection has run once.
//!  * every call that waits for the connection's fate (`recv`, `wait_for_connected`,
//!    `wait_for_gathering_complete`, the data channel's `recv`) is made AGAIN after it has
//!    given its terminal answer – on closed sides and on sides whose connection ended by
//!    itself for good (Closed | Failed): recv() is drained (≤ 64 calls) until `None` and then
//!    called once more.
//!
//! None of the variants adds a demand: "tasks and sockets owned by the connection are released
//! within bounded time" is judged on whatever the configuration made the connection own; the
//! companion clause only says that a close releases nothing that is NOT the connection's own (a
//! close that takes another, live connection down is not "harmless").
//!
//! ORACLE (per side X, after the last event; the statement is the law):
//!  * X closed / dropped / stopped ICE itself, or X's peer did so, or the path died, or the
//!    peer sent SCTP ABORT / SHUTDOWN  ⇒  X's peer-state watch shows Closed | Failed |
//!    Disconnected and `disconnect_reason` is `Some` ("reports a terminal state and a reason");
//!  * every data channel of X that had reported `Open` sees `Close` exactly once;
//!  * API calls pending at the event (recv, wait_for_connected, wait_for_gathering_complete,
//!    a send blocked on the buffered-amount gate) return; a battery issued after `close()`
//!    returns (Ok or Err – the value is irrelevant);
//!  * X closed or was dropped ⇒ the rustrtc tasks on X's runtime and X's sockets are gone;
//!  * finally, once the harness has let go of everything, both runtimes are empty and the
//!    process socket set is back at the baseline; no rustrtc task panicked; a second `close()`
//!    changes nothing.
//! Timing rule (no wall-clock verdict from a single deadline): `bound` = longest timer chain
//! rustrtc itself needs for the scenario (configured small; the hard-coded 30 s DTLS handshake
//! deadline where a handshake is in flight) + 5 s.  Clause met ≤ bound ⇒ ok; met in
//! (bound, 3·bound] ⇒ inconclusive; still unmet at 3·bound ⇒ violated.  A child killed by the
//! parent's watchdog, a phase that could not be reached, bind errors … ⇒ inconclusive.
//! The peer is only required to notice within a bound rustrtc itself implies (ICE consent
//! timers in WebRTC mode); in Rtp/Srtp mode there is no lower layer that could fail, so only
//! the local side is judged there.

use crate::common::*;
use bytes::Bytes;
use parking_lot::Mutex;
use rustrtc::media::frame::{AudioFrame, MediaSample, VideoFrame};
use rustrtc::media::track::SampleStreamSource;
use rustrtc::transports::sctp::{DataChannel, DataChannelConfig};
use rustrtc::{
    DataChannelEvent, DisconnectReason, IceConnectionState, MediaKind, PeerConnection,
    PeerConnectionEvent, PeerConnectionState, RtcConfiguration, RtpCodecParameters, SdpType,
    SessionDescription, SignalingState, TransceiverDirection, TransportMode,
};
use serde_json::{Value, json};
use std::collections::BTreeSet;
use std::future::Future;
use std::net::SocketAddr;
use std::sync::Arc;
use std::sync::atomic::{AtomicBool, AtomicU64, AtomicUsize, Ordering};
use std::time::{Duration, Instant};
use tokio::net::UdpSocket;
use tokio::runtime::Handle;
use tokio::sync::watch;
use tokio::task::JoinHandle;

const RESULT_TAG: &str = "C17RESULT ";

// ------------------------------------------------------------------ configuration of timers

const STUN_TIMEOUT_MS: u64 = 1000;
const NOMINATION_TIMEOUT_MS: u64 = 1000;
const ICE_CONN_TIMEOUT_MS: u64 = 4000;
const ICE_DISC_THRESHOLD_MS: u64 = 2000;
const ICE_DISC_GRACE_MS: u64 = 1000;
/// rustrtc: `DTLS_HANDSHAKE_TIMEOUT` (hard-coded, src/transports/dtls/mod.rs)
const DTLS_HANDSHAKE_DEADLINE_MS: u64 = 30_000;
/// rustrtc: ICE keepalive / consent tick (hard-coded 1 s interval in the ICE runner)
const ICE_TICK_MS: u64 = 1000;

/// Flap scenarios ("flapN": N recoveries inside one grace window).  The consent threshold is
/// lowered so that an outage is noticed quickly, the grace period is sized so that N complete
/// outage→recovery→outage cycles fit into it (per cycle and side: ≤ 1 tick until the slower side
/// has noticed the outage, ≤ 1 tick until the recovery is noticed, threshold + ≤ 1 tick until the
/// next outage is noticed), and the hard ICE timeout is moved far away so that the only timer
/// chain that may end the connection is the documented one (`ice_disconnect_grace`: "bounding
/// how long a dead connection lingers").
const FLAP_THRESHOLD_MS: u64 = 1500;
const FLAP_ICE_CONN_TIMEOUT_MS: u64 = 600_000;
fn flap_grace_ms(n: u64) -> u64 {
    n * (FLAP_THRESHOLD_MS + 3 * ICE_TICK_MS) + 1500
}
/// number of recoveries of the scenario's flap event (0 = no flap event)
fn flap_n(sc: &Value) -> u64 {
    sc["events"]
        .as_array()
        .and_then(|a| a.iter().filter_map(|e| e["ev"].as_str()).find_map(|e| e.strip_prefix("flap")).and_then(|n| n.parse().ok()))
        .unwrap_or(0)
}

/// Configuration variant of a scenario (`"cfg"`, absent = "plain") and its media shape
/// (`"media"`, absent = "dc"); see the header comment.
fn cfg_of(sc: &Value) -> &str {
    sc["cfg"].as_str().unwrap_or("plain")
}
fn media_of(sc: &Value) -> &str {
    sc["media"].as_str().unwrap_or("dc")
}
/// suffix that distinguishes a non-default variant in labels (`/mux/audio`) …
fn variant_label(sc: &Value) -> String {
    let mut s = String::new();
    if cfg_of(sc) != "plain" {
        s.push_str(&format!("/{}", cfg_of(sc)));
    }
    if media_of(sc) != "dc" {
        s.push_str(&format!("/{}", media_of(sc)));
    }
    s
}
/// … and in violation keys (`,cfg=mux,media=audio`); empty for the default shape, so the keys
/// of the plain scenarios are what they always were
fn variant_key(sc: &Value) -> String {
    let mut s = String::new();
    if cfg_of(sc) != "plain" {
        s.push_str(&format!(",cfg={}", cfg_of(sc)));
    }
    if media_of(sc) != "dc" {
        s.push_str(&format!(",media={}", media_of(sc)));
    }
    s
}

/// rustrtc: the demux loop of a shared `ice_udp_mux` port polls its shutdown flag at this
/// interval (hard-coded, src/transports/ice/shared_udp.rs `shutdown_signal`)
const SHARED_UDP_SHUTDOWN_POLL_MS: u64 = 250;

/// Ports the harness hands to rustrtc for one child process.  All of them come from one block
/// of ten consecutive ports below the ephemeral range (so that no `bind(…:0)` of anybody lands
/// on them), picked from the child's pid (children run in parallel) and probed for being free
/// on UDP and TCP right before use.
#[derive(Clone, Copy, Debug, Default)]
struct Ports {
    block: u16,
}
impl Ports {
    fn pick() -> Result<Ports, String> {
        let pid = std::process::id() as u64;
        for k in 0..64u64 {
            let block = 21_000 + (((pid + 37 * k) % 1000) * 10) as u16;
            let free = (block..block + 10).all(|p| {
                std::net::UdpSocket::bind(("127.0.0.1", p)).is_ok() && std::net::TcpListener::bind(("127.0.0.1", p)).is_ok()
            });
            if free {
                return Ok(Ports { block });
            }
        }
        Err("no free block of ports for the mux / tcp variants".into())
    }
    fn idx(side: &str) -> u16 {
        if side == "B" { 1 } else { 0 }
    }
    /// `ice_udp_mux_port` of a side (the two sides live in one process: two ports)
    fn mux(&self, side: &str) -> u16 {
        self.block + Self::idx(side)
    }
    /// `tcp_port_range` (three ports) of a side
    fn tcp_range(&self, side: &str) -> (u16, u16) {
        let s = self.block + 2 + 3 * Self::idx(side);
        (s, s + 2)
    }
    /// single-port `tcp_port_range` (start == end: process-wide shared listener) of a side
    fn tcp1(&self, side: &str) -> u16 {
        self.block + 8 + Self::idx(side)
    }
}

/// `side`: "A" | "B" = the two sides of the scenario; "C" = the companion connection of a `mux2`
/// scenario that shares the subject's mux port (`share` = the side it shares with); "D" = the
/// companion's peer (always plain).
fn rtc_config(sc: &Value, side: &str, share: &str, ports: &Ports) -> RtcConfiguration {
    let mode = sc["mode"].as_str().unwrap_or("webrtc");
    let phase = sc["phase"].as_str().unwrap_or("");
    let flaps = if side == "A" || side == "B" { flap_n(sc) } else { 0 };
    let mut c = RtcConfiguration::default();
    c.transport_mode = match mode {
        "srtp" => TransportMode::Srtp,
        "rtp" => TransportMode::Rtp,
        _ => TransportMode::WebRtc,
    };
    c.bind_ip = Some("127.0.0.1".into());
    c.disable_ipv6 = true;
    c.stun_timeout = Duration::from_millis(STUN_TIMEOUT_MS);
    c.nomination_timeout = Duration::from_millis(NOMINATION_TIMEOUT_MS);
    c.ice_connection_timeout = Duration::from_millis(ICE_CONN_TIMEOUT_MS);
    c.ice_disconnect_threshold = Duration::from_millis(ICE_DISC_THRESHOLD_MS);
    c.ice_disconnect_grace = Duration::from_millis(ICE_DISC_GRACE_MS);
    c.sctp_rto_initial = Duration::from_millis(300);
    c.sctp_rto_min = Duration::from_millis(100);
    c.sctp_rto_max = Duration::from_millis(1000);
    c.sctp_heartbeat_interval = Duration::from_millis(500);
    c.sctp_max_association_retransmits = 4;
    c.sctp_max_heartbeat_failures = 2;
    if phase == "sender_blocked" && (side == "A" || side == "B") {
        c.sctp_max_buffered_amount = 16 * 1024;
    }
    if flaps > 0 {
        c.ice_disconnect_threshold = Duration::from_millis(FLAP_THRESHOLD_MS);
        c.ice_disconnect_grace = Duration::from_millis(flap_grace_ms(flaps));
        c.ice_connection_timeout = Duration::from_millis(FLAP_ICE_CONN_TIMEOUT_MS);
        // the SCTP association must not give up by itself while the path flaps: the layer under
        // test is the ICE-disconnect handling of the connected-state loop
        c.sctp_max_association_retransmits = 200;
        c.sctp_max_heartbeat_failures = 200;
    }
    // ---- configuration variants: resources the plain configuration never creates
    match (cfg_of(sc), side) {
        (_, "D") => {}
        ("mux2", "C") => {
            c.ice_udp_mux = true;
            c.ice_udp_mux_port = Some(ports.mux(share));
        }
        ("mux" | "mux2", _) => {
            // one process-wide UDP socket + demux task per port, shared by registration
            c.ice_udp_mux = true;
            c.ice_udp_mux_port = Some(ports.mux(side));
        }
        ("tcp", _) => {
            // ICE-TCP: a passive listener (ephemeral port) + its accept loop per connection
            c.ice_tcp_policy = rustrtc::IceTcpPolicy::Enabled;
        }
        ("tcprange", _) => {
            let (s, e) = ports.tcp_range(side);
            c.ice_tcp_policy = rustrtc::IceTcpPolicy::PassiveOnly;
            c.tcp_port_range_start = Some(s);
            c.tcp_port_range_end = Some(e);
        }
        ("tcp1", _) => {
            // start == end: process-wide shared listener + accept task, shared by registration
            c.tcp_port_range_start = Some(ports.tcp1(side));
            c.tcp_port_range_end = Some(ports.tcp1(side));
        }
        ("latch", _) => c.enable_latching = true,
        ("rtcpsplit", _) => {
            // Rtp mode without rtcp-mux: a second (RTCP) socket per connection
            c.rtcp_mux_policy = rustrtc::RtcpMuxPolicy::Negotiate;
        }
        _ => {}
    }
    c
}

/// Longest chain of rustrtc timers a scenario may legitimately need, + 5 s.
fn bound_ms(sc: &Value) -> u64 {
    let phase = sc["phase"].as_str().unwrap_or("");
    let has_shutdown = sc["events"].as_array().map(|a| a.iter().any(|e| e["ev"] == "shutdown")).unwrap_or(false);
    let flaps = flap_n(sc);
    let chain = if flaps > 0 {
        // final outage: noticed after the consent threshold (+ a tick), then the documented
        // `ice_disconnect_grace` runs out (+ a tick of slack); the hard ICE timeout is configured
        // far away and never needed
        FLAP_THRESHOLD_MS + ICE_TICK_MS + flap_grace_ms(flaps) + ICE_TICK_MS
    } else if has_shutdown && phase != "dtls_handshaking" {
        // after SHUTDOWN / SHUTDOWN-ACK the receiver only learns through heartbeat failures,
        // which rustrtc suppresses for a hard-coded 30 s after the last SACK (sctp.rs
        // send_heartbeat), then heartbeat_interval × max_association_retransmits
        30_000 + 4 * 500
    } else if phase == "dtls_handshaking" {
        // a handshake in flight is only given up at rustrtc's fixed 30 s deadline
        DTLS_HANDSHAKE_DEADLINE_MS
    } else {
        // silence is noticed by the ICE consent check (timeout + two ticks); failed checks
        // by stun_timeout per pair; the connected-state loop waits up to 6 × nomination_timeout
        (ICE_CONN_TIMEOUT_MS + 2 * ICE_TICK_MS)
            .max(6 * NOMINATION_TIMEOUT_MS)
            .max(4 * STUN_TIMEOUT_MS)
    };
    chain + 5000
}

// ------------------------------------------------------------------ scenario enumeration

const WEBRTC_PHASES: [&str; 10] = [
    "created",
    "offer_made",
    "gathering",
    "checking",
    "dtls_handshaking",
    "sctp_connecting",
    "channels_open",
    "media_flowing",
    "renegotiating",
    "sender_blocked",
];
const DIRECT_PHASES: [&str; 4] = ["created", "offer_made", "connected", "media_flowing"];
/// phases in which the connected-state loop (ICE-disconnect grace handling) is running.
/// (Rtp/Srtp mode has its own copy of that loop, but rustrtc's ICE runner only ever reports
/// `Disconnected` in WebRTC mode, so no network history reaches it there.)
const FLAP_PHASES: [&str; 4] = ["channels_open", "media_flowing", "renegotiating", "sender_blocked"];
const FLAP_EVENTS: [&str; 3] = ["flap1", "flap2", "flap3"];

fn phase_has_peer(phase: &str) -> bool {
    !matches!(phase, "new" | "created" | "offer_made" | "gathering")
}
fn phase_has_sctp(phase: &str) -> bool {
    matches!(phase, "channels_open" | "media_flowing" | "renegotiating" | "sender_blocked")
}

fn mk(mode: &str, phase: &str, events: &[(&str, &str)], channel: &str) -> Value {
    let evs: Vec<Value> = events.iter().map(|(e, s)| json!({"ev": e, "side": s})).collect();
    json!({"mode": mode, "phase": phase, "events": evs, "gap_ms": 100, "channel": channel})
}
/// a scenario in a configuration variant / media shape (the default values are not written, so
/// the plain scenarios are byte-identical to what they always were)
fn mkv(mode: &str, phase: &str, events: &[(&str, &str)], channel: &str, cfg: &str, media: &str) -> Value {
    let mut v = mk(mode, phase, events, if media == "audio" { "none" } else { channel });
    if cfg != "plain" {
        v["cfg"] = json!(cfg);
    }
    if media != "dc" {
        v["media"] = json!(media);
    }
    v
}

/// Phases of a WebRTC connection WITHOUT an m=application section (media = "audio"): everything
/// that does not need a data channel.  `connected` = ICE + DTLS up (the statement's "DTLS
/// connected"), no media sent yet.
const AUDIO_PHASES: [&str; 8] =
    ["created", "offer_made", "gathering", "checking", "dtls_handshaking", "connected", "media_flowing", "renegotiating"];
/// the six of them the quick tier always runs with close and drop
const AUDIO_QUICK_PHASES: [&str; 6] = ["created", "offer_made", "gathering", "checking", "dtls_handshaking", "media_flowing"];
/// events of a connection without SCTP (no ABORT / SHUTDOWN, no blocked sender)
fn audio_events(phase: &str) -> Vec<Ev> {
    if !phase_has_peer(phase) {
        return vec![("close", "A"), ("drop", "A"), ("ice_stop", "A")];
    }
    vec![
        ("close", "A"), ("close", "B"), ("drop", "A"), ("drop", "B"),
        ("ice_stop", "A"), ("ice_stop", "B"), ("socket_loss", "N"), ("blackhole", "N"),
    ]
}
/// phases in which a connection has gathered, i.e. holds its registration on a shared mux port
const MUX2_PHASES: [&str; 5] = ["offer_made", "checking", "sctp_connecting", "channels_open", "media_flowing"];

/// all single-event scenarios that make sense for (mode, phase)
fn single_events(mode: &str, phase: &str) -> Vec<(&'static str, &'static str)> {
    let mut v: Vec<(&'static str, &'static str)> = vec![];
    if mode != "webrtc" {
        v.push(("close", "A"));
        v.push(("drop", "A"));
        if phase_has_peer(phase) {
            v.push(("close", "B"));
            v.push(("drop", "B"));
        }
        return v;
    }
    if !phase_has_peer(phase) {
        v.extend([("close", "A"), ("drop", "A"), ("ice_stop", "A")]);
        return v;
    }
    if phase == "sender_blocked" {
        // the blocked sender is A and borrows A's handle, so A cannot be dropped
        v.extend([("close", "A"), ("close", "B"), ("drop", "B"), ("ice_stop", "A")]);
        v.extend([("abort", "B"), ("socket_loss", "N"), ("blackhole", "N")]);
        return v;
    }
    v.extend([("close", "A"), ("close", "B"), ("drop", "A"), ("drop", "B")]);
    v.extend([("ice_stop", "A"), ("ice_stop", "B"), ("socket_loss", "N"), ("blackhole", "N")]);
    if phase_has_sctp(phase) {
        v.extend([("abort", "A"), ("abort", "B"), ("shutdown", "A"), ("shutdown", "B")]);
    }
    v
}

fn enumerate(tier: Tier, seed: u64) -> Vec<Value> {
    let mut rng = Rng::new(seed).fork(17);
    let mut out = vec![];
    let chan = |r: &mut Rng| if r.bool() { "inband" } else { "negotiated" };
    match tier {
        Tier::Quick => {
            // all phases × {close, drop} in WebRTC mode, subject side rotated by the seed
            for ph in WEBRTC_PHASES {
                for ev in ["close", "drop"] {
                    let side = if !phase_has_peer(ph) {
                        "A"
                    } else if ph == "sender_blocked" {
                        if ev == "drop" { "B" } else { "A" }
                    } else if rng.bool() {
                        "A"
                    } else {
                        "B"
                    };
                    out.push(mk("webrtc", ph, &[(ev, side)], chan(&mut rng)));
                }
            }
            // seed-rotated sample of the other events
            let mut rest = vec![];
            for ph in WEBRTC_PHASES {
                for (ev, side) in single_events("webrtc", ph) {
                    if ev != "close" && ev != "drop" && ph != "dtls_handshaking" {
                        rest.push((ph, ev, side));
                    }
                }
            }
            rng.shuffle(&mut rest);
            for (ph, ev, side) in rest.into_iter().take(10) {
                out.push(mk("webrtc", ph, &[(ev, side)], chan(&mut rng)));
            }
            // two racing pairs
            let pairs = racing_pairs();
            for _ in 0..2 {
                let p = rng.pick(&pairs).clone();
                out.push(mk("webrtc", "channels_open", &[p.0, p.1], chan(&mut rng)));
            }
            // direct modes: sample
            let mut direct = vec![];
            for mode in ["srtp", "rtp"] {
                for ph in DIRECT_PHASES {
                    for (ev, side) in single_events(mode, ph) {
                        direct.push((mode, ph, ev, side));
                    }
                }
            }
            rng.shuffle(&mut direct);
            for (mode, ph, ev, side) in direct.into_iter().take(8) {
                out.push(mk(mode, ph, &[(ev, side)], "none"));
            }
            // path flaps inside the ICE-disconnect grace window: the plain case always, one
            // seed-rotated (phase, number of recoveries) on top
            let mut frng = Rng::new(seed).fork(1703);
            out.push(mk("webrtc", "channels_open", &[("flap1", "N")], chan(&mut frng)));
            let ph = *frng.pick(&FLAP_PHASES[1..]);
            let ev = if frng.bool() { "flap1" } else { "flap2" };
            out.push(mk("webrtc", ph, &[(ev, "N")], chan(&mut frng)));

            // ---- media shapes and configuration variants (own generator: the scenarios above
            // are what they were before these dimensions existed)
            let mut vr = Rng::new(seed).fork(1717);
            let side_of = |r: &mut Rng, ph: &str| if !phase_has_peer(ph) || r.bool() { "A" } else { "B" };
            // no m=application: the six phases × {close, drop}, subject side rotated by the seed
            for ph in AUDIO_QUICK_PHASES {
                for ev in ["close", "drop"] {
                    let side = side_of(&mut vr, ph);
                    out.push(mkv("webrtc", ph, &[(ev, side)], "none", "plain", "audio"));
                }
            }
            // … two of its other (phase, event) pairs, and three of audio + data channel
            let mut pool = vec![];
            for ph in AUDIO_PHASES {
                for (ev, side) in audio_events(ph) {
                    let covered = AUDIO_QUICK_PHASES.contains(&ph) && (ev == "close" || ev == "drop");
                    if !covered && ph != "dtls_handshaking" {
                        pool.push((ph, ev, side));
                    }
                }
            }
            vr.shuffle(&mut pool);
            for (ph, ev, side) in pool.into_iter().take(2) {
                out.push(mkv("webrtc", ph, &[(ev, side)], "none", "plain", "audio"));
            }
            let mut pool = vec![];
            for ph in WEBRTC_PHASES {
                for (ev, side) in single_events("webrtc", ph) {
                    if ev != "shutdown" && ph != "dtls_handshaking" {
                        pool.push((ph, ev, side));
                    }
                }
            }
            vr.shuffle(&mut pool);
            for (ph, ev, side) in pool.iter().take(3) {
                out.push(mkv("webrtc", ph, &[(*ev, *side)], chan(&mut vr), "plain", "audio+dc"));
            }
            // shared UDP mux port, one connection per port: the cheapest case always (the close
            // takes the port's reference count to zero), four more by the seed – two of them
            // close / drop (the subject's own census), two any event
            out.push(mkv("webrtc", "offer_made", &[("close", "A")], chan(&mut vr), "mux", "dc"));
            vr.shuffle(&mut pool);
            let gathered = |ph: &str| ph != "created";
            let own: Vec<_> = pool.iter().filter(|x| gathered(x.0) && (x.1 == "close" || x.1 == "drop")).take(2).cloned().collect();
            let any: Vec<_> = pool.iter().filter(|x| gathered(x.0) && !own.contains(x)).take(2).cloned().collect();
            for (ph, ev, side) in own.into_iter().chain(any) {
                let media = if ph == "sender_blocked" || vr.chance(2, 3) { "dc" } else { "audio+dc" };
                out.push(mkv("webrtc", ph, &[(ev, side)], chan(&mut vr), "mux", media));
            }
            // two connections on one mux port: the first to go must leave the port alone
            {
                let ph = *vr.pick(&MUX2_PHASES);
                let ev = if vr.bool() { "close" } else { "drop" };
                let side = side_of(&mut vr, ph);
                out.push(mkv("webrtc", ph, &[(ev, side)], chan(&mut vr), "mux2", "dc"));
            }
            // the other resources the plain configuration never creates: one scenario each
            for cfg in ["tcp", "tcprange", "tcp1", "latch"] {
                let ph = *vr.pick(&["offer_made", "gathering", "checking", "sctp_connecting", "channels_open", "media_flowing"]);
                let ev = if vr.bool() { "close" } else { "drop" };
                let side = side_of(&mut vr, ph);
                out.push(mkv("webrtc", ph, &[(ev, side)], chan(&mut vr), cfg, "dc"));
            }
            // (Rtp mode: only there does rustrtc bind a separate RTCP socket / latch on RTP)
            for cfg in ["rtcpsplit", "latch"] {
                let ph = *vr.pick(&DIRECT_PHASES[1..]);
                let evs = single_events("rtp", ph);
                let (ev, side) = *vr.pick(&evs);
                out.push(mkv("rtp", ph, &[(ev, side)], "none", cfg, "dc"));
            }
        }
        Tier::Thorough => {
            for ph in WEBRTC_PHASES {
                for (ev, side) in single_events("webrtc", ph) {
                    out.push(mk("webrtc", ph, &[(ev, side)], chan(&mut rng)));
                }
            }
            for p in racing_pairs() {
                out.push(mk("webrtc", "channels_open", &[p.0, p.1], chan(&mut rng)));
            }
            for ph in ["checking", "sctp_connecting", "media_flowing"] {
                for p in [
                    (("close", "A"), ("close", "B")),
                    (("close", "B"), ("drop", "A")),
                    (("drop", "A"), ("drop", "B")),
                    (("close", "A"), ("close", "A")),
                    (("socket_loss", "N"), ("close", "A")),
                ] {
                    out.push(mk("webrtc", ph, &[p.0, p.1], chan(&mut rng)));
                }
            }
            for mode in ["srtp", "rtp"] {
                for ph in DIRECT_PHASES {
                    for (ev, side) in single_events(mode, ph) {
                        out.push(mk(mode, ph, &[(ev, side)], "none"));
                    }
                }
            }
            // phase "new": the event lands in the same poll as `PeerConnection::new()`, i.e. before
            // the runtime has run any of the connection's background tasks even once
            for mode in ["webrtc", "srtp", "rtp"] {
                for ev in ["close", "drop", "ice_stop"] {
                    if mode == "webrtc" || ev != "ice_stop" {
                        out.push(mk(mode, "new", &[(ev, "A")], if mode == "webrtc" { chan(&mut rng) } else { "none" }));
                    }
                }
            }
            for ph in FLAP_PHASES {
                for ev in FLAP_EVENTS {
                    out.push(mk("webrtc", ph, &[(ev, "N")], chan(&mut rng)));
                }
            }
            // a flapped (possibly stuck) connection must still be closable / droppable
            for second in [("close", "A"), ("close", "B"), ("drop", "B"), ("ice_stop", "A")] {
                out.push(mk("webrtc", "channels_open", &[("flap1", "N"), second], chan(&mut rng)));
            }
            // ---- media shapes and configuration variants: everything
            let mut vr = Rng::new(seed).fork(1717);
            for ph in AUDIO_PHASES {
                for (ev, side) in audio_events(ph) {
                    out.push(mkv("webrtc", ph, &[(ev, side)], "none", "plain", "audio"));
                }
            }
            for ph in ["checking", "dtls_handshaking", "media_flowing"] {
                for p in [(("close", "A"), ("close", "B")), (("close", "B"), ("drop", "A")), (("close", "A"), ("close", "A")), (("ice_stop", "A"), ("close", "A"))] {
                    out.push(mkv("webrtc", ph, &[p.0, p.1], "none", "plain", "audio"));
                }
            }
            for ph in WEBRTC_PHASES {
                for (ev, side) in single_events("webrtc", ph) {
                    if ev == "close" || ev == "drop" || ev == "ice_stop" {
                        out.push(mkv("webrtc", ph, &[(ev, side)], chan(&mut vr), "plain", "audio+dc"));
                    }
                }
            }
            for ph in WEBRTC_PHASES {
                for (ev, side) in single_events("webrtc", ph) {
                    out.push(mkv("webrtc", ph, &[(ev, side)], chan(&mut vr), "mux", "dc"));
                }
            }
            for ph in AUDIO_PHASES {
                for (ev, side) in audio_events(ph) {
                    if ev == "close" || ev == "drop" {
                        out.push(mkv("webrtc", ph, &[(ev, side)], "none", "mux", "audio"));
                    }
                }
            }
            for ev in ["close", "drop", "ice_stop"] {
                out.push(mkv("webrtc", "new", &[(ev, "A")], chan(&mut vr), "mux", "dc"));
            }
            for ph in MUX2_PHASES {
                for (ev, side) in [("close", "A"), ("close", "B"), ("drop", "A"), ("drop", "B"), ("ice_stop", "A")] {
                    if phase_has_peer(ph) || side == "A" {
                        out.push(mkv("webrtc", ph, &[(ev, side)], chan(&mut vr), "mux2", "dc"));
                    }
                }
            }
            for p in [(("close", "A"), ("close", "B")), (("drop", "A"), ("drop", "B")), (("close", "A"), ("close", "A")), (("ice_stop", "A"), ("close", "A"))] {
                out.push(mkv("webrtc", "channels_open", &[p.0, p.1], chan(&mut vr), "mux", "dc"));
            }
            for cfg in ["tcp", "tcprange", "tcp1", "latch"] {
                for ph in ["offer_made", "gathering", "checking", "dtls_handshaking", "sctp_connecting", "channels_open", "media_flowing"] {
                    for (ev, side) in [("close", "A"), ("close", "B"), ("drop", "A"), ("drop", "B")] {
                        if phase_has_peer(ph) || side == "A" {
                            out.push(mkv("webrtc", ph, &[(ev, side)], chan(&mut vr), cfg, "dc"));
                        }
                    }
                }
            }
            for cfg in ["rtcpsplit", "latch"] {
                for ph in DIRECT_PHASES {
                    for (ev, side) in single_events("rtp", ph) {
                        out.push(mkv("rtp", ph, &[(ev, side)], "none", cfg, "dc"));
                    }
                }
            }
        }
    }
    out
}

type Ev = (&'static str, &'static str);
/// ordered pairs of events 100 ms apart (pairs that would need a handle that no longer exists
/// are not expressible and therefore skipped)
fn racing_pairs() -> Vec<(Ev, Ev)> {
    let evs: [Ev; 7] = [
        ("close", "A"),
        ("close", "B"),
        ("drop", "A"),
        ("drop", "B"),
        ("ice_stop", "A"),
        ("socket_loss", "N"),
        ("abort", "B"),
    ];
    let mut v = vec![];
    for e1 in evs {
        for e2 in evs {
            if e1.0 == "drop" && e2.1 == e1.1 {
                continue; // nothing left to act on
            }
            if e1 == e2 && e1.0 != "close" {
                continue;
            }
            if e1.0 == "close" && e2.0 == "abort" && e1.1 == e2.1 {
                continue; // a closed side has no association left to send ABORT on
            }
            v.push((e1, e2));
        }
    }
    v
}

// ------------------------------------------------------------------ parent

pub fn run(args: &Args) -> i32 {
    if let Some(s) = args.opt("--child") {
        return child_main(&s);
    }
    let mut report = Report::new(
        args,
        "fault_enumeration",
        "scenario reached its start-up phase (checked on ICE/DTLS/SCTP state, NatWire counters and channel events), every event was applied, and state / reason / channel / census observations were taken afterwards",
    );
    report.max_samples = 8;
    report.assume("tokio RuntimeMetrics::num_alive_tasks() of a side's private runtime, minus the harness' counted driver tasks, is the number of rustrtc tasks of that side's connection");
    report.assume("a clause unmet at 3x(bound) with bound = rustrtc's own longest timer chain + 5 s is treated as never met; met between bound and 3x bound is inconclusive");
    report.assume("Disconnected counts as a terminal report (DESIGN C17); in Rtp/Srtp mode only the local side is judged");

    let scenarios: Vec<Value> = if let Some(p) = &args.replay {
        match load_replay(p) {
            Some(s) => vec![s],
            None => {
                eprintln!("cannot load replay {}", p.display());
                return 2;
            }
        }
    } else {
        let all = enumerate(args.tier, args.seed);
        // `--only <substring of mode/phase/events>`: restrict a run (debugging, fix validation)
        match args.opt("--only") {
            Some(f) => all.into_iter().filter(|sc| scenario_label(sc).contains(&f)).collect(),
            None => all,
        }
    };
    if args.has_flag("--list") {
        // the scenarios of this tier / seed, one label per line (nothing is run)
        for sc in &scenarios {
            println!("{}", scenario_label(sc));
        }
        return 0;
    }
    let replay_mode = args.replay.is_some();
    let total = scenarios.len();
    // slow (30 s DTLS deadline) scenarios first so that they overlap with everything else
    let mut order: Vec<usize> = (0..total).collect();
    order.sort_by_key(|i| std::cmp::Reverse(bound_ms(&scenarios[*i])));

    let exe = match std::env::current_exe() {
        Ok(e) => e,
        Err(e) => {
            eprintln!("current_exe: {e}");
            return 2;
        }
    };
    let next = Arc::new(AtomicUsize::new(0));
    let results: Arc<Mutex<Vec<(usize, Value)>>> = Arc::new(Mutex::new(vec![]));
    let workers = if replay_mode { 1 } else { 20.min(total.max(1)) }; // children mostly sleep
    let mut ths = vec![];
    for _ in 0..workers {
        let next = next.clone();
        let results = results.clone();
        let order = order.clone();
        let scenarios = scenarios.clone();
        let exe = exe.clone();
        ths.push(std::thread::spawn(move || {
            loop {
                let k = next.fetch_add(1, Ordering::SeqCst);
                if k >= order.len() {
                    break;
                }
                let i = order[k];
                let sc = &scenarios[i];
                // replay: up to 5 attempts (rustrtc's own randomness and the scheduler are not
                // seedable); normal run: one retry when the phase could not be set up
                let attempts = if replay_mode { 5 } else { 2 };
                let mut last = json!({"status": "harness_error", "reason": "not run"});
                for _ in 0..attempts {
                    last = run_child(&exe, sc);
                    let viol = last["findings"].as_array().map(|a| !a.is_empty()).unwrap_or(false);
                    let ok = last["status"] == "ok";
                    if viol || (!replay_mode && ok) {
                        break;
                    }
                }
                results.lock().push((i, last));
            }
        }));
    }
    for t in ths {
        let _ = t.join();
    }
    let mut res = std::mem::take(&mut *results.lock());
    res.sort_by_key(|r| r.0);

    for (i, r) in res {
        let sc = &scenarios[i];
        digest(&mut report, sc, &r);
    }
    let restricted = replay_mode || args.opt("--only").is_some();
    let min = if restricted { 1 } else { (total as u64 * 6) / 10 };
    report.finish(min, if restricted { 0 } else { (total as u64) / 2 })
}

fn run_child(exe: &std::path::Path, sc: &Value) -> Value {
    use std::io::Read;
    use std::process::{Command, Stdio};
    let b = bound_ms(sc);
    // phase set-up (≤ 30 s) + three waits of at most 3×bound + slack
    let watchdog = Duration::from_millis(30_000 + 9 * b + 30_000);
    let mut child = match Command::new(exe)
        .arg("C17")
        .arg("--child")
        .arg(sc.to_string())
        .stdin(Stdio::null())
        .stdout(Stdio::piped())
        .stderr(if std::env::var("RTCMON_C17_TRACE").is_ok() { Stdio::inherit() } else { Stdio::null() })
        .spawn()
    {
        Ok(c) => c,
        Err(e) => return json!({"status": "harness_error", "reason": format!("spawn: {e}")}),
    };
    let mut out = child.stdout.take();
    let reader = std::thread::spawn(move || {
        let mut s = String::new();
        if let Some(o) = out.as_mut() {
            let _ = o.read_to_string(&mut s);
        }
        s
    });
    let t0 = Instant::now();
    let status = loop {
        match child.try_wait() {
            Ok(Some(st)) => break Some(st),
            Ok(None) => {
                if t0.elapsed() > watchdog {
                    let _ = child.kill();
                    let _ = child.wait();
                    break None;
                }
                std::thread::sleep(Duration::from_millis(50));
            }
            Err(_) => break None,
        }
    };
    let text = reader.join().unwrap_or_default();
    for line in text.lines() {
        if let Some(j) = line.strip_prefix(RESULT_TAG) {
            if let Ok(v) = serde_json::from_str::<Value>(j) {
                return v;
            }
        }
    }
    match status {
        None => json!({"status": "harness_error", "reason": "child killed by watchdog"}),
        Some(st) => json!({"status": "harness_error", "reason": format!("child ended without result ({st})")}),
    }
}

fn digest(report: &mut Report, sc: &Value, r: &Value) {
    let label = scenario_label(sc);
    let status = r["status"].as_str().unwrap_or("harness_error");
    if status != "ok" {
        report.count("child_not_ok", 1);
        let why = format!("{label}: {}", r["reason"].as_str().unwrap_or("?"));
        report.record(sc, None, Verdict::Inconclusive(why));
        return;
    }
    report.count("scenarios_phase_reached", 1);
    report.seen("phase", sc["phase"].as_str().unwrap_or("?"));
    report.seen("mode", sc["mode"].as_str().unwrap_or("?"));
    report.seen("cfg", cfg_of(sc));
    report.seen("media", media_of(sc));
    if let Some(evs) = sc["events"].as_array() {
        for e in evs {
            report.seen("event", format!("{}@{}", e["ev"].as_str().unwrap_or("?"), e["side"].as_str().unwrap_or("?")));
        }
        if evs.len() > 1 {
            report.count("racing_pairs", 1);
        }
    }
    if let Some(o) = r["obs"].as_object() {
        for (k, v) in o {
            if let Some(n) = v.as_u64() {
                report.count(&format!("obs.{k}"), n);
            }
        }
    }
    if let Some(a) = r["seen"].as_array() {
        for s in a {
            if let (Some(k), Some(v)) = (s[0].as_str(), s[1].as_str()) {
                report.seen(k, v);
            }
        }
    }
    report.sample(json!({"scenario": sc, "census": r["census"], "clauses": r["clauses"], "wire": r["wire"]}));
    let h = Some(hash_value(sc));
    let findings = r["findings"].as_array().cloned().unwrap_or_default();
    let inconc = r["inconclusive"].as_array().cloned().unwrap_or_default();
    if !findings.is_empty() {
        let mut first = true;
        for f in findings {
            let key = f["key"].as_str().unwrap_or("?").to_string();
            let what = f["what"].as_str().unwrap_or("").to_string();
            let wit = json!({"clauses": r["clauses"], "census": r["census"], "detail": f["detail"], "wire": r["wire"], "states": r["states"], "events": r["events"]});
            if first {
                report.record(sc, h, Verdict::violated(key, what, wit));
                first = false;
            } else {
                report.violation(sc, &key, &what, wit);
            }
        }
    } else if !inconc.is_empty() {
        let why = inconc.iter().filter_map(|x| x.as_str()).collect::<Vec<_>>().join("; ");
        report.record(sc, h, Verdict::Inconclusive(format!("{label}: {why}")));
    } else {
        report.record(sc, h, Verdict::Held);
    }
}

fn event_label(sc: &Value) -> String {
    sc["events"]
        .as_array()
        .map(|a| {
            a.iter()
                .map(|e| format!("{}@{}", e["ev"].as_str().unwrap_or("?"), e["side"].as_str().unwrap_or("?")))
                .collect::<Vec<_>>()
                .join(">")
        })
        .unwrap_or_default()
}
fn scenario_label(sc: &Value) -> String {
    format!("{}/{}/{}{}", sc["mode"].as_str().unwrap_or("?"), sc["phase"].as_str().unwrap_or("?"), event_label(sc), variant_label(sc))
}

// ------------------------------------------------------------------ child: plumbing

struct LiveGuard(Arc<AtomicUsize>);
impl Drop for LiveGuard {
    fn drop(&mut self) {
        self.0.fetch_sub(1, Ordering::SeqCst);
    }
}

fn spawn_on<F, T>(rt: &Handle, live: &Arc<AtomicUsize>, fut: F) -> JoinHandle<T>
where
    F: Future<Output = T> + Send + 'static,
    T: Send + 'static,
{
    live.fetch_add(1, Ordering::SeqCst);
    let g = LiveGuard(live.clone());
    rt.spawn(async move {
        let _g = g;
        fut.await
    })
}

fn socket_inodes() -> BTreeSet<u64> {
    let mut s = BTreeSet::new();
    if let Ok(rd) = std::fs::read_dir("/proc/self/fd") {
        for e in rd.flatten() {
            if let Ok(t) = std::fs::read_link(e.path()) {
                let t = t.to_string_lossy().to_string();
                if let Some(x) = t.strip_prefix("socket:[") {
                    if let Ok(n) = x.trim_end_matches(']').parse::<u64>() {
                        s.insert(n);
                    }
                }
            }
        }
    }
    s
}

/// inodes of the UDP sockets OF THIS PROCESS that are bound to `port` (`/proc/net/udp` lists the
/// whole network namespace; the intersection with our own descriptors makes it ours)
fn own_udp_sockets_on_port(port: u16) -> BTreeSet<u64> {
    let mut s = BTreeSet::new();
    if let Ok(text) = std::fs::read_to_string("/proc/net/udp") {
        for line in text.lines().skip(1) {
            let f: Vec<&str> = line.split_whitespace().collect();
            // sl local_address rem_address st tx:rx tr:when retrnsmt uid timeout inode …
            if f.len() > 9 {
                let p = f[1].rsplit(':').next().and_then(|h| u16::from_str_radix(h, 16).ok());
                if p == Some(port) {
                    if let Ok(i) = f[9].parse::<u64>() {
                        s.insert(i);
                    }
                }
            }
        }
    }
    s.intersection(&socket_inodes()).cloned().collect()
}

struct DcWatch {
    dc: Arc<DataChannel>,
    log: Arc<Mutex<Vec<(u64, String)>>>,
    collector: JoinHandle<()>,
}

struct Pending {
    name: String,
    done: Arc<Mutex<Option<(u64, String)>>>,
    handle: JoinHandle<()>,
}

struct Side {
    name: &'static str,
    rt: Handle,
    live: Arc<AtomicUsize>,
    pc: Option<PeerConnection>,
    state_rx: watch::Receiver<PeerConnectionState>,
    reason_rx: watch::Receiver<Option<DisconnectReason>>,
    ice_rx: watch::Receiver<IceConnectionState>,
    sig_rx: watch::Receiver<SignalingState>,
    dcs: Vec<DcWatch>,
    dc_rx: Option<tokio::sync::mpsc::UnboundedReceiver<Arc<DataChannel>>>,
    socks: BTreeSet<u64>,
    /// a side that is alone in the process while it gathers (no peer yet): every socket that is
    /// not in this snapshot is its own, whenever it was created
    solo_base: Option<BTreeSet<u64>>,
    pending: Vec<Pending>,
    local: Option<&'static str>, // what this side did to itself: close | drop | ice_stop
    silenced: Option<String>,    // what was done to it from outside
    had_remote: bool,
    source: Option<Arc<SampleStreamSource>>,
    last_remote: Option<SessionDescription>,
    /// every peer-state value the watch channel showed, with the time it was seen
    state_log: Arc<Mutex<Vec<(u64, PeerConnectionState)>>>,
    state_logger: Option<JoinHandle<()>>,
}

#[derive(Clone)]
struct Clock(Instant);
impl Clock {
    fn ms(&self) -> u64 {
        self.0.elapsed().as_millis() as u64
    }
}

impl Side {
    async fn run<F, T>(&self, fut: F) -> Result<T, String>
    where
        F: Future<Output = T> + Send + 'static,
        T: Send + 'static,
    {
        spawn_on(&self.rt, &self.live, fut).await.map_err(|e| format!("side {} task: {e}", self.name))
    }
    fn tasks(&self) -> usize {
        self.rt.metrics().num_alive_tasks().saturating_sub(self.live.load(Ordering::SeqCst))
    }
    fn socks_open(&self, now: &BTreeSet<u64>) -> usize {
        match &self.solo_base {
            Some(b) => now.difference(b).count(),
            None => self.socks.intersection(now).count(),
        }
    }
    fn state(&self) -> PeerConnectionState {
        *self.state_rx.borrow()
    }
    fn reason(&self) -> Option<DisconnectReason> {
        self.reason_rx.borrow().clone()
    }
    fn terminal(&self) -> bool {
        matches!(
            self.state(),
            PeerConnectionState::Closed | PeerConnectionState::Failed | PeerConnectionState::Disconnected
        )
    }
    /// times at which the state log shows a transition INTO `st`
    fn entered(&self, st: PeerConnectionState) -> Vec<u64> {
        let l = self.state_log.lock();
        let mut out = vec![];
        let mut prev: Option<PeerConnectionState> = None;
        for (t, v) in l.iter() {
            if *v == st && prev != Some(st) {
                out.push(*t);
            }
            prev = Some(*v);
        }
        out
    }
    fn watch_dc(&mut self, rt_h: &Handle, clock: &Clock, dc: Arc<DataChannel>) {
        let log = Arc::new(Mutex::new(Vec::new()));
        let (l2, d2, c2) = (log.clone(), dc.clone(), clock.clone());
        let collector = rt_h.spawn(async move {
            loop {
                match d2.recv().await {
                    Some(DataChannelEvent::Open) => l2.lock().push((c2.ms(), "Open".to_string())),
                    Some(DataChannelEvent::Message(_)) => l2.lock().push((c2.ms(), "Message".to_string())),
                    Some(DataChannelEvent::Close) => l2.lock().push((c2.ms(), "Close".to_string())),
                    None => {
                        l2.lock().push((c2.ms(), "EOS".to_string()));
                        // an application that calls recv() once more after the end of the
                        // stream must get an answer again ("subsequent calls return")
                        let again = d2.recv().await;
                        l2.lock().push((c2.ms(), if again.is_none() { "EOS2".to_string() } else { "EOS2:Some".to_string() }));
                        break;
                    }
                }
            }
        });
        self.dcs.push(DcWatch { dc, log, collector });
    }
    fn dc_count(&self, idx: usize, what: &str) -> usize {
        self.dcs.get(idx).map(|d| d.log.lock().iter().filter(|e| e.1 == what).count()).unwrap_or(0)
    }
    /// spawn a named API call that may stay pending; it owns a clone of the handle
    fn spawn_pending<F, Fut>(&mut self, clock: &Clock, name: &str, f: F)
    where
        F: FnOnce(PeerConnection) -> Fut + Send + 'static,
        Fut: Future<Output = String> + Send + 'static,
    {
        let Some(pc) = self.pc.clone() else { return };
        let done = Arc::new(Mutex::new(None));
        let (d2, c2) = (done.clone(), clock.clone());
        let handle = spawn_on(&self.rt, &self.live, async move {
            let r = f(pc).await;
            *d2.lock() = Some((c2.ms(), r));
        });
        self.pending.push(Pending { name: name.to_string(), done, handle });
    }
    /// abort every harness task that owns a clone of the handle (needed before "drop")
    async fn abort_pending(&mut self) {
        for p in self.pending.drain(..) {
            p.handle.abort();
            let _ = p.handle.await;
        }
    }
}

async fn new_side(
    name: &'static str,
    rt: Handle,
    clock: &Clock,
    cfg: RtcConfiguration,
    immediate: Option<String>,
) -> Result<Side, String> {
    new_side_on(name, rt, Arc::new(AtomicUsize::new(0)), clock, cfg, immediate).await
}

/// `live`: the counter of harness-owned tasks on `rt` (shared by the sides that share a runtime)
async fn new_side_on(
    name: &'static str,
    rt: Handle,
    live: Arc<AtomicUsize>,
    clock: &Clock,
    cfg: RtcConfiguration,
    immediate: Option<String>,
) -> Result<Side, String> {
    // `immediate` (phase "new"): the event is applied in the same poll as the constructor, so
    // none of the tasks the constructor spawned has run yet when it lands
    let (pc, state_rx, reason_rx, ice_rx, sig_rx) = spawn_on(&rt, &live, async move {
        let pc = PeerConnection::new(cfg);
        let subs = (
            pc.subscribe_peer_state(),
            pc.subscribe_disconnect_reason(),
            pc.subscribe_ice_connection_state(),
            pc.subscribe_signaling_state(),
        );
        let pc = match immediate.as_deref() {
            Some("close") => {
                pc.close();
                Some(pc)
            }
            Some("ice_stop") => {
                pc.ice_transport().stop();
                Some(pc)
            }
            Some("drop") => {
                drop(pc);
                None
            }
            _ => Some(pc),
        };
        (pc, subs.0, subs.1, subs.2, subs.3)
    })
    .await
    .map_err(|e| format!("PeerConnection::new: {e}"))?;
    let mut s = Side {
        name,
        rt,
        live,
        state_rx,
        reason_rx,
        ice_rx,
        sig_rx,
        pc,
        dcs: vec![],
        dc_rx: None,
        socks: BTreeSet::new(),
        solo_base: None,
        pending: vec![],
        local: None,
        silenced: None,
        had_remote: false,
        source: None,
        last_remote: None,
        state_log: Arc::new(Mutex::new(Vec::new())),
        state_logger: None,
    };
    {
        // runs on the harness runtime (new_side is awaited from there): not part of the census
        let (mut rx, log, c2) = (s.state_rx.clone(), s.state_log.clone(), clock.clone());
        s.state_logger = Some(tokio::spawn(async move {
            loop {
                let v = *rx.borrow_and_update();
                log.lock().push((c2.ms(), v));
                if rx.changed().await.is_err() {
                    break;
                }
            }
        }));
    }
    // event pump = the application's pending `recv()`; in-band channels arrive through it
    let (tx, rx) = tokio::sync::mpsc::unbounded_channel();
    s.dc_rx = Some(rx);
    s.spawn_pending(clock, "recv", move |pc| async move {
        loop {
            match pc.recv().await {
                Some(PeerConnectionEvent::DataChannel(dc)) => {
                    let _ = tx.send(dc);
                }
                Some(_) => {}
                None => return "None".to_string(),
            }
        }
    });
    Ok(s)
}

// ------------------------------------------------------------------ NatWire

#[derive(Default)]
struct NwState {
    a_addr: Option<SocketAddr>,
    b_addr: Option<SocketAddr>,
    hold: [[bool; 5]; 2],
    blackhole: bool,
    passed: [[u64; 5]; 2],
    dropped: [[u64; 5]; 2],
}
const CLASS_NAMES: [&str; 5] = ["stun", "dtls_hs", "dtls_app", "rtp", "other"];
fn classify(b: u8) -> usize {
    match b {
        0..=3 => 0,
        20..=22 => 1,
        23 => 2,
        128..=191 => 3,
        _ => 4,
    }
}

struct NatWire {
    fa_addr: SocketAddr,
    fb_addr: SocketAddr,
    st: Arc<Mutex<NwState>>,
    tasks: Vec<JoinHandle<()>>,
}

impl NatWire {
    async fn new(rt_h: &Handle) -> Result<NatWire, String> {
        let fa = Arc::new(UdpSocket::bind("127.0.0.1:0").await.map_err(|e| format!("bind: {e}"))?);
        let fb = Arc::new(UdpSocket::bind("127.0.0.1:0").await.map_err(|e| format!("bind: {e}"))?);
        let fa_addr = fa.local_addr().map_err(|e| e.to_string())?;
        let fb_addr = fb.local_addr().map_err(|e| e.to_string())?;
        let st = Arc::new(Mutex::new(NwState::default()));
        let mut tasks = vec![];
        for dir in 0..2usize {
            let (rx, tx) = if dir == 0 { (fa.clone(), fb.clone()) } else { (fb.clone(), fa.clone()) };
            let st = st.clone();
            tasks.push(rt_h.spawn(async move {
                let mut buf = vec![0u8; 65536];
                loop {
                    let Ok((n, src)) = rx.recv_from(&mut buf).await else {
                        tokio::time::sleep(Duration::from_millis(1)).await;
                        continue;
                    };
                    if n == 0 {
                        continue;
                    }
                    let cl = classify(buf[0]);
                    let dst = {
                        let mut g = st.lock();
                        if dir == 0 {
                            g.a_addr = Some(src);
                        } else {
                            g.b_addr = Some(src);
                        }
                        if g.blackhole || g.hold[dir][cl] {
                            g.dropped[dir][cl] += 1;
                            None
                        } else {
                            g.passed[dir][cl] += 1;
                            if dir == 0 { g.b_addr } else { g.a_addr }
                        }
                    };
                    if let Some(d) = dst {
                        let _ = tx.send_to(&buf[..n], d).await;
                    }
                }
            }));
        }
        Ok(NatWire { fa_addr, fb_addr, st, tasks })
    }
    /// drop (= freeze) the given classes in both directions
    fn hold(&self, classes: &[usize]) {
        let mut g = self.st.lock();
        g.hold = [[false; 5]; 2];
        for c in classes {
            g.hold[0][*c] = true;
            g.hold[1][*c] = true;
        }
    }
    /// drop the given classes in one direction only (0 = A→B, 1 = B→A)
    fn hold_dir(&self, dir: usize, classes: &[usize]) {
        let mut g = self.st.lock();
        g.hold = [[false; 5]; 2];
        for c in classes {
            g.hold[dir][*c] = true;
        }
    }
    fn counters(&self) -> Value {
        let g = self.st.lock();
        let mut m = serde_json::Map::new();
        for d in 0..2 {
            for c in 0..5 {
                let dn = if d == 0 { "a2b" } else { "b2a" };
                if g.passed[d][c] > 0 {
                    m.insert(format!("{dn}.{}.passed", CLASS_NAMES[c]), json!(g.passed[d][c]));
                }
                if g.dropped[d][c] > 0 {
                    m.insert(format!("{dn}.{}.held", CLASS_NAMES[c]), json!(g.dropped[d][c]));
                }
            }
        }
        Value::Object(m)
    }
    fn seen(&self, dir: usize, class: usize) -> u64 {
        let g = self.st.lock();
        g.passed[dir][class] + g.dropped[dir][class]
    }
    /// "socket loss": the forwarder's sockets disappear
    async fn shutdown(&mut self) {
        for t in self.tasks.drain(..) {
            t.abort();
            let _ = t.await;
        }
    }
}

/// Rewrite every candidate line (fields 4,5 = address, port) and c= line to `to`; returns the
/// rewritten description and the first original candidate address.
fn rewrite_sdp(desc: &SessionDescription, to: SocketAddr) -> Result<(SessionDescription, Option<SocketAddr>), String> {
    let text = desc.to_sdp_string();
    let mut orig = None;
    let mut out = String::new();
    for line in text.lines() {
        if let Some(rest) = line.strip_prefix("a=candidate:") {
            let mut f: Vec<String> = rest.split_whitespace().map(|s| s.to_string()).collect();
            if f.len() >= 6 && !f[2].eq_ignore_ascii_case("udp") {
                // ICE-TCP candidates (cfg tcp / tcprange / tcp1) are not signalled: the
                // forwarder is UDP only.  Their listeners exist and are part of the census.
                continue;
            }
            if f.len() >= 6 {
                if orig.is_none() {
                    if let (Ok(ip), Ok(p)) = (f[4].parse::<std::net::IpAddr>(), f[5].parse::<u16>()) {
                        orig = Some(SocketAddr::new(ip, p));
                    }
                }
                f[4] = to.ip().to_string();
                f[5] = to.port().to_string();
                out.push_str("a=candidate:");
                out.push_str(&f.join(" "));
                out.push_str("\r\n");
                continue;
            }
        }
        out.push_str(line);
        out.push_str("\r\n");
    }
    let d = SessionDescription::parse(desc.sdp_type.clone(), &out).map_err(|e| format!("re-parse sdp: {e:?}"))?;
    Ok((d, orig))
}

// ------------------------------------------------------------------ child: the scenario

struct Clause {
    side: &'static str,
    tag: String,  // failure tag used in the key
    met_at: Option<u64>,
    required: bool,
    detail: Value,
}

fn child_main(arg: &str) -> i32 {
    let sc: Value = match serde_json::from_str(arg) {
        Ok(v) => v,
        Err(e) => {
            println!("{RESULT_TAG}{}", json!({"status": "harness_error", "reason": format!("bad scenario json: {e}")}));
            return 0;
        }
    };
    // debugging aid for replays: RTCMON_C17_TRACE=debug prints rustrtc's own tracing output
    if let Ok(f) = std::env::var("RTCMON_C17_TRACE") {
        let _ = tracing_subscriber::fmt()
            .with_env_filter(tracing_subscriber::EnvFilter::new(f))
            .with_writer(std::io::stderr)
            .try_init();
    }
    let mk_rt = |n: &str| {
        tokio::runtime::Builder::new_multi_thread()
            .worker_threads(2)
            .thread_name(n.to_string())
            .enable_all()
            .build()
    };
    let (rt_h, rt_a, rt_b, rt_c) = match (mk_rt("harness"), mk_rt("sideA"), mk_rt("sideB"), mk_rt("companion")) {
        (Ok(h), Ok(a), Ok(b), Ok(c)) => (h, a, b, c),
        _ => {
            println!("{RESULT_TAG}{}", json!({"status": "harness_error", "reason": "cannot build runtimes"}));
            return 0;
        }
    };
    let (ha, hb, hc, hh) = (rt_a.handle().clone(), rt_b.handle().clone(), rt_c.handle().clone(), rt_h.handle().clone());
    let res = rt_h.block_on(async move {
        match scenario(&sc, hh, ha, hb, hc).await {
            Ok(v) => v,
            Err(e) => json!({"status": "harness_error", "reason": e}),
        }
    });
    println!("{RESULT_TAG}{res}");
    use std::io::Write;
    let _ = std::io::stdout().flush();
    rt_a.shutdown_background();
    rt_b.shutdown_background();
    rt_c.shutdown_background();
    rt_h.shutdown_background();
    0
}

async fn wait_until<F: FnMut() -> bool>(ms: u64, mut f: F) -> bool {
    let t0 = Instant::now();
    loop {
        if f() {
            return true;
        }
        if t0.elapsed() > Duration::from_millis(ms) {
            return false;
        }
        tokio::time::sleep(Duration::from_millis(20)).await;
    }
}

fn dc_config(negotiated: bool) -> DataChannelConfig {
    DataChannelConfig {
        ordered: true,
        negotiated: if negotiated { Some(0) } else { None },
        ..Default::default()
    }
}

async fn offer_with_candidates(s: &Side) -> Result<SessionDescription, String> {
    let pc = s.pc.clone().ok_or("no handle")?;
    s.run(async move {
        let _ = pc.create_offer().await.map_err(|e| format!("create_offer: {e}"))?;
        pc.wait_for_gathering_complete().await;
        let o = pc.create_offer().await.map_err(|e| format!("create_offer: {e}"))?;
        pc.set_local_description(o.clone()).map_err(|e| format!("set_local(offer): {e}"))?;
        Ok::<_, String>(o)
    })
    .await?
}

async fn answer_with_candidates(s: &Side, offer: SessionDescription, webrtc: bool) -> Result<SessionDescription, String> {
    let pc = s.pc.clone().ok_or("no handle")?;
    s.run(async move {
        pc.set_remote_description(offer).await.map_err(|e| format!("set_remote(offer): {e}"))?;
        let mut a = pc.create_answer().await.map_err(|e| format!("create_answer: {e}"))?;
        if webrtc {
            pc.wait_for_gathering_complete().await;
            a = pc.create_answer().await.map_err(|e| format!("create_answer: {e}"))?;
        }
        // (Srtp mode: rustrtc starts the SDES transport as soon as the remote offer is applied
        // and fails for good with "Missing crypto attributes for SDES" if the local answer is
        // not applied yet – an establishment race outside C17; keep the window minimal.)
        pc.set_local_description(a.clone()).map_err(|e| format!("set_local(answer): {e}"))?;
        Ok::<_, String>(a)
    })
    .await?
}

fn video_params() -> RtpCodecParameters {
    RtpCodecParameters { payload_type: 96, name: "VP8".to_string(), clock_rate: 90000, channels: 0 }
}
fn audio_params() -> RtpCodecParameters {
    RtpCodecParameters { payload_type: 111, name: "opus".to_string(), clock_rate: 48000, channels: 2 }
}

/// does the local description of `s` carry a host candidate of the given transport (and port)?
fn has_local_candidate(desc: &SessionDescription, transport: &str, port: Option<u16>) -> bool {
    desc.to_sdp_string().lines().filter_map(|l| l.strip_prefix("a=candidate:")).any(|rest| {
        let f: Vec<&str> = rest.split_whitespace().collect();
        f.len() >= 6 && f[2].eq_ignore_ascii_case(transport) && port.map(|p| f[5] == p.to_string()).unwrap_or(true)
    })
}
/// the configuration variant must have had its effect on what the side gathered – otherwise the
/// scenario is not the one it claims to be (harness error, not evidence)
fn check_cfg_effect(sc: &Value, side: &str, ports: &Ports, desc: &SessionDescription) -> Result<(), String> {
    let ok = match cfg_of(sc) {
        "mux" | "mux2" => has_local_candidate(desc, "udp", Some(ports.mux(side))),
        "tcp" | "tcprange" => has_local_candidate(desc, "tcp", None),
        "tcp1" => has_local_candidate(desc, "tcp", Some(ports.tcp1(side))),
        _ => true,
    };
    if ok { Ok(()) } else { Err(format!("cfg {}: side {side} did not gather the candidate the variant is about", cfg_of(sc))) }
}

/// `mux2`: a second, complete connection ("C", peer "D"; both on the companion runtime, joined
/// directly) that is registered on the subject's mux port BEFORE the subject exists – so the
/// port's socket and demux task live on the companion runtime and the subject's own census is
/// what it is without a companion.
struct Companion {
    c: Side,
    d: Side,
    /// the shared mux socket: the UDP socket of this process that is bound to the mux port
    mux_port: u16,
    mux_socks: BTreeSet<u64>,
}
impl Companion {
    fn tasks(&self) -> usize {
        self.c.tasks() // C and D share runtime and counter
    }
    async fn up(sc: &Value, share: &str, ports: &Ports, rt_c: &Handle, rt_h: &Handle, clock: &Clock) -> Result<Companion, String> {
        let live = Arc::new(AtomicUsize::new(0));
        let mut c = new_side_on("C", rt_c.clone(), live.clone(), clock, rtc_config(sc, "C", share, ports), None).await?;
        let mut d = new_side_on("D", rt_c.clone(), live, clock, rtc_config(sc, "D", share, ports), None).await?;
        for s in [&mut c, &mut d] {
            let pc = s.pc.clone().ok_or("no handle")?;
            let dc = s
                .run(async move { pc.create_data_channel("c0", Some(dc_config(true))) })
                .await?
                .map_err(|e| format!("companion create_data_channel: {e}"))?;
            s.watch_dc(rt_h, clock, dc);
        }
        let offer = offer_with_candidates(&c).await?;
        let mux_port = ports.mux(share);
        let mux_socks = own_udp_sockets_on_port(mux_port);
        if !has_local_candidate(&offer, "udp", Some(mux_port)) || mux_socks.len() != 1 {
            return Err(format!("companion did not gather on the mux port ({} socket(s) of ours on it)", mux_socks.len()));
        }
        let answer = answer_with_candidates(&d, offer, true).await?;
        let pc = c.pc.clone().ok_or("no handle")?;
        c.run(async move { pc.set_remote_description(answer).await }).await?.map_err(|e| format!("companion set_remote(answer): {e}"))?;
        let mut cp = Companion { c, d, mux_port, mux_socks };
        if !cp.exchange(25_000).await?.0 {
            return Err("companion connection did not come up".into());
        }
        Ok(cp)
    }
    /// one message each way; returns (both arrived, ms it took)
    async fn exchange(&mut self, wait_ms: u64) -> Result<(bool, u64), String> {
        let t0 = Instant::now();
        let (c, d) = (&self.c, &self.d);
        if !wait_until(wait_ms, || c.dc_count(0, "Open") >= 1 && d.dc_count(0, "Open") >= 1).await {
            return Ok((false, t0.elapsed().as_millis() as u64));
        }
        let (nc, nd) = (c.dc_count(0, "Message"), d.dc_count(0, "Message"));
        let (idc, idd) = (c.dcs[0].dc.id, d.dcs[0].dc.id);
        let (pc, pd) = (c.pc.clone().ok_or("no handle")?, d.pc.clone().ok_or("no handle")?);
        // (the calls themselves are not judged here; a failed send shows as a missing message)
        let _ = c.run(async move { pc.send_data(idc, b"companion C").await.is_ok() }).await?;
        let _ = d.run(async move { pd.send_data(idd, b"companion D").await.is_ok() }).await?;
        let ok = wait_until(wait_ms, || c.dc_count(0, "Message") > nc && d.dc_count(0, "Message") > nd).await;
        Ok((ok, t0.elapsed().as_millis() as u64))
    }
}

async fn scenario(sc: &Value, rt_h: Handle, rt_a: Handle, rt_b: Handle, rt_c: Handle) -> Result<Value, String> {
    let clock = Clock(Instant::now());
    let mode = sc["mode"].as_str().unwrap_or("webrtc").to_string();
    let phase = sc["phase"].as_str().unwrap_or("created").to_string();
    let negotiated = sc["channel"].as_str() == Some("negotiated");
    let webrtc = mode == "webrtc";
    let cfgv = cfg_of(sc).to_string();
    let mediav = media_of(sc).to_string();
    // media shape: does the connection have a data channel (m=application), which kind of track
    // (if any) does it carry, and are frames being sent when the event lands
    let has_dc = webrtc && mediav != "audio";
    let audio = mediav != "dc";
    let media = phase == "media_flowing" || !webrtc || audio;
    let send_frames = phase == "media_flowing" || !webrtc;
    let vkey = variant_key(sc);
    let bound = bound_ms(sc);
    let flaps = flap_n(sc);
    let panics0 = panic_count();
    let mut seen: Vec<(String, String)> = vec![];
    let mut obs = serde_json::Map::new();
    let first_ev_side = sc["events"][0]["side"].as_str().unwrap_or("A").to_string();
    let ports = if cfgv == "plain" || cfgv == "latch" || cfgv == "rtcpsplit" { Ports::default() } else { Ports::pick()? };

    // the forwarder exists before the baseline so that its sockets are part of it
    let mut nw = if webrtc { Some(NatWire::new(&rt_h).await?) } else { None };
    // the baseline is taken before the first connection exists: process-wide registries (shared
    // mux port, shared TCP listener) are empty here
    let base = socket_inodes();

    // ---------------- mux2: the companion that shares the subject's mux port
    let share = if first_ev_side == "B" { "B" } else { "A" };
    let mut comp = if cfgv == "mux2" { Some(Companion::up(sc, share, &ports, &rt_c, &rt_h, &clock).await?) } else { None };
    let pre_a = socket_inodes();

    // ---------------- side A (offerer)
    let immediate = if phase == "new" { sc["events"][0]["ev"].as_str().map(|s| s.to_string()) } else { None };
    let mut a = new_side("A", rt_a.clone(), &clock, rtc_config(sc, "A", share, &ports), immediate).await?;
    let mut b: Option<Side> = None;
    if phase != "new" {
        let pc = a.pc.clone().ok_or("no handle")?;
        if has_dc {
            let dc = a
                .run(async move { pc.create_data_channel("c0", Some(dc_config(negotiated))) })
                .await?
                .map_err(|e| format!("create_data_channel: {e}"))?;
            a.watch_dc(&rt_h, &clock, dc);
        }
        if media {
            let pc = a.pc.clone().ok_or("no handle")?;
            let kind = if audio { rustrtc::media::frame::MediaKind::Audio } else { rustrtc::media::frame::MediaKind::Video };
            let (source, track, _fb) = rustrtc::media::track::sample_track(kind, 100);
            a.source = Some(Arc::new(source));
            let params = if audio { audio_params() } else { video_params() };
            a.run(async move { pc.add_track(track, params).map(|_| ()) })
                .await?
                .map_err(|e| format!("add_track: {e}"))?;
        }
    }
    let stop_media = Arc::new(AtomicBool::new(false));
    let mut media_task: Option<JoinHandle<()>> = None;
    let frames_sent = Arc::new(AtomicU64::new(0));

    // ---------------- drive to the phase
    let mut reached = phase == "created" || phase == "new";
    if phase == "gathering" {
        let pc = a.pc.clone().ok_or("no handle")?;
        let r = a.run(async move { pc.create_offer().await.map(|_| ()) }).await?;
        r.map_err(|e| format!("create_offer: {e}"))?;
        a.spawn_pending(&clock, "wait_for_gathering_complete", |pc| async move {
            pc.wait_for_gathering_complete().await;
            "done".to_string()
        });
        reached = true; // the event lands right behind the start of gathering
        // sockets are still being created when the event lands: attribute by exclusion
        a.solo_base = Some(pre_a.clone());
    } else if phase != "created" && phase != "new" {
        let offer = offer_with_candidates(&a).await?;
        a.socks = socket_inodes().difference(&pre_a).cloned().collect();
        check_cfg_effect(sc, "A", &ports, &offer)?;
        if phase == "offer_made" {
            reached = *a.sig_rx.borrow() == SignalingState::HaveLocalOffer;
        } else {
            // ---------------- side B (answerer)
            let mut bs = new_side("B", rt_b.clone(), &clock, rtc_config(sc, "B", share, &ports), None).await?;
            if has_dc && negotiated {
                let pc = bs.pc.clone().ok_or("no handle")?;
                let dc = bs
                    .run(async move { pc.create_data_channel("c0", Some(dc_config(true))) })
                    .await?
                    .map_err(|e| format!("create_data_channel(B): {e}"))?;
                bs.watch_dc(&rt_h, &clock, dc);
            }
            if media {
                let pc = bs.pc.clone().ok_or("no handle")?;
                bs.run(async move {
                    pc.add_transceiver(if audio { MediaKind::Audio } else { MediaKind::Video }, TransceiverDirection::RecvOnly);
                })
                .await?;
            }
            if let Some(nw) = &nw {
                match phase.as_str() {
                    "checking" => nw.hold(&[0]),
                    "dtls_handshaking" => nw.hold(&[1, 2]),
                    "sctp_connecting" => nw.hold(&[2]),
                    _ => nw.hold(&[]),
                }
            }
            let before_b = socket_inodes();
            let (offer_for_b, a_cand) = match &nw {
                Some(nw) => rewrite_sdp(&offer, nw.fb_addr)?,
                None => (offer.clone(), None),
            };
            bs.last_remote = Some(offer_for_b.clone());
            let answer = answer_with_candidates(&bs, offer_for_b, webrtc).await?;
            bs.had_remote = true;
            bs.socks = socket_inodes().difference(&before_b).cloned().collect();
            check_cfg_effect(sc, "B", &ports, &answer)?;
            let before_a2 = socket_inodes();
            let (answer_for_a, b_cand) = match &nw {
                Some(nw) => rewrite_sdp(&answer, nw.fa_addr)?,
                None => (answer.clone(), None),
            };
            if let Some(nw) = &nw {
                let mut g = nw.st.lock();
                if g.a_addr.is_none() {
                    g.a_addr = a_cand;
                }
                if g.b_addr.is_none() {
                    g.b_addr = b_cand;
                }
            }
            a.last_remote = Some(answer_for_a.clone());
            {
                let pc = a.pc.clone().ok_or("no handle")?;
                a.run(async move { pc.set_remote_description(answer_for_a).await })
                    .await?
                    .map_err(|e| format!("set_remote(answer): {e}"))?;
            }
            a.had_remote = true;
            let newa: BTreeSet<u64> = socket_inodes().difference(&before_a2).cloned().collect();
            a.socks.extend(newa);
            for s in [&mut a, &mut bs] {
                s.spawn_pending(&clock, "wait_for_connected", |pc| async move {
                    match pc.wait_for_connected().await {
                        Ok(()) => "Ok".to_string(),
                        Err(e) => format!("Err({e})"),
                    }
                });
            }
            if media && send_frames {
                let (src, stop, cnt) = (a.source.clone(), stop_media.clone(), frames_sent.clone());
                media_task = Some(rt_h.spawn(async move {
                    let mut seq: u32 = 0;
                    while !stop.load(Ordering::SeqCst) {
                        if let Some(s) = &src {
                            let sample = if audio {
                                MediaSample::Audio(AudioFrame {
                                    rtp_timestamp: seq.wrapping_mul(960),
                                    clock_rate: 48000,
                                    data: Bytes::from(vec![seq as u8; 80]),
                                    ..Default::default()
                                })
                            } else {
                                MediaSample::Video(VideoFrame {
                                    rtp_timestamp: seq.wrapping_mul(3000),
                                    data: Bytes::from(vec![seq as u8; 200]),
                                    is_last_packet: true,
                                    ..Default::default()
                                })
                            };
                            if s.send(sample).is_ok() {
                                cnt.fetch_add(1, Ordering::SeqCst);
                            }
                        }
                        seq = seq.wrapping_add(1);
                        tokio::time::sleep(Duration::from_millis(20)).await;
                    }
                }));
            }
            // ---------------- wait for the phase predicate
            let ice_up = |s: &Side| matches!(*s.ice_rx.borrow(), IceConnectionState::Connected | IceConnectionState::Completed);
            let connected = |s: &Side| s.state() == PeerConnectionState::Connected;
            reached = match phase.as_str() {
                "checking" => {
                    let nwr = nw.as_ref().ok_or("no natwire")?;
                    wait_until(25_000, || {
                        *a.ice_rx.borrow() == IceConnectionState::Checking
                            && *bs.ice_rx.borrow() == IceConnectionState::Checking
                            && nwr.seen(0, 0) >= 1
                            && nwr.seen(1, 0) >= 1
                    })
                    .await
                }
                "dtls_handshaking" => {
                    let nwr = nw.as_ref().ok_or("no natwire")?;
                    wait_until(25_000, || ice_up(&a) && ice_up(&bs) && nwr.seen(0, 1) + nwr.seen(1, 1) >= 1).await
                }
                "sctp_connecting" => {
                    let nwr = nw.as_ref().ok_or("no natwire")?;
                    wait_until(25_000, || connected(&a) && connected(&bs) && nwr.seen(0, 2) + nwr.seen(1, 2) >= 1).await
                }
                "connected" => wait_until(25_000, || connected(&a) && connected(&bs)).await,
                _ if !webrtc => {
                    // media_flowing in a direct mode
                    let ok = wait_until(25_000, || connected(&a) && connected(&bs)).await;
                    ok && wait_until(10_000, || frames_sent.load(Ordering::SeqCst) >= 10).await
                }
                _ if !has_dc => {
                    // no m=application: media_flowing / renegotiating on top of "connected"
                    let mut ok = wait_until(25_000, || connected(&a) && connected(&bs)).await;
                    if ok && phase == "media_flowing" {
                        let nwr = nw.as_ref().ok_or("no natwire")?;
                        ok = wait_until(15_000, || nwr.st.lock().passed[0][3] >= 5).await;
                    }
                    ok
                }
                _ => {
                    // channels_open and everything built on it
                    let mut ok = wait_until(25_000, || connected(&a) && connected(&bs)).await;
                    if ok && !negotiated {
                        // B learns the in-band channel through its pending recv()
                        let mut rx = bs.dc_rx.take().ok_or("no dc_rx")?;
                        match tokio::time::timeout(Duration::from_secs(20), rx.recv()).await {
                            Ok(Some(dc)) => bs.watch_dc(&rt_h, &clock, dc),
                            _ => ok = false,
                        }
                        bs.dc_rx = Some(rx);
                    }
                    ok = ok && wait_until(20_000, || a.dc_count(0, "Open") >= 1 && bs.dc_count(0, "Open") >= 1).await;
                    if ok {
                        let (ida, idb) = (a.dcs[0].dc.id, bs.dcs[0].dc.id);
                        let (pa, pb) = (a.pc.clone().ok_or("no handle")?, bs.pc.clone().ok_or("no handle")?);
                        let ra = a.run(async move { pa.send_data(ida, b"hello from A").await.is_ok() }).await?;
                        let rb = bs.run(async move { pb.send_data(idb, b"hello from B").await.is_ok() }).await?;
                        ok = ra && rb && wait_until(10_000, || a.dc_count(0, "Message") >= 1 && bs.dc_count(0, "Message") >= 1).await;
                    }
                    if ok && phase == "media_flowing" {
                        let nwr = nw.as_ref().ok_or("no natwire")?;
                        ok = wait_until(15_000, || nwr.st.lock().passed[0][3] >= 5).await;
                    }
                    ok
                }
            };
            b = Some(bs);
        }
    }
    if !reached {
        let wire = nw.as_ref().map(|n| n.counters()).unwrap_or(Value::Null);
        let st = json!({"a": format!("{:?}/{:?}/{:?}", a.state(), *a.ice_rx.borrow(), a.reason()),
            "b": b.as_ref().map(|s| format!("{:?}/{:?}/{:?}", s.state(), *s.ice_rx.borrow(), s.reason()))});
        return Ok(json!({"status": "harness_error", "reason": format!("phase {phase} not reached: {st} wire={wire}")}));
    }

    // ---------------- phase-specific extras on top of channels_open
    if phase == "renegotiating" {
        // the subject of the first event is in have-local-offer when the event lands
        let s = if first_ev_side == "B" { b.as_mut().ok_or("no B")? } else { &mut a };
        let pc = s.pc.clone().ok_or("no handle")?;
        let r = s
            .run(async move {
                let o = pc.create_offer().await.map_err(|e| e.to_string())?;
                pc.set_local_description(o).map_err(|e| e.to_string())
            })
            .await?;
        r.map_err(|e| format!("renegotiation offer: {e}"))?;
        if *s.sig_rx.borrow() != SignalingState::HaveLocalOffer {
            return Ok(json!({"status": "harness_error", "reason": "renegotiating: not in have-local-offer"}));
        }
    }
    if phase == "sender_blocked" {
        let nwr = nw.as_ref().ok_or("no natwire")?;
        // A's DATA never arrives, so no SACK ever opens A's window; B→A stays open so that
        // whatever B emits (alerts, ABORT) still reaches A
        nwr.hold_dir(0, &[2]);
        let id = a.dcs[0].dc.id;
        let progress = Arc::new(AtomicU64::new(0));
        let p2 = progress.clone();
        a.spawn_pending(&clock, "send_data(blocked)", move |pc| async move {
            let chunk = vec![0x5au8; 4096];
            loop {
                match pc.send_data(id, &chunk).await {
                    Ok(()) => {
                        p2.fetch_add(1, Ordering::SeqCst);
                    }
                    Err(e) => return format!("Err({e})"),
                }
            }
        });
        // blocked = no call completed for 700 ms although the task is still running
        let mut last = (progress.load(Ordering::SeqCst), Instant::now());
        let ok = wait_until(20_000, || {
            let p = progress.load(Ordering::SeqCst);
            if p != last.0 {
                last = (p, Instant::now());
            }
            p >= 2 && last.1.elapsed() > Duration::from_millis(700)
        })
        .await;
        let still_running = a.pending.last().map(|p| p.done.lock().is_none()).unwrap_or(false);
        if !ok || !still_running {
            return Ok(json!({"status": "harness_error", "reason": format!("sender never blocked (sent {} chunks)", progress.load(Ordering::SeqCst))}));
        }
        obs.insert("blocked_sender_chunks_before_block".into(), json!(progress.load(Ordering::SeqCst)));
    }

    // census at the phase (evidence that each phase really owns different resources)
    let now = socket_inodes();
    let census_phase = json!({
        "tasks_a": a.tasks(), "socks_a": a.socks_open(&now),
        "tasks_b": b.as_ref().map(|s| s.tasks()), "socks_b": b.as_ref().map(|s| s.socks_open(&now)),
        "ice_a": format!("{:?}", *a.ice_rx.borrow()), "state_a": format!("{:?}", a.state()),
        "ice_b": b.as_ref().map(|s| format!("{:?}", *s.ice_rx.borrow())), "state_b": b.as_ref().map(|s| format!("{:?}", s.state())),
    });
    seen.push(("census_at_phase".into(), format!("{mode}/{phase}: A={}t/{}s B={}t/{}s", a.tasks(), a.socks_open(&now),
        b.as_ref().map(|s| s.tasks() as i64).unwrap_or(-1), b.as_ref().map(|s| s.socks_open(&now) as i64).unwrap_or(-1))));
    if cfgv == "rtcpsplit" && phase != "created" && a.socks_open(&now) < 2 {
        return Ok(json!({"status": "harness_error", "reason": format!("cfg rtcpsplit: side A holds {} socket(s), no separate RTCP socket", a.socks_open(&now))}));
    }
    if cfgv != "plain" || mediav != "dc" {
        seen.push(("census_at_phase_variant".into(), format!("{mode}/{phase}{}: A={}t/{}s B={}t/{}s C={}t", variant_label(sc), a.tasks(), a.socks_open(&now),
            b.as_ref().map(|s| s.tasks() as i64).unwrap_or(-1), b.as_ref().map(|s| s.socks_open(&now) as i64).unwrap_or(-1),
            comp.as_ref().map(|c| c.tasks() as i64).unwrap_or(-1))));
    }
    // which channels had reported Open before the event
    let open_a: Vec<bool> = (0..a.dcs.len()).map(|i| a.dc_count(i, "Open") > 0).collect();
    let open_b: Vec<bool> = b.as_ref().map(|s| (0..s.dcs.len()).map(|i| s.dc_count(i, "Open") > 0).collect()).unwrap_or_default();

    // ---------------- events
    let events = sc["events"].as_array().cloned().unwrap_or_default();
    let gap = sc["gap_ms"].as_u64().unwrap_or(100);
    let mut applied = vec![];
    let mut flap_final_at: Option<u64> = None;
    let mut reason_at_flap_end: Vec<(&'static str, bool)> = vec![];
    for (i, e) in events.iter().enumerate() {
        if i > 0 {
            tokio::time::sleep(Duration::from_millis(gap)).await;
        }
        let ev = e["ev"].as_str().unwrap_or("");
        let side = e["side"].as_str().unwrap_or("N");
        let t = clock.ms();
        let (subj, other): (Option<&mut Side>, Option<&mut Side>) = match side {
            "A" => (Some(&mut a), b.as_mut()),
            "B" => (b.as_mut(), Some(&mut a)),
            _ => (None, None),
        };
        match ev {
            "close" | "drop" | "ice_stop" if i == 0 && phase == "new" => {
                // already applied inside new_side(); only the bookkeeping is left
                let s = subj.ok_or("event needs a side")?;
                s.local = Some(match ev {
                    "close" => "close",
                    "drop" => "drop",
                    _ => "ice_stop",
                });
            }
            "close" | "drop" | "ice_stop" => {
                let s = subj.ok_or("event needs a side")?;
                match ev {
                    "close" => {
                        let pc = s.pc.clone().ok_or("close: handle already gone")?;
                        s.run(async move { pc.close() }).await?;
                        s.local = Some(if s.local == Some("close") { "close" } else { s.local.unwrap_or("close") });
                        if s.local == Some("ice_stop") {
                            s.local = Some("close");
                        }
                    }
                    "drop" => {
                        // an application that drops its last handle has no call in flight
                        s.abort_pending().await;
                        let pc = s.pc.take().ok_or("drop: handle already gone")?;
                        s.run(async move { drop(pc) }).await?;
                        s.local = Some("drop");
                    }
                    _ => {
                        let pc = s.pc.clone().ok_or("ice_stop: handle already gone")?;
                        s.run(async move { pc.ice_transport().stop() }).await?;
                        if s.local.is_none() {
                            s.local = Some("ice_stop");
                        }
                    }
                }
                if let Some(o) = other {
                    if o.had_remote && o.silenced.is_none() {
                        o.silenced = Some(format!("peer_{ev}"));
                    }
                }
            }
            "abort" | "shutdown" => {
                let s = subj.ok_or("event needs a side")?;
                let pc = s.pc.clone().ok_or("abort: handle gone")?;
                let (ct, body) = if ev == "abort" { (6u8, Bytes::new()) } else { (7u8, Bytes::from_static(&[0, 0, 0, 0])) };
                let sent = s
                    .run(async move {
                        match pc.verif_sctp() {
                            Some(t) => t.verif_send_chunk(ct, 0, body).await.is_ok(),
                            None => false,
                        }
                    })
                    .await?;
                if !sent {
                    return Ok(json!({"status": "harness_error", "reason": format!("could not send SCTP {ev}")}));
                }
                if let Some(o) = other {
                    if o.silenced.is_none() {
                        o.silenced = Some(format!("peer_{ev}"));
                    }
                }
            }
            "socket_loss" | "blackhole" => {
                let n = nw.as_mut().ok_or("no natwire")?;
                if ev == "socket_loss" {
                    n.shutdown().await;
                } else {
                    n.st.lock().blackhole = true;
                }
                if a.had_remote && a.silenced.is_none() {
                    a.silenced = Some(ev.to_string());
                }
                if let Some(bs) = b.as_mut() {
                    if bs.silenced.is_none() {
                        bs.silenced = Some(ev.to_string());
                    }
                }
            }
            f if f.starts_with("flap") => {
                // N times: outage until BOTH sides report Disconnected, recovery until both
                // report Connected again; then the final, permanent outage.  Phases are driven
                // by the observed states only.
                let n: u64 = f[4..].parse().map_err(|_| format!("bad flap event {f}"))?;
                let nwr = nw.as_ref().ok_or("no natwire")?;
                let bs = b.as_ref().ok_or("flap needs a peer")?;
                let both = |st: PeerConnectionState| a.state() == st && bs.state() == st;
                for k in 0..n {
                    nwr.st.lock().blackhole = true;
                    let down = wait_until(FLAP_THRESHOLD_MS + 2 * ICE_TICK_MS + 8000, || both(PeerConnectionState::Disconnected)).await;
                    nwr.st.lock().blackhole = false;
                    let up = down && wait_until(10_000, || both(PeerConnectionState::Connected)).await;
                    if !up {
                        return Ok(json!({"status": "harness_error", "reason": format!(
                            "flap cycle {k}: {} not observed (A={:?}/{:?} B={:?}/{:?})", if down { "recovery" } else { "outage" },
                            a.state(), a.reason(), bs.state(), bs.reason())}));
                    }
                }
                nwr.st.lock().blackhole = true;
                flap_final_at = Some(clock.ms());
                reason_at_flap_end = std::iter::once(&a).chain(b.iter()).map(|s| (s.name, s.reason().is_some())).collect();
                if a.silenced.is_none() {
                    a.silenced = Some("flap".to_string());
                }
                if let Some(bs) = b.as_mut() {
                    if bs.silenced.is_none() {
                        bs.silenced = Some("flap".to_string());
                    }
                }
            }
            other => return Err(format!("unknown event {other}")),
        }
        applied.push(json!({"ev": ev, "side": side, "t_ms": t}));
        seen.push(("event_applied".into(), format!("{ev}@{phase}")));
    }
    let t_ev = clock.ms();

    // ---------------- stage 1: watch until every required clause is met or 3×bound passed
    let mut clauses: Vec<Clause> = vec![];
    {
        let mut sides: Vec<(&Side, &Vec<bool>)> = vec![(&a, &open_a)];
        if let Some(bs) = b.as_ref() {
            sides.push((bs, &open_b));
        }
        for (s, opened) in sides {
            // in Rtp/Srtp mode there is no ICE/DTLS/SCTP that could tell the peer anything
            let judged = s.local.is_some() || (webrtc && s.silenced.is_some());
            if !judged {
                continue;
            }
            let mk = |tag: &str| Clause { side: s.name, tag: tag.to_string(), met_at: None, required: true, detail: Value::Null };
            clauses.push(mk("no_terminal_state"));
            clauses.push(mk("no_reason"));
            for (i, was_open) in opened.iter().enumerate() {
                if *was_open {
                    clauses.push(mk(&format!("no_channel_close:{i}")));
                }
            }
            if matches!(s.local, Some("close") | Some("drop")) {
                clauses.push(mk("leak:tasks"));
                clauses.push(mk("leak:sockets"));
            }
            for p in &s.pending {
                clauses.push(mk(&format!("hang:{}", p.name)));
            }
        }
    }
    let canary_max = Arc::new(AtomicU64::new(0));
    let canary = {
        let m = canary_max.clone();
        rt_h.spawn(async move {
            let mut last = Instant::now();
            loop {
                tokio::time::sleep(Duration::from_millis(10)).await;
                let d = last.elapsed().as_millis() as u64;
                m.fetch_max(d, Ordering::SeqCst);
                last = Instant::now();
            }
        })
    };
    let eval = |clauses: &mut Vec<Clause>, a: &Side, b: &Option<Side>, t: u64| -> bool {
        let now = socket_inodes();
        let mut all = true;
        for c in clauses.iter_mut() {
            if c.met_at.is_some() {
                continue;
            }
            let s: &Side = if c.side == "A" { a } else { b.as_ref().unwrap_or(a) };
            let met = if c.tag == "no_terminal_state" {
                s.terminal()
            } else if c.tag == "no_reason" {
                s.reason().is_some()
            } else if let Some(i) = c.tag.strip_prefix("no_channel_close:") {
                s.dc_count(i.parse().unwrap_or(0), "Close") >= 1
            } else if c.tag == "leak:tasks" {
                c.detail = json!({"tasks_alive": s.tasks()});
                s.tasks() == 0
            } else if c.tag == "leak:sockets" {
                c.detail = json!({"sockets_open": s.socks_open(&now)});
                s.socks_open(&now) == 0
            } else if let Some(n) = c.tag.strip_prefix("hang:") {
                // Which pending calls must return?  On a side that closed itself: all of them.
                // On a side that was only told by the network: `recv` / `wait_for_connected`
                // once the state is final in rustrtc's own terms (Closed | Failed; Disconnected
                // is recoverable there, so waiting on is legal); a sender blocked on the
                // buffered-amount gate as soon as the connection reported any end (terminal
                // state or a disconnect reason – its SCTP association is gone then).
                let fin = matches!(s.state(), PeerConnectionState::Closed | PeerConnectionState::Failed);
                let relevant = if s.local == Some("close") {
                    true
                } else if n.starts_with("send_data") {
                    fin || s.terminal() || s.reason().is_some()
                } else {
                    fin
                };
                c.required = relevant;
                let done = s.pending.iter().find(|p| p.name == n).map(|p| p.done.lock().is_some()).unwrap_or(true);
                if !relevant && !done {
                    continue; // nothing demanded (yet); re-evaluated on the next poll
                }
                if done {
                    c.required = true;
                }
                done
            } else {
                true
            };
            if met {
                c.met_at = Some(t);
            } else {
                all = false;
            }
        }
        all
    };
    loop {
        let t = clock.ms().saturating_sub(t_ev);
        if eval(&mut clauses, &a, &b, t) || t > 3 * bound {
            break;
        }
        tokio::time::sleep(Duration::from_millis(50)).await;
    }
    let now = socket_inodes();
    let census_stage1 = json!({
        "t_ms": clock.ms().saturating_sub(t_ev),
        "tasks_a": a.tasks(), "socks_a": a.socks_open(&now), "state_a": format!("{:?}", a.state()), "reason_a": format!("{:?}", a.reason()),
        "tasks_b": b.as_ref().map(|s| s.tasks()), "socks_b": b.as_ref().map(|s| s.socks_open(&now)),
        "state_b": b.as_ref().map(|s| format!("{:?}", s.state())), "reason_b": b.as_ref().map(|s| format!("{:?}", s.reason())),
    });
    for s in std::iter::once(&a).chain(b.iter()) {
        if s.local.is_some() || s.silenced.is_some() {
            seen.push(("terminal_report".into(), format!("{}:{:?}/{:?}", s.local.map(|x| x.to_string()).or(s.silenced.clone()).unwrap_or_default(), s.state(), s.reason())));
        }
        // sides that were only told by the network: are their resources still held although
        // they reported a terminal state?  (observation only – the application still owns
        // the handle, so nothing is demanded before it lets go)
        if s.local.is_none() && s.silenced.is_some() && s.terminal() && (s.tasks() > 0 || s.socks_open(&now) > 0) {
            obs.insert("observer_holds_resources_until_app_close".into(), json!(1));
        }
    }

    // ---------------- mux2: the port is still the companion's.  The subject's registration is
    // gone (or leaked – its own clauses say which); a port released by the FIRST of two
    // connections stops serving within one poll of the demux loop's shutdown flag, so that
    // long is waited before the companion is probed (a pause, not a verdict), then one message
    // each way must still get through (1×/3× rule on the scenario's bound) and the shared
    // socket must still be open.
    let mut comp_probe = Value::Null;
    let mut comp_problem: Option<(String, String)> = None; // (key tail, what)
    if let Some(cp) = comp.as_mut() {
        tokio::time::sleep(Duration::from_millis(2 * SHARED_UDP_SHUTDOWN_POLL_MS)).await;
        let kept = own_udp_sockets_on_port(cp.mux_port) == cp.mux_socks;
        let (ok, ms) = cp.exchange(3 * bound).await?;
        comp_probe = json!({"mux_socket_still_open": kept, "message_each_way": ok, "took_ms": ms, "tasks_c": cp.tasks()});
        obs.insert("companion_probed_after_first_close".into(), json!(1));
        if !kept {
            comp_problem = Some(("released=shared_port".into(), format!("the shared mux socket was closed although a second connection is still registered on it: {comp_probe}")));
        } else if !ok {
            comp_problem = Some(("missing=companion_message".into(), format!("after the first of two connections on one mux port ended, the second no longer gets a data-channel message through ({} ms waited): {comp_probe}", 3 * bound)));
        }
        // (met, but later than the bound: inconclusive – decided with the other verdicts)
    }

    // flap scenarios: was the history really "N recoveries, every outage inside ONE grace window,
    // nothing reported yet when the final outage began"?  (decided on the observed state log)
    let mut flap_problem: Option<String> = None;
    if let Some(t_fin) = flap_final_at {
        let grace = flap_grace_ms(flaps);
        // (a side that a later event of the scenario closed or dropped does not live to see the
        // final outage; the history is judged on the sides that were only cut off)
        for s in std::iter::once(&a).chain(b.iter()).filter(|s| s.local.is_none()) {
            let d = s.entered(PeerConnectionState::Disconnected);
            let c = s.entered(PeerConnectionState::Connected);
            let had_reason = reason_at_flap_end.iter().any(|r| r.0 == s.name && r.1);
            let final_outage: Vec<u64> = d.iter().cloned().filter(|t| *t >= t_fin).collect();
            let ok = d.len() as u64 >= flaps + 1
                && !final_outage.is_empty()
                && !had_reason
                && final_outage[0].saturating_sub(d[0]) < grace;
            seen.push(("flap_history".into(), format!("outages={},recoveries={},inside_grace={}", d.len().min(5), c.len().saturating_sub(1).min(5), ok)));
            if ok {
                obs.insert("flap_outages_inside_grace".into(), json!(obs.get("flap_outages_inside_grace").and_then(|v| v.as_u64()).unwrap_or(0) + d.len() as u64));
            } else if flap_problem.is_none() {
                flap_problem = Some(format!(
                    "side {}: outages at {:?} ms, recoveries at {:?} ms, final outage began {} ms, grace {} ms, reason already set at the final outage: {}",
                    s.name, d, c, t_fin, grace, had_reason
                ));
            }
        }
    }

    // ---------------- stage 1b: battery of API calls on finished handles + second close()
    // Side closed by the application: the full battery.  Side whose connection ended by itself
    // and for good in rustrtc's own terms (Closed | Failed – e.g. ICE stopped / failed, SCTP
    // gone) while the application still holds the handle: the calls that wait for the
    // connection's fate.  Every such call is made AGAIN after it has given its terminal answer
    // (the `while let Some(ev) = pc.recv().await` pump that calls once more; a second
    // wait_for_connected): "subsequent API calls return".
    let t_b0 = clock.ms();
    for s in std::iter::once(&mut a).chain(b.iter_mut()) {
        if s.pc.is_none() {
            continue;
        }
        let closed_by_app = s.local == Some("close");
        let fin = matches!(s.state(), PeerConnectionState::Closed | PeerConnectionState::Failed);
        if !closed_by_app && !fin {
            continue;
        }
        let first_new = s.pending.len();
        if closed_by_app {
            let id = s.dcs.first().map(|d| d.dc.id).unwrap_or(0);
            let remote = s.last_remote.clone();
            s.spawn_pending(&clock, "after:send_data", move |pc| async move { format!("{:?}", pc.send_data(id, b"x").await.is_ok()) });
            s.spawn_pending(&clock, "after:create_offer", |pc| async move { format!("{:?}", pc.create_offer().await.is_ok()) });
            if let Some(r) = remote {
                s.spawn_pending(&clock, "after:set_remote_description", move |pc| async move {
                    format!("{:?}", pc.set_remote_description(r).await.is_ok())
                });
            }
            s.spawn_pending(&clock, "after:get_stats", |pc| async move { format!("{:?}", pc.get_stats().await.is_ok()) });
        }
        s.spawn_pending(&clock, "after:wait_for_connected", |pc| async move {
            let r1 = pc.wait_for_connected().await.is_ok();
            let r2 = pc.wait_for_connected().await.is_ok();
            format!("{r1:?},{r2:?}")
        });
        s.spawn_pending(&clock, "after:wait_for_gathering_complete", |pc| async move {
            pc.wait_for_gathering_complete().await;
            pc.wait_for_gathering_complete().await;
            "done,done".to_string()
        });
        // recv(): drain whatever is queued (bounded), then call once more after the first None.
        // Only when the application's own pump has ended – recv() serialises its callers, so a
        // pump that is still parked (reported as hang:recv where that is a defect) would block
        // this call for a reason that is not its own.
        let pump_done = s.pending.iter().find(|p| p.name == "recv").map(|p| p.done.lock().is_some()).unwrap_or(false);
        if pump_done {
            s.spawn_pending(&clock, "after:recv", |pc| async move {
                let (mut calls, mut nones) = (0u32, 0u32);
                while calls < 64 && nones < 2 {
                    calls += 1;
                    if pc.recv().await.is_none() {
                        nones += 1;
                    }
                }
                format!("calls={calls},nones={nones}")
            });
            obs.insert("recv_called_again_after_end".into(), json!(obs.get("recv_called_again_after_end").and_then(|v| v.as_u64()).unwrap_or(0) + 1));
        }
        for p in s.pending[first_new..].iter() {
            clauses.push(Clause { side: s.name, tag: format!("hang:{}", p.name), met_at: None, required: true, detail: Value::Null });
        }
        // a data channel whose event stream has ended is asked again by its collector
        for (i, d) in s.dcs.iter().enumerate() {
            if d.log.lock().iter().any(|e| e.1 == "EOS") {
                clauses.push(Clause { side: s.name, tag: format!("hang:after:dc_recv:{i}"), met_at: None, required: true, detail: Value::Null });
            }
        }
        if closed_by_app {
            // closing twice is harmless: state stays terminal, nothing panics (checked at the end)
            let pc = s.pc.clone().ok_or("no handle")?;
            s.run(async move { pc.close() }).await?;
            obs.insert("double_close".into(), json!(obs.get("double_close").and_then(|v| v.as_u64()).unwrap_or(0) + 1));
        } else {
            obs.insert("battery_on_self_ended_side".into(), json!(obs.get("battery_on_self_ended_side").and_then(|v| v.as_u64()).unwrap_or(0) + 1));
        }
    }
    loop {
        let t = clock.ms().saturating_sub(t_b0);
        let mut all = true;
        for c in clauses.iter_mut().filter(|c| c.tag.starts_with("hang:after:")) {
            if c.met_at.is_some() {
                continue;
            }
            let s: &Side = if c.side == "A" { &a } else { b.as_ref().unwrap_or(&a) };
            let n = c.tag.trim_start_matches("hang:");
            let done = if let Some(i) = n.strip_prefix("after:dc_recv:") {
                let i: usize = i.parse().unwrap_or(0);
                s.dcs.get(i).map(|d| d.log.lock().iter().any(|e| e.1.starts_with("EOS2"))).unwrap_or(true)
            } else {
                s.pending.iter().find(|p| p.name == n).map(|p| p.done.lock().is_some()).unwrap_or(true)
            };
            if done {
                c.met_at = Some(t);
            } else {
                all = false;
            }
        }
        if all || t > 3 * bound {
            break;
        }
        tokio::time::sleep(Duration::from_millis(50)).await;
    }
    // what the repeated calls answered (witness / evidence)
    for s in std::iter::once(&a).chain(b.iter()) {
        for p in s.pending.iter().filter(|p| p.name == "after:recv" || p.name == "after:wait_for_connected") {
            if let Some((_, r)) = p.done.lock().clone() {
                seen.push(("repeat_call_answer".into(), format!("{}:{}", p.name, r)));
            }
        }
    }
    let mut still_terminal = true;
    for s in std::iter::once(&a).chain(b.iter()) {
        if s.local == Some("close") && !(s.terminal() && s.reason().is_some()) {
            still_terminal = false;
        }
    }

    // ---------------- stage 2: the harness lets go of everything; global census
    stop_media.store(true, Ordering::SeqCst);
    if let Some(t) = media_task.take() {
        let _ = tokio::time::timeout(Duration::from_secs(2), t).await;
    }
    for s in std::iter::once(&mut a).chain(b.iter_mut()) {
        if let Some(pc) = s.pc.clone() {
            let _ = s.run(async move { pc.close() }).await;
        }
        s.abort_pending().await;
        if let Some(pc) = s.pc.take() {
            let _ = s.run(async move { drop(pc) }).await;
        }
        s.source = None;
        s.dc_rx = None;
    }
    // … the companion last: its close takes the shared port's reference count to zero
    if let Some(cp) = comp.as_mut() {
        for s in [&mut cp.c, &mut cp.d] {
            if let Some(pc) = s.pc.clone() {
                let _ = s.run(async move { pc.close() }).await;
            }
            s.abort_pending().await;
            if let Some(pc) = s.pc.take() {
                let _ = s.run(async move { drop(pc) }).await;
            }
            s.dc_rx = None;
        }
    }
    if let Some(n) = nw.as_mut() {
        n.shutdown().await;
    }
    let wire = nw.as_ref().map(|n| n.counters()).unwrap_or(Value::Null);
    drop(nw);
    let t_f0 = clock.ms();
    // (a leak that stage 1 already established is reported there and the final census is only
    // looked at for the witness: one bound is enough for that)
    let leak_known = clauses.iter().any(|c| c.tag.starts_with("leak:") && c.required && c.met_at.is_none());
    let final_limit = if leak_known { bound } else { 3 * bound };
    let mut final_met: Option<u64> = None;
    let mut final_detail = Value::Null;
    loop {
        let t = clock.ms().saturating_sub(t_f0);
        let extra: Vec<u64> = socket_inodes().difference(&base).cloned().collect();
        let (ta, tb) = (a.tasks(), b.as_ref().map(|s| s.tasks()).unwrap_or(0));
        let tc = comp.as_ref().map(|c| c.tasks()).unwrap_or(0);
        final_detail = json!({"tasks_a": ta, "tasks_b": tb, "tasks_companion": tc, "extra_sockets": extra.len(), "t_ms": t});
        if ta == 0 && tb == 0 && tc == 0 && extra.is_empty() {
            final_met = Some(t);
            break;
        }
        if t > final_limit {
            break;
        }
        tokio::time::sleep(Duration::from_millis(50)).await;
    }
    canary.abort();
    let canary_lag = canary_max.load(Ordering::SeqCst);

    // channel event logs (Close exactly once) – read after everything settled
    let mut dup_close: Vec<(&'static str, usize, usize)> = vec![];
    let mut chan_logs = serde_json::Map::new();
    for s in std::iter::once(&a).chain(b.iter()) {
        for (i, d) in s.dcs.iter().enumerate() {
            let n = s.dc_count(i, "Close");
            if n > 1 {
                dup_close.push((s.name, i, n));
            }
            let l: Vec<String> = d.log.lock().iter().map(|e| format!("{}@{}", e.1, e.0)).collect();
            chan_logs.insert(format!("{}{}", s.name, i), json!(l));
            d.collector.abort();
        }
    }
    if let Some(cp) = comp.as_mut() {
        for s in [&mut cp.c, &mut cp.d] {
            for d in s.dcs.iter() {
                d.collector.abort();
            }
            if let Some(h) = s.state_logger.take() {
                h.abort();
            }
        }
    }
    let mut state_logs = serde_json::Map::new();
    for s in std::iter::once(&mut a).chain(b.iter_mut()) {
        if let Some(h) = s.state_logger.take() {
            h.abort();
        }
        let l: Vec<String> = s.state_log.lock().iter().map(|e| format!("{:?}@{}", e.1, e.0)).collect();
        state_logs.insert(s.name.to_string(), json!(l));
    }
    let panics: Vec<String> = if panic_count() > panics0 {
        take_panics().iter().map(|p| format!("{} ({})", norm_location(&p.location), p.message)).collect()
    } else {
        vec![]
    };

    // ---------------- verdicts
    let evl = event_label(sc);
    let mut findings: Vec<Value> = vec![];
    let mut inconclusive: Vec<String> = vec![];
    let healthy = canary_lag < 1000; // the harness runtime itself was never starved for a second
    let mut stage1_leak = false;
    // A peer can only notice a drop that took effect.  If the dropped side is still fully
    // alive (its own leak clauses unmet) nothing failed from the peer's point of view, so the
    // peer is not judged – the defect is reported once, on the dropped side.
    let zombie = |side: &str| {
        clauses.iter().any(|c| c.side == side && c.tag == "leak:tasks" && c.met_at.is_none())
            && clauses.iter().any(|c| c.side == side && c.tag == "leak:sockets" && c.met_at.is_none())
    };
    let (zombie_a, zombie_b) = (zombie("A"), zombie("B"));
    for s in std::iter::once(&a).chain(b.iter()) {
        let other_is_zombie = if s.name == "A" { zombie_b } else { zombie_a };
        if s.local.is_none() && other_is_zombie && s.silenced.as_deref() == Some("peer_drop") {
            obs.insert("peer_not_judged_subject_still_alive".into(), json!(1));
            continue;
        }
        let (state1, reason1) = if s.name == "A" {
            (census_stage1["state_a"].as_str().unwrap_or("?").to_string(), census_stage1["reason_a"].as_str().unwrap_or("?").to_string())
        } else {
            (census_stage1["state_b"].as_str().unwrap_or("?").to_string(), census_stage1["reason_b"].as_str().unwrap_or("?").to_string())
        };
        let mut missing: BTreeSet<String> = BTreeSet::new();
        let mut leak: BTreeSet<String> = BTreeSet::new();
        let mut hang: BTreeSet<String> = BTreeSet::new();
        let mut late: Vec<String> = vec![];
        for c in clauses.iter().filter(|c| c.side == s.name && c.required) {
            match c.met_at {
                Some(t) if t <= bound => {}
                Some(t) => late.push(format!("{}:{} met only after {t} ms (bound {bound})", s.name, c.tag)),
                None => {
                    if let Some(x) = c.tag.strip_prefix("hang:") {
                        hang.insert(x.to_string());
                    } else if let Some(x) = c.tag.strip_prefix("leak:") {
                        leak.insert(x.to_string());
                    } else {
                        // the channel index stays in the witness, not in the key
                        let t = c.tag.split(':').next().unwrap_or("").trim_start_matches("no_").to_string();
                        missing.insert(t);
                    }
                }
            }
        }
        if !leak.is_empty() {
            stage1_leak = true;
        }
        let dup = dup_close.iter().any(|d| d.0 == s.name);
        let reverted = s.local == Some("close") && !still_terminal;
        inconclusive.extend(late);
        if missing.is_empty() && leak.is_empty() && hang.is_empty() && !dup && !reverted {
            continue;
        }
        if !healthy {
            inconclusive.push(format!("clauses unmet but harness canary lagged {canary_lag} ms"));
            continue;
        }
        let single = events.len() == 1;
        let (observer, ev) = match (&s.local, &s.silenced) {
            (Some(_), _) if single => ("local", events[0]["ev"].as_str().unwrap_or("?").to_string()),
            (Some(_), _) => ("local", evl.clone()),
            (None, Some(x)) if single => ("peer", x.clone()),
            (None, Some(_)) => ("peer", evl.clone()),
            // neither closed nor cut off: the side that injected the SCTP ABORT / SHUTDOWN and
            // whose own connection ended for good in consequence (only its repeated calls are judged)
            _ => ("injector", evl.clone()),
        };
        let role = if s.name == "A" { "offerer" } else { "answerer" };
        let ctx = format!("event={ev},phase={phase},mode={mode}{vkey},observer={observer}");
        let tail = format!(
            "side {} ({role}) after {evl}; still so {} ms after the event (bound {} ms); state={state1} reason={reason1} tasks={} sockets={}",
            s.name, 3 * bound, bound,
            census_stage1[if s.name == "A" { "tasks_a" } else { "tasks_b" }],
            census_stage1[if s.name == "A" { "socks_a" } else { "socks_b" }]
        );
        let detail = json!({"side": s.name, "role": role});
        let join = |x: &BTreeSet<String>| x.iter().cloned().collect::<Vec<_>>().join("+");
        if !missing.is_empty() {
            findings.push(json!({"key": format!("{ctx},missing={}", join(&missing)),
                "what": format!("never reported: {}; {tail}", join(&missing)), "detail": detail}));
        }
        if dup {
            findings.push(json!({"key": format!("{ctx},extra=channel_close"),
                "what": format!("a data channel saw Close more than once: {:?}; {tail}", dup_close), "detail": detail}));
        }
        if !leak.is_empty() {
            findings.push(json!({"key": format!("{ctx},leak={}", join(&leak)),
                "what": format!("not released: {}; {tail}", join(&leak)), "detail": detail}));
        }
        for h in &hang {
            // `recv()` never returning is independent of phase and event: one key per final state
            // (likewise a recv() CALLED after the end: one key per state it was called in)
            let key = if h == "recv" {
                format!("api=recv,pending_at={state1},hang")
            } else if h == "after:recv" {
                format!("api=recv,called_at={state1},hang=after:recv")
            } else {
                format!("{ctx},hang={h}")
            };
            findings.push(json!({"key": key, "what": format!("API call {h} never returned; {tail}"), "detail": detail}));
        }
        if reverted {
            findings.push(json!({"key": format!("{ctx},second_close_changed_state"),
                "what": format!("after a second close() the state/reason are no longer terminal; {tail}"), "detail": detail}));
        }
    }
    match final_met {
        Some(t) if t <= bound => {}
        Some(t) => inconclusive.push(format!("final census reached baseline only after {t} ms (bound {bound})")),
        None => {
            if !stage1_leak {
                if healthy {
                    let evs = if events.len() == 1 { events[0]["ev"].as_str().unwrap_or("?").to_string() } else { evl.clone() };
                    let mut tags = vec![];
                    if final_detail["tasks_a"].as_u64().unwrap_or(0) + final_detail["tasks_b"].as_u64().unwrap_or(0) + final_detail["tasks_companion"].as_u64().unwrap_or(0) > 0 {
                        tags.push("tasks");
                    }
                    if final_detail["extra_sockets"].as_u64().unwrap_or(0) > 0 {
                        tags.push("sockets");
                    }
                    let fail = tags.join("+");
                    findings.push(json!({
                        "key": format!("event={evs},phase={phase},mode={mode}{vkey},observer=final,leak={fail}"),
                        "what": format!("after {evl} and after the harness closed and dropped every handle, {fail} remain {} ms later: {final_detail}", 3 * bound),
                        "detail": final_detail,
                    }));
                } else {
                    inconclusive.push(format!("final census unmet but canary lagged {canary_lag} ms"));
                }
            }
        }
    }
    if let Some((tail, what)) = comp_problem {
        if healthy {
            let evs = if events.len() == 1 { events[0]["ev"].as_str().unwrap_or("?").to_string() } else { evl.clone() };
            findings.push(json!({"key": format!("event={evs},phase={phase},mode={mode}{vkey},observer=companion,{tail}"), "what": what, "detail": comp_probe}));
        } else {
            inconclusive.push(format!("companion probe failed but canary lagged {canary_lag} ms"));
        }
    } else if comp_probe["took_ms"].as_u64().unwrap_or(0) > bound {
        inconclusive.push(format!("companion message arrived only after {} ms (bound {bound})", comp_probe["took_ms"]));
    }
    if !panics.is_empty() {
        let loc = panics[0].split(' ').next().unwrap_or("?").to_string();
        findings.push(json!({
            "key": format!("phase={phase},mode={mode}{vkey},panic={loc}"),
            "what": format!("a task panicked during termination: {}", panics.join(" | ")),
            "detail": panics,
        }));
    }

    if let Some(why) = flap_problem {
        if findings.is_empty() {
            // the oracle held, but not on the history this scenario is about: not evidence
            return Ok(json!({"status": "harness_error", "reason": format!("flap history not achieved: {why}")}));
        }
    }
    obs.insert("clauses_checked".into(), json!(clauses.iter().filter(|c| c.required).count()));
    obs.insert("clauses_met_in_bound".into(), json!(clauses.iter().filter(|c| c.required && c.met_at.map(|t| t <= bound).unwrap_or(false)).count()));
    obs.insert("api_calls_returned".into(), json!(clauses.iter().filter(|c| c.tag.starts_with("hang:") && c.required && c.met_at.is_some()).count()));
    obs.insert("channel_close_seen".into(), json!(clauses.iter().filter(|c| c.tag.starts_with("no_channel_close") && c.met_at.is_some()).count()));
    let cl: Vec<Value> = clauses
        .iter()
        .map(|c| json!({"side": c.side, "clause": c.tag, "required": c.required, "met_at_ms": c.met_at, "detail": c.detail}))
        .collect();
    Ok(json!({
        "status": "ok",
        "findings": findings,
        "inconclusive": inconclusive,
        "obs": Value::Object(obs),
        "seen": seen.iter().map(|(k, v)| json!([k, v])).collect::<Vec<_>>(),
        "census": {"at_phase": census_phase, "after_event": census_stage1, "companion_after_event": comp_probe, "final": final_detail, "bound_ms": bound,
            "canary_max_lag_ms": canary_lag, "ports_block": ports.block, "wall_ms": clock.ms()},
        "clauses": cl,
        "wire": wire,
        "events": applied,
        "channels": Value::Object(chan_logs),
        "states": Value::Object(state_logs),
    }))
}
