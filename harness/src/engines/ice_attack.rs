//! C06 – only authenticated STUN connectivity checks can influence ICE state (engine `ice_attack`).
//!
//! One real `rustrtc::transports::ice::IceTransport` (WebRTC mode, public API only) per scenario, brought
//! into ICE state New / Checking / Connected in role controlling / controlled. Harness sockets around it:
//!
//!   P  authenticated peer   (Connected state: its checks / answers are built with the reference `stun` crate)
//!   R  silent remote        (Checking state: a signalled remote candidate that never answers; it only reads
//!                            the agent's checks so that the harness knows the outstanding transaction ids)
//!   B  barrier socket       (sends properly authenticated Binding requests; its answer is the marker)
//!   S  stranger             (sends the unauthenticated request variant / the unsolicited response)
//!   C  control socket       (sends the SAME request shape, properly authenticated: non-vacuity)
//!
//! Barrier: every local socket of the agent is served by one sequential read loop (`handle_packet(..).await`
//! per datagram), and loopback UDP enqueues a datagram on the destination socket inside `sendto`. So after
//! the stranger's `send_to` returned, an authenticated request sent by B to the same agent socket is
//! processed strictly after the injected datagram, and B's answer proves the injected datagram was handled
//! completely (the state mutations of `handle_stun_request` are synchronous inside that call).
//!
//! Oracle (statement of C06, no more): the observable tuple
//!     (state(), remote_candidates(), get_selected_pair(), nomination_complete)
//! taken after barrier B0 (before the injection) equals the tuple taken after barrier B1 (behind the
//! injection), for every Binding request that lacks this session's USERNAME or a correct MESSAGE-INTEGRITY
//! under the agent's local password, and for every response whose transaction id is not outstanding.
//! Whether the agent *answers* such a request is recorded as information only (the statement is silent).
//! A response that carries an outstanding transaction id but comes from another source is also
//! information only: the statement says "matches a transaction this agent has outstanding", which it does.
//! Non-vacuity: the properly authenticated control request from C must change the tuple (C becomes a
//! remote candidate); if it does not, a scenario that saw no change is inconclusive, not held.
//! A `null` scenario (no injection) per configuration guards against self-driven changes: if the tuple
//! moves without any injection, violations of that configuration are downgraded to inconclusive.

use crate::common::*;
use rustrtc::transports::ice::{
    IceCandidate, IceGathererState, IceParameters, IceRole, IceTransport,
};
use rustrtc::{IceTcpPolicy, RtcConfiguration, TransportMode};
use serde_json::{Value, json};
use std::collections::BTreeSet;
use std::net::SocketAddr;
use std::time::Duration;
use stun::agent::TransactionId;
use stun::attributes::*;
use stun::error_code::ErrorCodeAttribute;
use stun::fingerprint::FINGERPRINT;
use stun::integrity::MessageIntegrity;
use stun::message::{
    BINDING_ERROR, BINDING_REQUEST, BINDING_SUCCESS, CLASS_REQUEST,
    CLASS_SUCCESS_RESPONSE, Message, Setter,
};
use stun::xoraddr::XorMappedAddress;
use tokio::io::{AsyncReadExt, AsyncWriteExt};
use tokio::net::{TcpStream, UdpSocket};

const PEER_UFRAG: &str = "hpeer";
const PEER_PWD: &str = "harness-peer-password-0123";
const WRONG_PWD: &str = "not-the-agents-password-xx";
const IO_WAIT: Duration = Duration::from_secs(3);
const SETUP_WAIT: Duration = Duration::from_secs(6);
const SCENARIO_WATCHDOG: Duration = Duration::from_secs(25);

// ------------------------------------------------------------------------------------------------
// STUN construction with the reference crate (nothing from rustrtc is used to build injected bytes)

#[derive(Clone, Copy, PartialEq, Eq, Debug)]
enum Mi {
    None,
    Garbage,
    WrongKey,
    /// computed with the RIGHT key, then the transaction id is changed: valid for another message
    Tampered,
    /// the first 8 bytes of the correct HMAC in an 8-byte MESSAGE-INTEGRITY attribute
    Truncated,
    /// 20-byte attribute whose first 10 bytes are the correct HMAC and whose last 10 bytes are inverted
    HalfRight,
    /// correct (barrier / control / peer; in injected requests only together with a bad USERNAME)
    Right,
}

struct ReqSpec<'a> {
    txid: [u8; 12],
    username: Option<String>,
    priority: Option<u32>,
    /// Some(true) = ICE-CONTROLLING, Some(false) = ICE-CONTROLLED
    role_attr: Option<bool>,
    use_candidate: bool,
    mi: Mi,
    right_key: &'a str,
    garbage: [u8; 20],
}

/// header + every attribute in front of MESSAGE-INTEGRITY
fn build_prefix(s: &ReqSpec) -> Message {
    let mut m = Message::new();
    m.typ = BINDING_REQUEST;
    m.transaction_id = TransactionId(s.txid);
    m.write_header();
    if let Some(u) = &s.username {
        m.add(ATTR_USERNAME, u.as_bytes());
    }
    if let Some(p) = s.priority {
        m.add(ATTR_PRIORITY, &p.to_be_bytes());
    }
    match s.role_attr {
        Some(true) => m.add(ATTR_ICE_CONTROLLING, &0x1122_3344_5566_7788u64.to_be_bytes()),
        Some(false) => m.add(ATTR_ICE_CONTROLLED, &0x1122_3344_5566_7788u64.to_be_bytes()),
        None => {}
    }
    if s.use_candidate {
        m.add(ATTR_USE_CANDIDATE, &[]);
    }
    m
}

/// MESSAGE-INTEGRITY attributes that are NOT 20 bytes long (RFC 5389 §15.4: the value is the 20-byte
/// HMAC-SHA1). The harness knows the password, so it can offer the strongest form: the correct leading
/// `len` bytes of the HMAC. What "the HMAC" is for a shortened attribute is ambiguous (the header length
/// that goes into the HMAC input depends on where one thinks the attribute ends), so one request per
/// reading is built: length field as for a regular 24-byte attribute (`rfc`), up to the declared end
/// (`declared`), up to the padded end (`padded`), the final length including FINGERPRINT (`final`) and
/// the length in front of the attribute (`before`). `first_bytes` instead enumerates all 256 values of a
/// one-byte attribute behind an identical prefix (what an attacker without the password can do).
/// The attribute is padded to a multiple of 4 and the header length is consistent in every request.
fn build_short_mi_requests(s: &ReqSpec, len: usize, first_bytes: bool) -> Vec<(String, Vec<u8>)> {
    use hmac::Mac;
    let m = build_prefix(s);
    let cur = m.raw.len() - 20;
    let finish = |value: &[u8]| {
        let mut m2 = m.clone();
        m2.add(ATTR_MESSAGE_INTEGRITY, value);
        let _ = FINGERPRINT.add_to(&mut m2);
        m2.raw.clone()
    };
    if first_bytes {
        return (0..=255u8).map(|x| (format!("byte={x}"), finish(&[x]))).collect();
    }
    let pad = (len + 3) & !3;
    let readings = [
        ("rfc", cur + 24),
        ("declared", cur + 4 + len),
        ("padded", cur + 4 + pad),
        ("final", cur + 4 + pad + 8),
        ("before", cur),
    ];
    let mut out: Vec<(String, Vec<u8>)> = vec![];
    for (name, hdr_len) in readings {
        let mut covered = m.raw.clone();
        covered[2..4].copy_from_slice(&(hdr_len as u16).to_be_bytes());
        let Ok(mut mac) = <hmac::Hmac<sha1::Sha1> as Mac>::new_from_slice(s.right_key.as_bytes()) else { continue };
        mac.update(&covered);
        let tag = mac.finalize().into_bytes();
        let bytes = finish(&tag[..len.min(20)]);
        if !out.iter().any(|(_, b)| *b == bytes) {
            out.push((name.to_string(), bytes));
        }
    }
    out
}

fn build_request(s: &ReqSpec) -> Vec<u8> {
    let mut m = build_prefix(s);
    match s.mi {
        Mi::None => {}
        Mi::Garbage => m.add(ATTR_MESSAGE_INTEGRITY, &s.garbage),
        Mi::WrongKey => {
            let _ = MessageIntegrity::new_short_term_integrity(WRONG_PWD.to_string()).add_to(&mut m);
        }
        Mi::Right => {
            let _ = MessageIntegrity::new_short_term_integrity(s.right_key.to_string()).add_to(&mut m);
        }
        Mi::Tampered => {
            let _ = MessageIntegrity::new_short_term_integrity(s.right_key.to_string()).add_to(&mut m);
            m.transaction_id.0[11] ^= 0x01;
            m.write_transaction_id();
        }
        Mi::HalfRight => {
            let mut full = m.clone();
            let _ = MessageIntegrity::new_short_term_integrity(s.right_key.to_string()).add_to(&mut full);
            let mut v = full.get(ATTR_MESSAGE_INTEGRITY).unwrap_or_else(|_| vec![0; 20]);
            for x in v.iter_mut().skip(10) {
                *x = !*x;
            }
            m.add(ATTR_MESSAGE_INTEGRITY, &v);
        }
        Mi::Truncated => {
            let mut full = m.clone();
            let _ = MessageIntegrity::new_short_term_integrity(s.right_key.to_string()).add_to(&mut full);
            let v = full.get(ATTR_MESSAGE_INTEGRITY).unwrap_or_else(|_| vec![0; 20]);
            m.add(ATTR_MESSAGE_INTEGRITY, &v[..8]);
        }
    }
    // FINGERPRINT is computed over the final bytes, so it is valid in every variant.
    let _ = FINGERPRINT.add_to(&mut m);
    m.raw.clone()
}

fn build_response(success: bool, txid: [u8; 12], mapped: SocketAddr, key: &str) -> Vec<u8> {
    let mut m = Message::new();
    m.typ = if success { BINDING_SUCCESS } else { BINDING_ERROR };
    m.transaction_id = TransactionId(txid);
    m.write_header();
    if success {
        let _ = XorMappedAddress {
            ip: mapped.ip(),
            port: mapped.port(),
        }
        .add_to(&mut m);
    } else {
        let _ = ErrorCodeAttribute {
            code: stun::error_code::CODE_UNAUTHORIZED,
            reason: b"Unauthorized".to_vec(),
        }
        .add_to(&mut m);
    }
    let _ = MessageIntegrity::new_short_term_integrity(key.to_string()).add_to(&mut m);
    let _ = FINGERPRINT.add_to(&mut m);
    m.raw.clone()
}

fn parse(data: &[u8]) -> Option<Message> {
    let mut m = Message::new();
    m.unmarshal_binary(data).ok()?;
    Some(m)
}

// ------------------------------------------------------------------------------------------------
// observable tuple

#[derive(Clone, Debug, PartialEq, Eq)]
struct Snap {
    state: String,
    remotes: Vec<String>,
    pair: Option<String>,
    nomination: Option<bool>,
}

fn snap(ice: &IceTransport) -> Snap {
    Snap {
        state: format!("{:?}", ice.state()).to_lowercase(),
        remotes: ice
            .remote_candidates()
            .iter()
            .map(|c| format!("{:?}/{}/{}", c.typ, c.transport, c.address))
            .collect(),
        pair: ice
            .get_selected_pair()
            .map(|p| format!("{}->{}", p.local.address, p.remote.address)),
        nomination: *ice.subscribe_nomination_complete().borrow(),
    }
}

impl Snap {
    fn json(&self) -> Value {
        json!({"state": self.state, "remote_candidates": self.remotes, "selected_pair": self.pair, "nomination_complete": self.nomination})
    }
}

/// deterministic description of what changed (no addresses): used in violation keys
fn effect(before: &Snap, after: &Snap) -> String {
    let mut parts = vec![];
    if before.remotes != after.remotes {
        parts.push("remote_candidate".to_string());
    }
    if before.pair != after.pair {
        parts.push("selected_pair".to_string());
    }
    if before.nomination != after.nomination {
        parts.push("nomination".to_string());
    }
    if before.state != after.state {
        parts.push(format!("state({}->{})", before.state, after.state));
    }
    parts.join("+")
}

// ------------------------------------------------------------------------------------------------
// scenario

fn scen_str<'a>(s: &'a Value, k: &str) -> &'a str {
    s.get(k).and_then(|v| v.as_str()).unwrap_or("")
}
fn scen_bool(s: &Value, k: &str) -> bool {
    s.get(k).and_then(|v| v.as_bool()).unwrap_or(false)
}

/// scenario without the harness random seed: distinct-counting and config grouping
fn normalised(s: &Value) -> Value {
    let mut n = s.clone();
    if let Some(o) = n.as_object_mut() {
        o.remove("rseed");
    }
    n
}
fn config_of(s: &Value) -> String {
    format!("{}/{}/{}", scen_str(s, "sock"), scen_str(s, "state"), scen_str(s, "role"))
}

/// coarse request class for keys. A partial fix that checks only one of the two credentials leaves a
/// different set of keys than no fix at all: `bad_username+valid_mi` only survives when USERNAME is not
/// checked, `right_username+*` only when MESSAGE-INTEGRITY is not (or wrongly) checked.
fn req_class(user: &str, mi: &str) -> String {
    match (user, mi) {
        ("right", "none") => "right_username+no_mi".to_string(),
        ("right", _) => "right_username+bad_mi".to_string(),
        (_, "right") => "bad_username+valid_mi".to_string(),
        _ => "bad_username+bad_or_no_mi".to_string(),
    }
}

struct Outcome {
    verdict: Verdict,
    nontrivial: bool,
    counters: Vec<(&'static str, u64)>,
    seen: Vec<(&'static str, String)>,
    detail: Value,
}

impl Outcome {
    fn inconclusive(why: impl Into<String>) -> Outcome {
        Outcome {
            verdict: Verdict::Inconclusive(why.into()),
            nontrivial: false,
            counters: vec![],
            seen: vec![],
            detail: Value::Null,
        }
    }
}

struct Ctx {
    ice: IceTransport,
    agent_udp: SocketAddr,
    agent_tcp: Option<SocketAddr>,
    ufrag: String,
    pwd: String,
    role: IceRole,
}

impl Ctx {
    fn auth_username(&self) -> String {
        format!("{}:{}", self.ufrag, PEER_UFRAG)
    }
    /// a fully valid connectivity check as the agent's peer would send it
    fn auth_request(&self, rng: &mut Rng, use_candidate: bool) -> (Vec<u8>, [u8; 12]) {
        let mut txid = [0u8; 12];
        txid.copy_from_slice(&rng.bytes(12));
        let bytes = build_request(&ReqSpec {
            txid,
            username: Some(self.auth_username()),
            priority: Some(0x6e00_1eff),
            role_attr: Some(self.role == IceRole::Controlled), // the peer has the opposite role
            use_candidate,
            mi: Mi::Right,
            right_key: &self.pwd,
            garbage: [0; 20],
        });
        (bytes, txid)
    }
}

async fn bind_udp() -> Result<UdpSocket, String> {
    UdpSocket::bind("127.0.0.1:0")
        .await
        .map_err(|e| format!("harness: cannot bind a UDP socket: {e}"))
}

/// wait for the response with `txid` on `sock`; everything else that arrives is handed to `other`
async fn await_response(
    sock: &UdpSocket,
    txid: &[u8; 12],
    mut other: impl FnMut(&[u8], SocketAddr),
) -> Result<Message, String> {
    let mut buf = [0u8; 2048];
    let deadline = tokio::time::Instant::now() + IO_WAIT;
    loop {
        let r = tokio::time::timeout_at(deadline, sock.recv_from(&mut buf)).await;
        match r {
            Err(_) => return Err("no answer to an authenticated request within 3 s".into()),
            Ok(Err(e)) => return Err(format!("harness: recv error {e}")),
            Ok(Ok((n, from))) => {
                if let Some(m) = parse(&buf[..n]) {
                    if m.transaction_id.0 == *txid && m.typ.class != CLASS_REQUEST {
                        return Ok(m);
                    }
                }
                other(&buf[..n], from);
            }
        }
    }
}

/// authenticated request/response exchange on the agent's UDP socket = the marker
async fn barrier(ctx: &Ctx, b: &UdpSocket, rng: &mut Rng) -> Result<(), String> {
    let (bytes, txid) = ctx.auth_request(rng, false);
    b.send_to(&bytes, ctx.agent_udp)
        .await
        .map_err(|e| format!("harness: send error {e}"))?;
    let m = await_response(b, &txid, |_, _| {}).await.map_err(|e| format!("barrier: {e}"))?;
    if m.typ.class != CLASS_SUCCESS_RESPONSE {
        return Err("barrier: authenticated request was answered with an error response".into());
    }
    Ok(())
}

/// Harness TCP clients bind their local port explicitly (no SO_REUSEADDR) before connecting. A port that
/// is only auto-bound by connect() may be handed out again to a *listener* that uses SO_REUSEADDR (tokio's
/// TcpListener does) – i.e. to the agent of a scenario running in parallel. An unfixed agent dials back to
/// the source port of an inbound TCP stranger, so without this two parallel scenarios could reach each other.
async fn tcp_connect(addr: SocketAddr, avoid_ports: &[u16]) -> Result<TcpStream, String> {
    // TCP and UDP port numbers are independent, and rustrtc compares remote candidates by address only
    // (not by transport): a TCP stranger whose port number equals the port of one of this scenario's UDP
    // sockets would be taken for that candidate. Keep the witness keys deterministic: avoid such ports.
    for _ in 0..8 {
        let sock = tokio::net::TcpSocket::new_v4().map_err(|e| format!("harness: tcp socket {e}"))?;
        // linger 0: closing sends RST, so thousands of scenarios do not leave the ports in TIME-WAIT
        #[allow(deprecated)]
        let _ = sock.set_linger(Some(Duration::ZERO));
        sock.bind("127.0.0.1:0".parse().unwrap())
            .map_err(|e| format!("harness: tcp bind {e}"))?;
        let port = sock.local_addr().map(|a| a.port()).unwrap_or(0);
        if avoid_ports.contains(&port) {
            continue;
        }
        return sock.connect(addr).await.map_err(|e| format!("harness: tcp connect {e}"));
    }
    Err("harness: could not find a TCP port distinct from the scenario's UDP ports".into())
}

async fn tcp_send(s: &mut TcpStream, data: &[u8]) -> Result<(), String> {
    let mut framed = Vec::with_capacity(data.len() + 2);
    framed.extend_from_slice(&(data.len() as u16).to_be_bytes());
    framed.extend_from_slice(data);
    s.write_all(&framed).await.map_err(|e| format!("harness: tcp write {e}"))
}

async fn tcp_recv(s: &mut TcpStream, wait: Duration) -> Option<Vec<u8>> {
    let fut = async {
        let mut l = [0u8; 2];
        s.read_exact(&mut l).await.ok()?;
        let n = u16::from_be_bytes(l) as usize;
        let mut v = vec![0u8; n];
        s.read_exact(&mut v).await.ok()?;
        Some(v)
    };
    tokio::time::timeout(wait, fut).await.ok().flatten()
}

async fn build_agent(sock: &str, role: IceRole, latching: bool) -> Result<(Ctx, tokio::task::JoinHandle<()>), String> {
    let mut cfg = RtcConfiguration::default();
    cfg.enable_latching = latching;
    cfg.transport_mode = TransportMode::WebRtc;
    cfg.bind_ip = Some("127.0.0.1".into());
    cfg.stun_timeout = Duration::from_secs(3);
    cfg.nomination_timeout = Duration::from_secs(4);
    match sock {
        "mux" => {
            // a free port for the process-wide shared socket of this scenario
            let probe = bind_udp().await?;
            let port = probe.local_addr().map_err(|e| e.to_string())?.port();
            drop(probe);
            cfg.ice_udp_mux = true;
            cfg.ice_udp_mux_port = Some(port);
        }
        "tcp" => {
            cfg.ice_tcp_policy = IceTcpPolicy::PassiveOnly;
        }
        _ => {}
    }
    let (ice, runner) = IceTransport::new(cfg);
    let handle = tokio::spawn(runner);
    ice.set_role(role);
    ice.start_gathering().map_err(|e| format!("start_gathering: {e}"))?;
    let t0 = tokio::time::Instant::now();
    while ice.gather_state() != IceGathererState::Complete {
        if t0.elapsed() > SETUP_WAIT {
            handle.abort();
            return Err("gathering did not complete in 6 s".into());
        }
        tokio::time::sleep(Duration::from_millis(2)).await;
    }
    let locals = ice.local_candidates();
    let udp = locals.iter().find(|c| c.transport == "udp").map(|c| c.base_address());
    let tcp = locals.iter().find(|c| c.transport == "tcp").map(|c| c.base_address());
    let Some(agent_udp) = udp else {
        ice.stop();
        handle.abort();
        return Err(format!("no UDP host candidate gathered (sock={sock})"));
    };
    if sock == "tcp" && tcp.is_none() {
        ice.stop();
        handle.abort();
        return Err("no passive TCP candidate gathered".into());
    }
    let lp = ice.local_parameters();
    Ok((
        Ctx {
            ice,
            agent_udp,
            agent_tcp: tcp,
            ufrag: lp.username_fragment,
            pwd: lp.password,
            role,
        },
        handle,
    ))
}

/// what the harness learned while bringing the agent into its state
#[derive(Default)]
struct SetupInfo {
    outstanding: Vec<[u8; 12]>,
    completed: Vec<[u8; 12]>,
    agent_checks_seen: u64,
    agent_checks_authentic: u64,
    non_conformant: Vec<String>,
}

/// Is this datagram one of the agent's own checks, and does it carry USERNAME "<peer>:<agent>" and a
/// MESSAGE-INTEGRITY under the peer's password? (information: a receive-side check in rustrtc is only
/// deployable if rustrtc's own sender is conformant.)
fn note_agent_check(info: &mut SetupInfo, ctx: &Ctx, data: &[u8]) -> Option<[u8; 12]> {
    let mut m = parse(data)?;
    if m.typ.class != CLASS_REQUEST {
        return None;
    }
    info.agent_checks_seen += 1;
    let user_ok = m
        .get(ATTR_USERNAME)
        .ok()
        .map(|u| u == format!("{}:{}", PEER_UFRAG, ctx.ufrag).as_bytes())
        .unwrap_or(false);
    let mi_ok = MessageIntegrity::new_short_term_integrity(PEER_PWD.to_string())
        .check(&mut m)
        .is_ok();
    if user_ok && mi_ok {
        info.agent_checks_authentic += 1;
    } else {
        info.non_conformant.push(format!(
            "username_ok={user_ok} mi_ok={mi_ok} has_mi={} use_candidate={} len={}",
            m.contains(ATTR_MESSAGE_INTEGRITY),
            m.contains(ATTR_USE_CANDIDATE),
            data.len()
        ));
    }
    Some(m.transaction_id.0)
}

async fn run_scenario(s: Value) -> Outcome {
    match tokio::time::timeout(SCENARIO_WATCHDOG, run_scenario_inner(&s)).await {
        Ok(o) => o,
        Err(_) => Outcome::inconclusive("watchdog: scenario did not finish in 25 s"),
    }
}

async fn run_scenario_inner(s: &Value) -> Outcome {
    let sock = scen_str(s, "sock").to_string();
    let state = scen_str(s, "state").to_string();
    let role = if scen_str(s, "role") == "controlling" {
        IceRole::Controlling
    } else {
        IceRole::Controlled
    };
    let mut rng = Rng::new(s.get("rseed").and_then(|v| v.as_u64()).unwrap_or(1));
    // (the free-port probe of the mux configuration can lose a race against a parallel scenario: retry)
    let mut built = build_agent(&sock, role, scen_str(s, "src") == "latch_twin").await;
    for _ in 0..3 {
        if built.is_ok() {
            break;
        }
        built = build_agent(&sock, role, scen_str(s, "src") == "latch_twin").await;
    }
    let (ctx, runner) = match built {
        Ok(x) => x,
        Err(e) => return Outcome::inconclusive(format!("setup: {e}")),
    };
    let out = drive(s, &ctx, &mut rng).await;
    ctx.ice.stop();
    runner.abort();
    let _ = state;
    match out {
        Ok(o) => o,
        Err(e) => Outcome::inconclusive(e),
    }
}

async fn drive(s: &Value, ctx: &Ctx, rng: &mut Rng) -> Result<Outcome, String> {
    let kind = scen_str(s, "kind");
    let sock = scen_str(s, "sock");
    let state = scen_str(s, "state");
    let ice = &ctx.ice;
    let p = bind_udp().await?;
    let r = bind_udp().await?;
    let b = bind_udp().await?;
    // `latch_twin` source (agent configured with enable_latching): the stranger owns the peer's port
    // number on another loopback address, which is what the address-latching branch looks for.
    let st = if scen_str(s, "src") == "latch_twin" {
        let twin = SocketAddr::new("127.0.0.2".parse().unwrap(), p.local_addr().map_err(|e| e.to_string())?.port());
        UdpSocket::bind(twin)
            .await
            .map_err(|e| format!("harness: cannot bind the latch twin {twin}: {e}"))?
    } else {
        bind_udp().await?
    };
    let c = bind_udp().await?;
    let p_addr = p.local_addr().map_err(|e| e.to_string())?;
    let r_addr = r.local_addr().map_err(|e| e.to_string())?;
    let udp_ports: Vec<u16> = [&p, &r, &b, &st, &c]
        .iter()
        .filter_map(|x| x.local_addr().ok().map(|a| a.port()))
        .chain(std::iter::once(ctx.agent_udp.port()))
        .collect();
    let mut info = SetupInfo::default();
    let mut counters: Vec<(&'static str, u64)> = vec![];
    let mut seen: Vec<(&'static str, String)> = vec![];

    // ---------------------------------------------------------------- bring the agent into `state`
    match state {
        "new" => {}
        "checking" => {
            ice.add_remote_candidate(IceCandidate::host(r_addr, 1));
            ice.start(IceParameters::new(PEER_UFRAG, PEER_PWD))
                .map_err(|e| format!("start: {e}"))?;
            // wait until the first check towards the silent remote is on the wire: a transaction is outstanding
            let mut buf = [0u8; 2048];
            match tokio::time::timeout(IO_WAIT, r.recv_from(&mut buf)).await {
                Ok(Ok((n, _))) => {
                    if let Some(t) = note_agent_check(&mut info, ctx, &buf[..n]) {
                        info.outstanding.push(t);
                    }
                }
                _ => return Err("setup: agent sent no check to its remote candidate within 3 s".into()),
            }
            if info.outstanding.is_empty() {
                return Err("setup: first datagram to the silent remote was not a STUN request".into());
            }
        }
        "connected" => {
            if ctx.role == IceRole::Controlled {
                ice.start(IceParameters::new(PEER_UFRAG, PEER_PWD))
                    .map_err(|e| format!("start: {e}"))?;
                let (bytes, txid) = ctx.auth_request(rng, true);
                p.send_to(&bytes, ctx.agent_udp).await.map_err(|e| e.to_string())?;
                await_response(&p, &txid, |_, _| {})
                    .await
                    .map_err(|e| format!("setup(connected,controlled): {e}"))?;
            } else {
                ice.add_remote_candidate(IceCandidate::host(p_addr, 1));
                // The peer checks the agent first (as a real peer does). On the shared UDP mux this is
                // also what makes the demultiplexer route P's later answers to this session: the agent's
                // own checks leave through the raw socket and do not record the destination.
                let (bytes, txid) = ctx.auth_request(rng, false);
                p.send_to(&bytes, ctx.agent_udp).await.map_err(|e| e.to_string())?;
                await_response(&p, &txid, |_, _| {})
                    .await
                    .map_err(|e| format!("setup(connected,controlling): {e}"))?;
                let mut nom = ice.subscribe_nomination_complete();
                ice.start(IceParameters::new(PEER_UFRAG, PEER_PWD))
                    .map_err(|e| format!("start: {e}"))?;
                let deadline = tokio::time::Instant::now() + SETUP_WAIT;
                let mut buf = [0u8; 2048];
                loop {
                    if nom.borrow_and_update().is_some() {
                        break;
                    }
                    tokio::select! {
                        _ = tokio::time::sleep_until(deadline) => {
                            return Err("setup(connected,controlling): nomination did not complete in 6 s although every check was answered".into());
                        }
                        ch = nom.changed() => { if ch.is_err() { return Err("setup: nomination channel closed".into()); } }
                        rx = p.recv_from(&mut buf) => {
                            if let Ok((n, from)) = rx {
                                if let Some(t) = note_agent_check(&mut info, ctx, &buf[..n]) {
                                    let resp = build_response(true, t, from, PEER_PWD);
                                    let _ = p.send_to(&resp, from).await;
                                    info.completed.push(t);
                                }
                            }
                        }
                    }
                }
            }
        }
        other => return Err(format!("harness: unknown state {other}")),
    }

    // ---------------------------------------------------------------- B0, before
    // Two exchanges: the agent answers a request before it applies the request's own effect (B becomes
    // a peer-reflexive remote candidate, legitimately – B is authenticated). The answer to the second
    // exchange proves that the first one, including that effect, is complete. From then on a request
    // from B has no effect of its own, so later barriers need one exchange.
    barrier(ctx, &b, rng).await?;
    barrier(ctx, &b, rng).await?;
    if state == "connected" {
        let sn = snap(ice);
        let ok = sn.state == "connected"
            && sn.nomination == Some(true)
            && sn.pair.as_deref().map(|x| x.ends_with(&format!("->{p_addr}"))).unwrap_or(false);
        if !ok {
            return Err(format!(
                "setup(connected): the authenticated peer did not become the nominated selected pair: {}",
                sn.json()
            ));
        }
    } else if snap(ice).state != state {
        return Err(format!("setup: agent is in state {} instead of {state}", snap(ice).state));
    }
    let before = snap(ice);
    seen.push(("agent_state_before", format!("{}/{}", state, scen_str(s, "role"))));

    // ---------------------------------------------------------------- the injection
    let uc = scen_bool(s, "uc");
    let mut stranger_answers = 0u64;
    let mut tcp_stream: Option<TcpStream> = None;
    let mut timed_barrier = false;
    let mut injected_hex = String::new();
    // `known` source: a socket whose address already is a remote candidate of the agent
    let known_sock: &UdpSocket = match state {
        "new" => &b,
        "checking" => &r,
        _ => &p,
    };
    let from_known = scen_str(s, "src") == "known";
    match kind {
        "null" => {}
        "request" => {
            let user = scen_str(s, "user");
            let mi = match scen_str(s, "mi") {
                "none" => Mi::None,
                "garbage" => Mi::Garbage,
                "wrong_key" => Mi::WrongKey,
                "tampered" => Mi::Tampered,
                "truncated" => Mi::Truncated,
                "half_right" => Mi::HalfRight,
                _ => Mi::Right,
            };
            let mut txid = [0u8; 12];
            txid.copy_from_slice(&rng.bytes(12));
            let mut garbage = [0u8; 20];
            garbage.copy_from_slice(&rng.bytes(20));
            let bytes = build_request(&ReqSpec {
                txid,
                username: match user {
                    "none" => None,
                    "wrong" => Some(format!("zz{}:{}", ctx.ufrag.get(2..).unwrap_or(""), PEER_UFRAG)),
                    // the local ufrag alone / the local ufrag as a proper prefix of another ufrag
                    "prefix_nocolon" => Some(ctx.ufrag.clone()),
                    "prefix_longer" => Some(format!("{}x:{}", ctx.ufrag, PEER_UFRAG)),
                    _ => Some(ctx.auth_username()),
                },
                priority: if scen_bool(s, "prio") { Some(0x6e00_1eff) } else { None },
                role_attr: match scen_str(s, "role_attr") {
                    "controlling" => Some(true),
                    "controlled" => Some(false),
                    _ => None,
                },
                use_candidate: uc,
                mi,
                right_key: &ctx.pwd,
                garbage,
            });
            injected_hex = hex_cap(&bytes, 160);
            counters.push(("requests_injected", 1));
            if sock == "tcp" {
                // passive TCP: every accepted stream has its own read loop, so the marker must travel on
                // the stranger's stream. Marker = a second copy of the same unauthenticated request: its
                // answer proves that the first copy was handled completely. If the agent does not answer
                // unauthenticated requests there is no in-band marker; then (and only then) the harness
                // waits 2 x 200 ms – that wait can only weaken a `held`, never create a violation.
                let Some(tcp_addr) = ctx.agent_tcp else { return Err("no tcp address".into()) };
                let mut ts = tcp_connect(tcp_addr, &udp_ports).await?;
                tcp_send(&mut ts, &bytes).await?;
                tcp_send(&mut ts, &bytes).await?;
                let a1 = tcp_recv(&mut ts, Duration::from_millis(200)).await;
                let a2 = if a1.is_some() { tcp_recv(&mut ts, IO_WAIT).await } else { None };
                stranger_answers = a1.is_some() as u64 + a2.is_some() as u64;
                if a2.is_none() {
                    timed_barrier = true;
                    tokio::time::sleep(Duration::from_millis(200)).await;
                }
                tcp_stream = Some(ts);
            } else {
                let from = if from_known { known_sock } else { &st };
                from.send_to(&bytes, ctx.agent_udp).await.map_err(|e| e.to_string())?;
            }
        }
        "mi_sweep" => {
            // right USERNAME, MESSAGE-INTEGRITY attribute of a declared length other than 20
            let len = s.get("mi_len").and_then(|v| v.as_u64()).unwrap_or(1) as usize;
            let first_bytes = scen_str(s, "form") == "first_bytes";
            let mut txid = [0u8; 12];
            txid.copy_from_slice(&rng.bytes(12));
            let reqs = build_short_mi_requests(
                &ReqSpec {
                    txid,
                    username: Some(ctx.auth_username()),
                    priority: if scen_bool(s, "prio") { Some(0x6e00_1eff) } else { None },
                    role_attr: match scen_str(s, "role_attr") {
                        "controlling" => Some(true),
                        "controlled" => Some(false),
                        _ => None,
                    },
                    use_candidate: uc,
                    mi: Mi::None,
                    right_key: &ctx.pwd,
                    garbage: [0; 20],
                },
                len,
                first_bytes,
            );
            if let Some((_, b0)) = reqs.first() {
                injected_hex = hex_cap(b0, 160);
            }
            counters.push(("requests_injected", reqs.len() as u64));
            counters.push(("short_mi_requests_injected", reqs.len() as u64));
            // in chunks, each followed by a barrier, so that the agent's receive buffer cannot overflow
            // and silently thin out the sweep
            for chunk in reqs.chunks(32) {
                for (_, bytes) in chunk {
                    st.send_to(bytes, ctx.agent_udp).await.map_err(|e| e.to_string())?;
                }
                if reqs.len() > 32 {
                    barrier(ctx, &b, rng).await?;
                }
            }
        }
        "tail" => {
            // Information only (the statement does not cover it: the request IS authenticated): a valid
            // check without USE-CANDIDATE, to which USE-CANDIDATE is appended *after* MESSAGE-INTEGRITY
            // (RFC 5389 §15.4 says such attributes must be ignored; an on-path attacker can add them).
            let (mut bytes, _) = ctx.auth_request(rng, false);
            if let Some(mut m) = parse(&bytes) {
                // strip FINGERPRINT (last 8 bytes), append USE-CANDIDATE, re-add FINGERPRINT
                let n = m.raw.len();
                m.raw.truncate(n - 8);
                m.length -= 8;
                m.attributes.0.pop();
                m.write_length();
                m.add(ATTR_USE_CANDIDATE, &[]);
                let _ = FINGERPRINT.add_to(&mut m);
                bytes = m.raw.clone();
            }
            injected_hex = hex_cap(&bytes, 160);
            counters.push(("authenticated_requests_with_tail_injected(info)", 1));
            st.send_to(&bytes, ctx.agent_udp).await.map_err(|e| e.to_string())?;
        }
        "response" => {
            let success = scen_str(s, "resp") == "success";
            let mut txid = [0u8; 12];
            txid.copy_from_slice(&rng.bytes(12));
            match scen_str(s, "txid") {
                "completed" => match info.completed.last() {
                    Some(t) => txid = *t,
                    None => return Err("no completed transaction known in this configuration".into()),
                },
                "outstanding_wrong_source" => match info.outstanding.last() {
                    Some(t) => txid = *t,
                    None => return Err("no outstanding transaction known in this configuration".into()),
                },
                _ => {}
            }
            let bytes = build_response(success, txid, ctx.agent_udp, PEER_PWD);
            injected_hex = hex_cap(&bytes, 160);
            counters.push(("responses_injected", 1));
            st.send_to(&bytes, ctx.agent_udp).await.map_err(|e| e.to_string())?;
        }
        other => return Err(format!("harness: unknown kind {other}")),
    }

    // ---------------------------------------------------------------- B1, after
    barrier(ctx, &b, rng).await?;
    counters.push(("barriers_passed", 3));
    if kind == "response" {
        // a response is handed to the waiting check task through a oneshot, so its effect (if any) is
        // asynchronous: give it a bounded chance to show. The wait cannot produce a violation by itself.
        let mut rx = ice.subscribe_state();
        let _ = rx.borrow_and_update();
        let _ = tokio::time::timeout(Duration::from_millis(120), rx.changed()).await;
    }
    let after = snap(ice);
    {
        // datagrams returned to the stranger (information only)
        let mut buf = [0u8; 2048];
        let from = if from_known && kind == "request" { known_sock } else { &st };
        while let Ok((n, _)) = from.try_recv_from(&mut buf) {
            if parse(&buf[..n]).map(|m| m.typ.class != CLASS_REQUEST).unwrap_or(false) {
                stranger_answers += 1;
            }
        }
    }
    if kind == "request" && stranger_answers > 0 {
        counters.push(("unauthenticated_requests_answered(info)", 1));
    }
    if kind == "mi_sweep" && stranger_answers > 0 {
        counters.push(("short_mi_requests_answered(info)", stranger_answers));
    }
    let eff = effect(&before, &after);

    // ---------------------------------------------------------------- non-vacuity control
    let mut control_ok = true;
    let mut control_effect = String::new();
    // (not on the shared UDP mux: its demultiplexer only routes a response to a session after that peer
    // address has sent a request carrying the session's ufrag, which the silent remote never does)
    if kind == "response" && state == "checking" && sock != "mux" && scen_str(s, "txid") != "outstanding_wrong_source" {
        // the solicited response from the right source must be honoured
        let Some(t) = info.outstanding.last().copied() else { return Err("no outstanding id".into()) };
        let mut rx = ice.subscribe_state();
        let _ = rx.borrow_and_update();
        r.send_to(&build_response(true, t, ctx.agent_udp, PEER_PWD), ctx.agent_udp)
            .await
            .map_err(|e| e.to_string())?;
        let _ = tokio::time::timeout(IO_WAIT, rx.changed()).await;
        let ctl = snap(ice);
        control_effect = effect(&after, &ctl);
        control_ok = !control_effect.is_empty();
    } else if kind != "null" && kind != "tail" {
        let (bytes, txid) = ctx.auth_request(rng, uc && (kind == "request" || kind == "mi_sweep"));
        if sock == "tcp" && kind == "request" {
            let Some(tcp_addr) = ctx.agent_tcp else { return Err("no tcp address".into()) };
            let mut cs = tcp_connect(tcp_addr, &udp_ports).await?;
            let local = cs.local_addr().map_err(|e| e.to_string())?;
            tcp_send(&mut cs, &bytes).await?;
            let (bytes2, _) = ctx.auth_request(rng, false);
            tcp_send(&mut cs, &bytes2).await?;
            let a1 = tcp_recv(&mut cs, IO_WAIT).await;
            let a2 = tcp_recv(&mut cs, IO_WAIT).await;
            let ctl = snap(ice);
            control_effect = effect(&after, &ctl);
            control_ok = a1.is_some()
                && a2.is_some()
                && ctl.remotes.iter().any(|x| x.ends_with(&format!("/{local}")));
        } else {
            c.send_to(&bytes, ctx.agent_udp).await.map_err(|e| e.to_string())?;
            await_response(&c, &txid, |_, _| {}).await.map_err(|e| format!("control: {e}"))?;
            barrier(ctx, &b, rng).await?;
            let ctl = snap(ice);
            control_effect = effect(&after, &ctl);
            let c_addr = c.local_addr().map_err(|e| e.to_string())?;
            control_ok = ctl.remotes.iter().any(|x| x.ends_with(&format!("/{c_addr}")))
                && !after.remotes.iter().any(|x| x.ends_with(&format!("/{c_addr}")));
        }
    }
    if control_ok && kind != "null" && kind != "tail" {
        counters.push(("authenticated_control_had_effect", 1));
        seen.push(("control_effect", control_effect.clone()));
    }
    drop(tcp_stream);
    for n in &info.non_conformant {
        seen.push(("agent_check_without_valid_credentials(info)", format!("{}: {n}", config_of(s))));
    }
    counters.push(("agent_checks_seen", info.agent_checks_seen));
    counters.push(("agent_checks_with_valid_username_and_mi", info.agent_checks_authentic));
    if timed_barrier {
        counters.push(("tcp_timed_barrier(no in-band marker)", 1));
    }

    let detail = json!({
        "before": before.json(), "after": after.json(), "effect": eff,
        "control_effect": control_effect, "control_ok": control_ok,
        "answers_returned_to_stranger": stranger_answers,
        "injected": injected_hex,
        "agent_checks_seen": info.agent_checks_seen,
        "agent_checks_authentic": info.agent_checks_authentic,
    });

    // ---------------------------------------------------------------- verdict
    let sockk = if sock == "tcp" { "tcp" } else { "udp" }; // plain and muxed UDP share the request handler
    let verdict = match kind {
        "tail" => {
            let honoured = eff.contains("nomination") || eff.contains("selected_pair");
            if honoured {
                counters.push(("use_candidate_after_message_integrity_honoured", 1));
            }
            seen.push(("tail_effect(info)", format!("{}:{}", config_of(s), eff)));
            // The request itself is authentic but carries NO USE-CANDIDATE inside the part that
            // MESSAGE-INTEGRITY covers; the nominating attribute was appended behind it by a third
            // party. A controlled agent never nominates on its own, so a selected pair / completed
            // nomination here was caused by the unauthenticated attribute. (For a controlling agent
            // the same effect can be its own doing, so it is only counted there.)
            if honoured && scen_str(s, "role") == "controlled" {
                Verdict::violated(
                    format!(
                        "req=authentic+unauthenticated_tail(use_candidate),sock={},role=controlled,effect={}",
                        sockk, eff
                    ),
                    format!(
                        "USE-CANDIDATE appended behind MESSAGE-INTEGRITY (not covered by it) of an authentic non-nominating check made a controlled agent change its tuple: {eff} ({})",
                        config_of(s)
                    ),
                    detail.clone(),
                )
            } else {
                Verdict::Held
            }
        }
        "null" => {
            if eff.is_empty() {
                Verdict::Held
            } else {
                Verdict::Inconclusive(format!("null-control: tuple changed without any injection ({eff}) in {}", config_of(s)))
            }
        }
        "request" => {
            if !eff.is_empty() {
                let key = format!(
                    "req={},uc={},sock={},role={},effect={}",
                    req_class(scen_str(s, "user"), scen_str(s, "mi")),
                    uc as u8,
                    sockk,
                    scen_str(s, "role"),
                    eff
                );
                Verdict::violated(
                    key,
                    format!(
                        "unauthenticated Binding request (USERNAME {}, MESSAGE-INTEGRITY {}, USE-CANDIDATE {}) from a {} source changed the ICE tuple of a {} agent in state {}: {}",
                        scen_str(s, "user"), scen_str(s, "mi"), uc, scen_str(s, "src"), scen_str(s, "role"), state, eff
                    ),
                    detail.clone(),
                )
            } else if !control_ok {
                Verdict::Inconclusive("authenticated control request had no effect (non-vacuity failed)".into())
            } else {
                Verdict::Held
            }
        }
        "mi_sweep" => {
            let len = s.get("mi_len").and_then(|v| v.as_u64()).unwrap_or(1);
            if !eff.is_empty() {
                Verdict::violated(
                    format!(
                        "req=right_username+short_mi(len={}),uc={},sock={},role={},effect={}",
                        if len == 0 { "0" } else { "1..19" },
                        uc as u8,
                        sockk,
                        scen_str(s, "role"),
                        eff
                    ),
                    format!(
                        "Binding request(s) with the right USERNAME and a MESSAGE-INTEGRITY attribute of declared length {len} ({}; a shortened tag is not a MESSAGE-INTEGRITY, USE-CANDIDATE {}) from a stranger changed the ICE tuple of a {} agent in state {}: {}",
                        if scen_str(s, "form") == "first_bytes" { "all 256 values of the one byte" } else { "the correct leading bytes of the HMAC, every reading of the covered length" },
                        uc, scen_str(s, "role"), state, eff
                    ),
                    detail.clone(),
                )
            } else if !control_ok {
                Verdict::Inconclusive("authenticated control request had no effect (non-vacuity failed)".into())
            } else {
                Verdict::Held
            }
        }
        _ => {
            let tx = scen_str(s, "txid");
            if tx == "outstanding_wrong_source" {
                // statement: "honoured only if it matches a transaction this agent has outstanding" – it does.
                if !eff.is_empty() {
                    counters.push(("response_with_outstanding_id_from_wrong_source_honoured(info)", 1));
                    seen.push(("wrong_source_response_effect(info)", format!("{}:{}", scen_str(s, "resp"), eff)));
                }
                Verdict::Held
            } else if !eff.is_empty() {
                let key = format!(
                    "resp={},txid={},sock={},role={},effect={}",
                    scen_str(s, "resp"), tx, sockk, scen_str(s, "role"), eff
                );
                Verdict::violated(
                    key,
                    format!(
                        "{} response with a {} transaction id from a stranger changed the ICE tuple of a {} agent in state {}: {}",
                        scen_str(s, "resp"), tx, scen_str(s, "role"), state, eff
                    ),
                    detail.clone(),
                )
            } else if !control_ok {
                Verdict::Inconclusive("control (solicited response / authenticated request) had no effect".into())
            } else {
                Verdict::Held
            }
        }
    };
    let nontrivial = kind != "null" && kind != "tail" && (control_ok || verdict.is_violated());
    Ok(Outcome {
        verdict,
        nontrivial,
        counters,
        seen,
        detail,
    })
}

// ------------------------------------------------------------------------------------------------
// scenario generation

fn gen_scenarios(args: &Args) -> Vec<Value> {
    let root = Rng::new(args.seed);
    let mut out = vec![];
    let socks: &[&str] = &["udp", "mux", "tcp"];
    let reps = args.tier.pick(1u64, 6u64);
    let mut idx = 0u64;
    // (own counter for the MI-length family: the seeds of the older scenarios stay what they were)
    let mut idx2 = 1u64 << 32;
    for sock in socks {
        for state in ["new", "checking", "connected"] {
            for role in ["controlling", "controlled"] {
                let base = json!({"sock": sock, "state": state, "role": role});
                let mk = |extra: Value, idx: &mut u64| {
                    *idx += 1;
                    let mut v = base.clone();
                    for (k, x) in extra.as_object().unwrap() {
                        v[k] = x.clone();
                    }
                    v["rseed"] = json!(root.fork(*idx).next_u64() >> 11);
                    v
                };
                out.push(mk(json!({"kind": "null"}), &mut idx));
                for rep in 0..reps {
                    for user in ["none", "wrong", "prefix_nocolon", "prefix_longer", "right"] {
                        for mi in ["none", "garbage", "wrong_key", "tampered", "truncated", "half_right", "right"] {
                            if user == "right" && mi == "right" {
                                continue; // that is the authenticated control, not an attack
                            }
                            for uc in [false, true] {
                                for src in ["new", "known", "latch_twin"] {
                                    if *sock == "tcp" && src != "new" {
                                        continue; // a TCP stranger always has a fresh source port
                                    }
                                    if src == "latch_twin" && (state != "connected" || rep > 0 || mi == "truncated" || mi == "wrong_key" || mi == "half_right") {
                                        continue; // latching needs a selected pair; one pass is enough
                                    }
                                    let mut r = root.fork(0xC06 ^ (idx << 8) ^ rep);
                                    let role_attr = *r.pick(&["none", "controlling", "controlled"]);
                                    let prio = r.bool();
                                    out.push(mk(
                                        json!({"kind": "request", "user": user, "mi": mi, "uc": uc, "src": src,
                                               "role_attr": role_attr, "prio": prio}),
                                        &mut idx,
                                    ));
                                }
                            }
                        }
                    }
                }
                if *sock != "tcp" && role == "controlled" {
                    out.push(mk(json!({"kind": "tail"}), &mut idx));
                }
                if *sock != "tcp" {
                    // MESSAGE-INTEGRITY length sweep (UDP sockets: one read loop, so the barrier is exact)
                    for rep in 0..reps {
                        for uc in [false, true] {
                            for (form, len) in [("prefix", 0u64), ("prefix", 1), ("prefix", 2), ("prefix", 4), ("prefix", 8),
                                                ("prefix", 19), ("first_bytes", 1)] {
                                // later passes (thorough only): other lengths
                                let len = if rep == 0 || form != "prefix" { len } else { [3u64, 5, 6, 7, 9, 12, 16][(len as usize + rep as usize) % 7] };
                                let mut r = root.fork(0x51C06 ^ (idx2 << 8) ^ rep);
                                let role_attr = *r.pick(&["none", "controlling", "controlled"]);
                                let prio = r.bool();
                                out.push(mk(
                                    json!({"kind": "mi_sweep", "form": form, "mi_len": len, "uc": uc, "src": "new",
                                           "role_attr": role_attr, "prio": prio}),
                                    &mut idx2,
                                ));
                            }
                        }
                    }
                }
                if *sock != "tcp" {
                    for resp in ["success", "error"] {
                        out.push(mk(json!({"kind": "response", "resp": resp, "txid": "random"}), &mut idx));
                        if state == "connected" && role == "controlling" {
                            out.push(mk(json!({"kind": "response", "resp": resp, "txid": "completed"}), &mut idx));
                        }
                        if state == "checking" {
                            out.push(mk(
                                json!({"kind": "response", "resp": resp, "txid": "outstanding_wrong_source"}),
                                &mut idx,
                            ));
                        }
                    }
                }
            }
        }
    }
    out
}

// ------------------------------------------------------------------------------------------------

pub fn run(args: &Args) -> i32 {
    let mut report = Report::new(
        args,
        "exploration",
        "a scenario is non-trivial when both barriers around the injection were answered and either the tuple changed (violation) or the properly authenticated control request / solicited response did change the tuple",
    );
    report.assume("loopback UDP delivers in send order to one destination socket (sendto enqueues synchronously), so the barrier request is processed after the injected datagram");
    report.assume("the agent's state is observed only through the public API: state(), remote_candidates(), get_selected_pair(), subscribe_nomination_complete()");
    report.assume("passive-TCP scenarios use a duplicate of the injected request as in-band marker; when the agent does not answer it, a 2 x 200 ms wait replaces the marker (counted as tcp_timed_barrier)");
    report.max_samples = 8;

    let scenarios: Vec<Value> = if let Some(p) = &args.replay {
        match load_replay(p) {
            Some(s) => (0..5).map(|_| s.clone()).collect(),
            None => {
                eprintln!("cannot read replay file {}", p.display());
                return 2;
            }
        }
    } else {
        gen_scenarios(args)
    };

    // Every scenario runs inside its own current-thread tokio runtime which is dropped at the end of the
    // scenario. rustrtc spawns detached check tasks that keep retransmitting for `stun_timeout` after
    // `stop()`; because ephemeral ports are reused quickly, such a stale agent could otherwise talk to
    // the sockets of a later scenario. Dropping the runtime kills every task and closes every socket of
    // the scenario, so scenarios cannot influence each other. 16 worker threads run scenarios in parallel.
    let replay = args.replay.is_some();
    let workers = if replay { 1 } else { 16 };
    let next = std::sync::atomic::AtomicUsize::new(0);
    // early stop: if the agent never answers *authenticated* requests (e.g. a receive-side check that
    // rejects everything), every scenario would wait 3 s for its barrier; after 64 such scenarios without
    // a single decided one the rest is skipped (all inconclusive => the run is reported broken, exit 2).
    let decided = std::sync::atomic::AtomicUsize::new(0);
    let undecided = std::sync::atomic::AtomicUsize::new(0);
    let out: parking_lot::Mutex<Vec<(Value, Outcome)>> = parking_lot::Mutex::new(Vec::new());
    std::thread::scope(|scope| {
        for w in 0..workers {
            let (next, out, scenarios, decided, undecided) = (&next, &out, &scenarios, &decided, &undecided);
            let _ = std::thread::Builder::new()
                .name(format!("c06-worker-{w}"))
                .spawn_scoped(scope, move || {
                    loop {
                        let i = next.fetch_add(1, std::sync::atomic::Ordering::SeqCst);
                        let Some(s) = scenarios.get(i) else { break };
                        use std::sync::atomic::Ordering::SeqCst;
                        if decided.load(SeqCst) == 0 && undecided.load(SeqCst) >= 64 {
                            out.lock().push((
                                s.clone(),
                                Outcome::inconclusive("skipped: the first 64 scenarios were all inconclusive"),
                            ));
                            continue;
                        }
                        let o = std::panic::catch_unwind(std::panic::AssertUnwindSafe(|| {
                            match tokio::runtime::Builder::new_current_thread().enable_all().build() {
                                Ok(rt) => {
                                    let o = rt.block_on(run_scenario(s.clone()));
                                    rt.shutdown_background();
                                    o
                                }
                                Err(e) => Outcome::inconclusive(format!("harness: cannot build a runtime: {e}")),
                            }
                        }))
                        .unwrap_or_else(|_| Outcome::inconclusive("harness: scenario thread panicked"));
                        if matches!(o.verdict, Verdict::Inconclusive(_)) {
                            undecided.fetch_add(1, SeqCst);
                        } else {
                            decided.fetch_add(1, SeqCst);
                        }
                        out.lock().push((s.clone(), o));
                    }
                });
        }
    });
    let results = out.into_inner();
    let mut results = results;
    // deterministic order regardless of completion order
    results.sort_by_key(|(s, _)| s.to_string());
    if replay {
        // 5 attempts of the same scenario (rustrtc's own randomness and the scheduler are not seedable)
        for (i, (s, o)) in results.into_iter().enumerate() {
            println!("replay attempt {}: {}", i + 1, o.detail);
            for (k, n) in &o.counters {
                report.count(k, *n);
            }
            let h = hash_value(&normalised(&s)) ^ (i as u64 + 1);
            report.record(&s, if o.nontrivial { Some(h) } else { None }, o.verdict);
        }
        return report.finish(1, 2);
    }

    // configurations whose null control moved by itself
    let unstable: BTreeSet<String> = results
        .iter()
        .filter(|(s, o)| scen_str(s, "kind") == "null" && !matches!(o.verdict, Verdict::Held))
        .filter(|(_, o)| matches!(&o.verdict, Verdict::Inconclusive(w) if w.starts_with("null-control")))
        .map(|(s, _)| config_of(s))
        .collect();
    for u in &unstable {
        report.note(format!("configuration {u}: tuple changed without injection; its violations are downgraded to inconclusive"));
    }

    let panics_before = panic_count();
    for (s, o) in results {
        for (k, n) in &o.counters {
            report.count(k, *n);
        }
        for (set, item) in &o.seen {
            report.seen(set, item.clone());
        }
        let kind = scen_str(&s, "kind");
        report.count(&format!("scenarios_{kind}"), 1);
        let mut verdict = o.verdict;
        if verdict.is_violated() && unstable.contains(&config_of(&s)) {
            verdict = Verdict::Inconclusive(format!("violation in unstable configuration {}", config_of(&s)));
        }
        match &verdict {
            Verdict::Violated { key, .. } => report.seen("violation_keys", key.clone()),
            Verdict::Held if kind == "request" => report.seen(
                "request_classes_held",
                format!(
                    "{}|uc={}|src={}|{}",
                    req_class(scen_str(&s, "user"), scen_str(&s, "mi")),
                    scen_bool(&s, "uc") as u8,
                    scen_str(&s, "src"),
                    config_of(&s)
                ),
            ),
            Verdict::Held if kind == "mi_sweep" => report.seen(
                "short_mi_sweeps_held",
                format!(
                    "{}:len={}|uc={}|{}",
                    scen_str(&s, "form"),
                    s.get("mi_len").and_then(|v| v.as_u64()).unwrap_or(0),
                    scen_bool(&s, "uc") as u8,
                    config_of(&s)
                ),
            ),
            _ => {}
        }
        if o.nontrivial {
            report.seen("configs_exercised", config_of(&s));
            if kind == "request" {
                report.seen(
                    "request_variants_exercised",
                    format!("{}+{}+uc{}+{}", scen_str(&s, "user"), scen_str(&s, "mi"), scen_bool(&s, "uc") as u8, scen_str(&s, "src")),
                );
            }
        }
        if !o.detail.is_null() && (verdict.is_violated() || report.samples.len() < 3) {
            report.sample(json!({"scenario": s, "observed": o.detail}));
        }
        let h = if o.nontrivial { Some(hash_value(&normalised(&s))) } else { None };
        report.record(&s, h, verdict);
    }
    let _ = panics_before;
    let panics = take_panics();
    if !panics.is_empty() {
        report.count("panics_in_rustrtc_tasks(info)", panics.len() as u64);
        for p in panics.iter().take(5) {
            report.note(format!("panic (not judged by C06): {} at {}", p.message, norm_location(&p.location)));
        }
    }
    let (min_v, min_nt) = match args.tier {
        Tier::Quick => (1500, 800),
        Tier::Thorough => (8000, 900),
    };
    report.finish(min_v, min_nt)
}
