//! sctp_rig – C01 (reliable ordered delivery), C12 (boundaries / channels / modes) and
//! C13 (sender wire rules). See DESIGN.md §2.1, §2.3, C01, C12, C13.
//!
//! One scenario = one rig (two real rustrtc endpoints joined by the harness wire) + one fault
//! plan + one workload. Every oracle here is a pure function over the recorded history
//! (`Outcome`): application-boundary events, the wire capture and the H2 tap logs.

use crate::common::*;
use crate::rig::{ChanSpec, Rig, RigCfg, TapEv, build_rig};
use crate::sctprd::{self, Chunk, serial_le, serial_lt};
use crate::wire::{Action, Dir, Plan, RandomPhase, Rule};
use parking_lot::Mutex;
use rustrtc::RtcConfiguration;
use rustrtc::transports::datachannel::{DataChannel, DataChannelEvent};
use serde_json::{Value, json};
use std::collections::{HashMap, HashSet};
use std::sync::Arc;
use std::sync::atomic::{AtomicBool, AtomicU64, Ordering};
use std::time::{Duration, Instant};

// ---------------------------------------------------------------- scenario

#[derive(Clone, Debug)]
struct SendSpec {
    side: char,
    ch: u16,
    sender: u8,
    n: u32,
    /// "tiny" 0..40, "small" 1..1000, "frag" around fragmentation boundaries, "big" up to 64 KiB,
    /// "huge" up to 256 KiB, "mixed"
    mode: String,
    seed: u64,
    /// microsecond pause between sends (0 = none)
    gap_us: u64,
}

#[derive(Clone, Debug)]
struct Scenario {
    kind: String,
    plan: Plan,
    chans: Vec<ChanSpec>,
    sends: Vec<SendSpec>,
    rto_ms: (u64, u64, u64),
    hb_ms: u64,
    rwnd: usize,
    max_burst: usize,
    max_cwnd: usize,
    max_buffered: usize,
    force_tsn_a: Option<u32>,
    force_tsn_b: Option<u32>,
    a_is_client: bool,
    /// ms to keep observing after everything was delivered (quiescence rule of C13)
    idle_ms: u64,
    /// messages every sender task sends after the wire has fully healed (shows that the
    /// association still works after the last fault, e.g. a late duplicate INIT)
    tail: u32,
    /// number of times the creator calls the public `send_dcep_open` again on each in-band
    /// channel after it opened (PeerConnection::create_data_channel can race the association's
    /// own OPEN the same way): the peer answers every OPEN with an ACK
    dup_open: u32,
    /// (side, channel): sender 0 of that side and channel closes the channel through the public
    /// `close_data_channel` after its last message, while the other channels keep going.  From
    /// then on the channel is "reported closed": only the prefix clause applies to it, every other
    /// channel of the association stays under the progress clause
    closes: Vec<(char, u16)>,
    label: String,
}

fn chan_json(c: &ChanSpec) -> Value {
    json!({"id": c.id, "ordered": c.ordered, "rexmit": c.max_retransmits, "life_ms": c.max_lifetime_ms,
           "negotiated": c.negotiated, "creator": c.creator.to_string(), "label": c.label, "protocol": c.protocol})
}
fn chan_from(v: &Value) -> ChanSpec {
    ChanSpec {
        id: v["id"].as_u64().unwrap_or(1) as u16,
        ordered: v["ordered"].as_bool().unwrap_or(true),
        max_retransmits: v["rexmit"].as_u64().map(|x| x as u16),
        max_lifetime_ms: v["life_ms"].as_u64().map(|x| x as u16),
        negotiated: v["negotiated"].as_bool().unwrap_or(true),
        creator: v["creator"].as_str().and_then(|s| s.chars().next()).unwrap_or('a'),
        label: v["label"].as_str().unwrap_or("").to_string(),
        protocol: v["protocol"].as_str().unwrap_or("").to_string(),
    }
}

impl Scenario {
    fn to_json(&self) -> Value {
        json!({
            "kind": self.kind, "label": self.label, "plan": self.plan.to_json(),
            "chans": self.chans.iter().map(chan_json).collect::<Vec<_>>(),
            "sends": self.sends.iter().map(|s| json!({"side": s.side.to_string(), "ch": s.ch, "sender": s.sender,
                "n": s.n, "mode": s.mode, "seed": s.seed, "gap_us": s.gap_us})).collect::<Vec<_>>(),
            "rto_ms": [self.rto_ms.0, self.rto_ms.1, self.rto_ms.2], "hb_ms": self.hb_ms, "rwnd": self.rwnd,
            "max_burst": self.max_burst, "max_cwnd": self.max_cwnd, "max_buffered": self.max_buffered,
            "force_tsn_a": self.force_tsn_a, "force_tsn_b": self.force_tsn_b, "a_is_client": self.a_is_client,
            "idle_ms": self.idle_ms, "tail": self.tail, "dup_open": self.dup_open,
            "closes": self.closes.iter().map(|(s, c)| json!([s.to_string(), c])).collect::<Vec<_>>(),
        })
    }
    fn from_json(v: &Value) -> Scenario {
        Scenario {
            kind: v["kind"].as_str().unwrap_or("c01").to_string(),
            label: v["label"].as_str().unwrap_or("").to_string(),
            plan: Plan::from_json(&v["plan"]),
            chans: v["chans"].as_array().map(|a| a.iter().map(chan_from).collect()).unwrap_or_default(),
            sends: v["sends"]
                .as_array()
                .map(|a| {
                    a.iter()
                        .map(|s| SendSpec {
                            side: s["side"].as_str().and_then(|x| x.chars().next()).unwrap_or('a'),
                            ch: s["ch"].as_u64().unwrap_or(1) as u16,
                            sender: s["sender"].as_u64().unwrap_or(0) as u8,
                            n: s["n"].as_u64().unwrap_or(0) as u32,
                            mode: s["mode"].as_str().unwrap_or("small").to_string(),
                            seed: s["seed"].as_u64().unwrap_or(0),
                            gap_us: s["gap_us"].as_u64().unwrap_or(0),
                        })
                        .collect()
                })
                .unwrap_or_default(),
            rto_ms: (
                v["rto_ms"][0].as_u64().unwrap_or(150),
                v["rto_ms"][1].as_u64().unwrap_or(80),
                v["rto_ms"][2].as_u64().unwrap_or(600),
            ),
            hb_ms: v["hb_ms"].as_u64().unwrap_or(500),
            rwnd: v["rwnd"].as_u64().unwrap_or(128 * 1024) as usize,
            max_burst: v["max_burst"].as_u64().unwrap_or(0) as usize,
            max_cwnd: v["max_cwnd"].as_u64().unwrap_or(256 * 1024) as usize,
            max_buffered: v["max_buffered"].as_u64().unwrap_or(256 * 1024) as usize,
            force_tsn_a: v["force_tsn_a"].as_u64().map(|x| x as u32),
            force_tsn_b: v["force_tsn_b"].as_u64().map(|x| x as u32),
            a_is_client: v["a_is_client"].as_bool().unwrap_or(true),
            idle_ms: v["idle_ms"].as_u64().unwrap_or(0),
            tail: v["tail"].as_u64().unwrap_or(0) as u32,
            dup_open: v["dup_open"].as_u64().unwrap_or(0) as u32,
            closes: v["closes"]
                .as_array()
                .map(|a| {
                    a.iter()
                        .filter_map(|x| Some((x[0].as_str()?.chars().next()?, x[1].as_u64()? as u16)))
                        .collect()
                })
                .unwrap_or_default(),
        }
    }
    fn rtc_config(&self) -> RtcConfiguration {
        let mut c = RtcConfiguration::default();
        c.sctp_rto_initial = Duration::from_millis(self.rto_ms.0);
        c.sctp_rto_min = Duration::from_millis(self.rto_ms.1);
        c.sctp_rto_max = Duration::from_millis(self.rto_ms.2);
        c.sctp_heartbeat_interval = Duration::from_millis(self.hb_ms);
        c.sctp_max_heartbeat_failures = 1000;
        c.sctp_max_association_retransmits = 1000;
        c.sctp_receive_window = self.rwnd;
        c.sctp_max_burst = self.max_burst;
        c.sctp_max_cwnd = self.max_cwnd;
        c.sctp_max_buffered_amount = self.max_buffered;
        c
    }
}

fn default_scn(kind: &str, label: &str) -> Scenario {
    Scenario {
        kind: kind.into(),
        plan: Plan::default(),
        chans: vec![reliable_chan(1)],
        sends: vec![],
        rto_ms: (150, 80, 600),
        hb_ms: 400,
        rwnd: 128 * 1024,
        max_burst: 0,
        max_cwnd: 256 * 1024,
        max_buffered: 256 * 1024,
        force_tsn_a: None,
        force_tsn_b: None,
        a_is_client: true,
        idle_ms: 0,
        tail: 3,
        dup_open: 0,
        closes: vec![],
        label: label.into(),
    }
}

fn reliable_chan(id: u16) -> ChanSpec {
    ChanSpec {
        id,
        ordered: true,
        max_retransmits: None,
        max_lifetime_ms: None,
        negotiated: true,
        creator: 'a',
        label: format!("ch{id}"),
        protocol: String::new(),
    }
}

// ---------------------------------------------------------------- messages

const HDR: usize = 16;

fn msg_size(mode: &str, r: &mut Rng) -> usize {
    match mode {
        "tiny" => r.below(41) as usize,
        "id" => 16 + r.below(33) as usize,
        "one" => 700 + r.below(450) as usize, // always exactly one DATA chunk, never bundled with another
        "small" => 1 + r.below(1000) as usize,
        "frag" => *r.pick(&[1171usize, 1172, 1173, 1199, 1200, 1201, 2399, 2400, 2401, 3600, 4096]),
        "big" => *r.pick(&[4096usize, 9000, 16384, 40000, 65535, 65536]),
        "huge" => *r.pick(&[65536usize, 100_000, 262_144]),
        _ => match r.below(10) {
            0 => r.below(20) as usize,
            1..=5 => 16 + r.below(600) as usize,
            6 | 7 => *r.pick(&[1171usize, 1172, 1173, 1200, 1201, 2400]),
            8 => 2000 + r.below(8000) as usize,
            _ => *r.pick(&[16384usize, 65535, 65536]),
        },
    }
}

/// Deterministic message bytes for (channel, side, sender, counter, size). Messages of at least
/// HDR bytes start with a unique id + body hash, so a delivery identifies its submission.
fn make_msg(ch: u16, side: char, sender: u8, counter: u32, size: usize) -> Vec<u8> {
    let mut body_rng = Rng::new(
        ((ch as u64) << 48) ^ ((side as u64) << 40) ^ ((sender as u64) << 32) ^ counter as u64,
    );
    if size < HDR {
        // too small for an id: a deterministic pattern (may collide with another tiny message)
        let mut v = vec![0u8; size];
        for (i, b) in v.iter_mut().enumerate() {
            *b = (side as u8)
                .wrapping_add(sender.wrapping_mul(31))
                .wrapping_add((counter as u8).wrapping_mul(7))
                .wrapping_add(i as u8);
        }
        return v;
    }
    let body = body_rng.bytes(size - HDR);
    let mut v = Vec::with_capacity(size);
    v.extend_from_slice(&ch.to_be_bytes());
    v.push(side as u8);
    v.push(sender);
    v.extend_from_slice(&counter.to_be_bytes());
    v.extend_from_slice(&fnv64(&body).to_be_bytes());
    v.extend_from_slice(&body);
    v
}

// ---------------------------------------------------------------- history

#[derive(Clone, Debug)]
struct Submit {
    side: char,
    ch: u16,
    sender: u8,
    counter: u32,
    hash: u64,
    len: usize,
    call: u64,
    ret: Option<u64>,
    ok: bool,
}

#[derive(Clone, Debug)]
enum ChEv {
    Open,
    Msg { hash: u64, len: usize, stamp: u64, head: Vec<u8> },
    Close,
    End,
}

#[derive(Clone, Debug)]
struct ChanObs {
    side: char,
    id: u16,
    inband_peer: bool,
    label: String,
    protocol: String,
    ordered: bool,
    max_retransmits: Option<u16>,
    max_lifetime: Option<u16>,
    events: Vec<ChEv>,
}

struct Outcome {
    scn: Scenario,
    submits: Vec<Submit>,
    chans: Vec<ChanObs>,
    wire: Vec<crate::wire::Captured>,
    tap_a: Vec<TapEv>,
    tap_b: Vec<TapEv>,
    rules_fired: Vec<String>,
    random_faults: u64,
    heal_t_us: Option<u64>,
    end: EndReason,
    closed_a: Option<String>,
    closed_b: Option<String>,
    canary_max_lag_ms: u64,
    wall_ms: u64,
    setup_error: Option<String>,
    diag_a: String,
    diag_b: String,
}

#[derive(Clone, Debug, PartialEq)]
enum EndReason {
    Complete,
    Closed,
    StallRetry(String),
    StallQuiet(String),
    Watchdog,
    Setup,
}

struct Shared {
    clock: AtomicU64,
    submits: Mutex<Vec<Submit>>,
    chans: Mutex<Vec<ChanObs>>,
    senders_done: AtomicU64,
    main_done: AtomicU64,
    /// woken whenever a reader recorded an event (senders react to Open without polling delay)
    ev_notify: tokio::sync::Notify,
}

fn spawn_reader(sh: Arc<Shared>, idx: usize, dc: Arc<DataChannel>) -> tokio::task::JoinHandle<()> {
    tokio::spawn(async move {
        loop {
            let ev = dc.recv().await;
            let stamp = sh.clock.fetch_add(1, Ordering::SeqCst);
            let mut g = sh.chans.lock();
            if matches!(ev, Some(DataChannelEvent::Open)) {
                sh.ev_notify.notify_waiters();
            }
            match ev {
                Some(DataChannelEvent::Open) => g[idx].events.push(ChEv::Open),
                Some(DataChannelEvent::Message(b)) => g[idx].events.push(ChEv::Msg {
                    hash: fnv64(&b),
                    len: b.len(),
                    stamp,
                    head: b[..b.len().min(HDR)].to_vec(),
                }),
                Some(DataChannelEvent::Close) => g[idx].events.push(ChEv::Close),
                None => {
                    g[idx].events.push(ChEv::End);
                    return;
                }
            }
        }
    })
}

fn obs_for(side: char, dc: &DataChannel, inband_peer: bool) -> ChanObs {
    ChanObs {
        side,
        id: dc.id,
        inband_peer,
        label: dc.label.clone(),
        protocol: dc.protocol.clone(),
        ordered: dc.ordered,
        max_retransmits: dc.max_retransmits,
        max_lifetime: dc.max_packet_life_time,
        events: vec![],
    }
}

async fn run_scenario(scn: &Scenario, watchdog: Duration) -> Outcome {
    let t0 = Instant::now();
    let mut out = Outcome {
        scn: scn.clone(),
        submits: vec![],
        chans: vec![],
        wire: vec![],
        tap_a: vec![],
        tap_b: vec![],
        rules_fired: vec![],
        random_faults: 0,
        heal_t_us: None,
        end: EndReason::Setup,
        closed_a: None,
        closed_b: None,
        canary_max_lag_ms: 0,
        wall_ms: 0,
        setup_error: None,
        diag_a: String::new(),
        diag_b: String::new(),
    };
    let rig = build_rig(RigCfg {
        cfg: scn.rtc_config(),
        chans: scn.chans.clone(),
        plan: scn.plan.clone(),
        force_tsn_a: scn.force_tsn_a,
        force_tsn_b: scn.force_tsn_b,
        a_is_client: scn.a_is_client,
    })
    .await;
    let mut rig: Rig = match rig {
        Ok(r) => r,
        Err(e) => {
            out.setup_error = Some(format!("build_rig: {e}"));
            return out;
        }
    };
    let sh = Arc::new(Shared {
        clock: AtomicU64::new(1),
        submits: Mutex::new(vec![]),
        chans: Mutex::new(vec![]),
        senders_done: AtomicU64::new(0),
        main_done: AtomicU64::new(0),
        ev_notify: tokio::sync::Notify::new(),
    });
    let mut aux: Vec<tokio::task::JoinHandle<()>> = vec![];
    // readers for locally created channel objects
    for (side, ep) in [('a', &rig.a), ('b', &rig.b)] {
        for dc in &ep.channels {
            let idx = {
                let mut g = sh.chans.lock();
                g.push(obs_for(side, dc, false));
                g.len() - 1
            };
            aux.push(spawn_reader(sh.clone(), idx, dc.clone()));
        }
    }
    // readers for channels announced in-band by the peer
    let keep_alive: Arc<Mutex<Vec<Arc<DataChannel>>>> = Arc::new(Mutex::new(vec![]));
    for (side, rx) in [('a', rig.a.new_dc_rx.take()), ('b', rig.b.new_dc_rx.take())] {
        if let Some(mut rx) = rx {
            let sh2 = sh.clone();
            let keep = keep_alive.clone();
            aux.push(tokio::spawn(async move {
                while let Some(dc) = rx.recv().await {
                    let idx = {
                        let mut g = sh2.chans.lock();
                        g.push(obs_for(side, &dc, true));
                        g.len() - 1
                    };
                    keep.lock().push(dc.clone());
                    spawn_reader(sh2.clone(), idx, dc);
                }
            }));
        }
    }
    if let Err(e) = rig.wait_dtls(Duration::from_secs(20)).await {
        out.setup_error = Some(format!("{e}"));
        rig.teardown();
        for t in aux {
            t.abort();
        }
        return out;
    }

    // canary: detects scheduler starvation so that silence is attributed correctly
    let canary_lag = Arc::new(AtomicU64::new(0));
    {
        let lag = canary_lag.clone();
        aux.push(tokio::spawn(async move {
            let mut last = Instant::now();
            loop {
                tokio::time::sleep(Duration::from_millis(10)).await;
                let d = last.elapsed().as_millis() as u64;
                if d > 10 {
                    lag.fetch_max(d - 10, Ordering::Relaxed);
                }
                last = Instant::now();
            }
        }));
    }

    // sender tasks: each waits for Open on its own side's channel object, then sends in order
    let n_senders = scn.sends.len() as u64;
    let stop_send = Arc::new(AtomicBool::new(false));
    for s in scn.sends.clone() {
        let ep = if s.side == 'a' { &rig.a } else { &rig.b };
        let sctp = ep.sctp.clone();
        let sh2 = sh.clone();
        let stop = stop_send.clone();
        let keep = keep_alive.clone();
        let local: Vec<Arc<DataChannel>> = ep.channels.clone();
        let wire = rig.wire.clone();
        let closer = s.sender == 0 && scn.closes.contains(&(s.side, s.ch));
        // nothing is sent on a channel that gets closed once the main phase is over
        let tail = if scn.closes.iter().any(|(_, c)| *c == s.ch) { 0 } else { scn.tail };
        aux.push(tokio::spawn(async move {
            // wait for Open of channel s.ch on this side (local object or in-band peer object)
            let opened = loop {
                if stop.load(Ordering::SeqCst) {
                    break false;
                }
                let is_open = {
                    let g = sh2.chans.lock();
                    g.iter().any(|c| {
                        c.side == s.side
                            && c.id == s.ch
                            && c.events.iter().any(|e| matches!(e, ChEv::Open))
                    })
                };
                if is_open {
                    break true;
                }
                tokio::select! {
                    _ = sh2.ev_notify.notified() => {}
                    _ = tokio::time::sleep(Duration::from_millis(2)) => {}
                }
            };
            let _ = (&local, &keep);
            let mut failed = !opened;
            let mut r = Rng::new(s.seed);
            let mut counter = 0u32;
            for phase in 0..2 {
                let count = if phase == 0 { s.n } else { tail };
                if phase == 1 {
                    if closer && !failed {
                        let r = sctp.close_data_channel(s.ch).await;
                        if std::env::var("RTCMON_DEBUG").is_ok() {
                            eprintln!("close_data_channel side={} ch={} -> {:?}", s.side, s.ch, r.is_ok());
                        }
                    }
                    sh2.main_done.fetch_add(1, Ordering::SeqCst);
                    // tail messages go out only after the wire has fully healed
                    while wire.heal_time().is_none() && !stop.load(Ordering::SeqCst) {
                        tokio::time::sleep(Duration::from_millis(5)).await;
                    }
                }
                for _ in 0..count {
                    if failed || stop.load(Ordering::SeqCst) {
                        break;
                    }
                    let size = if phase == 0 { msg_size(&s.mode, &mut r) } else { 64 + r.below(200) as usize };
                    let m = make_msg(s.ch, s.side, s.sender, counter, size);
                    let call = sh2.clock.fetch_add(1, Ordering::SeqCst);
                    let slot = {
                        let mut g = sh2.submits.lock();
                        g.push(Submit {
                            side: s.side,
                            ch: s.ch,
                            sender: s.sender,
                            counter,
                            hash: fnv64(&m),
                            len: m.len(),
                            call,
                            ret: None,
                            ok: false,
                        });
                        g.len() - 1
                    };
                    let res = sctp.send_data(s.ch, &m).await;
                    let ret = sh2.clock.fetch_add(1, Ordering::SeqCst);
                    {
                        let mut g = sh2.submits.lock();
                        g[slot].ret = Some(ret);
                        g[slot].ok = res.is_ok();
                    }
                    counter += 1;
                    if let Err(e) = &res {
                        if std::env::var("RTCMON_DEBUG").is_ok() {
                            eprintln!("send_data error side={} ch={} counter={} size={}: {e}", s.side, s.ch, counter, size);
                        }
                        failed = true;
                        break;
                    }
                    if s.gap_us > 0 {
                        tokio::time::sleep(Duration::from_micros(s.gap_us)).await;
                    } else if counter % 8 == 7 {
                        tokio::task::yield_now().await;
                    }
                }
            }
            sh2.senders_done.fetch_add(1, Ordering::SeqCst);
        }));
    }

    // duplicate DCEP OPENs through the public API
    if scn.dup_open > 0 {
        for (side, ep) in [('a', &rig.a), ('b', &rig.b)] {
            for dc in ep.channels.iter().filter(|d| !d.negotiated) {
                let dc = dc.clone();
                let sctp = ep.sctp.clone();
                let sh2 = sh.clone();
                let n = scn.dup_open;
                let id = dc.id;
                aux.push(tokio::spawn(async move {
                    // wait until this creator-side object reported Open
                    for _ in 0..5000 {
                        let open = sh2.chans.lock().iter().any(|c| c.side == side && c.id == id && !c.inband_peer && c.events.iter().any(|e| matches!(e, ChEv::Open)));
                        if open {
                            break;
                        }
                        tokio::time::sleep(Duration::from_millis(2)).await;
                    }
                    for i in 0..n {
                        let _ = sctp.send_dcep_open(&dc).await;
                        tokio::time::sleep(Duration::from_millis(3 + 7 * i as u64)).await;
                    }
                }));
            }
        }
    }

    // ------------------------------------------------ supervision loop
    let all_reliable = scn.chans.iter().all(|c| c.reliable());
    let rto_max = Duration::from_millis(scn.rto_ms.2.max(scn.hb_ms));
    let mut senders_done_at: Option<Instant> = None;
    let mut complete_at: Option<Instant> = None;
    let mut last_progress = Instant::now();
    let mut last_delivered = 0usize;
    let end;
    loop {
        tokio::time::sleep(Duration::from_millis(15)).await;
        // the watchdog comes first: no branch below may keep a scenario alive beyond it
        if t0.elapsed() > watchdog {
            end = EndReason::Watchdog;
            break;
        }
        let done = sh.senders_done.load(Ordering::SeqCst) == n_senders;
        let main_done = sh.main_done.load(Ordering::SeqCst) == n_senders;
        if main_done && senders_done_at.is_none() {
            senders_done_at = Some(Instant::now());
        }
        // give enumerated rules a chance to fire, then stop faulting
        if let Some(t) = senders_done_at {
            if !rig.wire.is_healed() && t.elapsed() > Duration::from_millis(1200) {
                rig.wire.heal();
            }
        }
        // senders blocked in send_data while the wire carries nothing but heartbeats: stop faulting
        // too, so that a stall can be told apart from a fault that is still pending
        if !rig.wire.is_healed()
            && quiet_duration(&rig) > Duration::from_secs(2)
            && last_progress.elapsed() > Duration::from_secs(2)
        {
            rig.wire.heal();
        }
        // nothing has been delivered or announced for a while although packets keep flowing (e.g. a
        // chunk retransmitted over and over): stop faulting as well, so that the witnesses can decide
        if !rig.wire.is_healed() && last_progress.elapsed() > Duration::from_secs(4) {
            rig.wire.heal();
        }
        let closed = rig.a.sctp.close_reason().is_some()
            || rig.b.sctp.close_reason().is_some()
            || sh.chans.lock().iter().any(|c| {
                !scn.closes.iter().any(|(_, id)| *id == c.id)
                    && c.events
                        .iter()
                        .any(|e| matches!(e, ChEv::Close | ChEv::End))
            });
        if closed {
            end = EndReason::Closed;
            break;
        }
        // completion: every Ok submission on a reliable channel was delivered (count-based here;
        // the oracle does the exact matching afterwards)
        let (want, got) = {
            let subs = sh.submits.lock();
            let ch = sh.chans.lock();
            let mut want = 0usize;
            let mut got = 0usize;
            for c in &scn.chans {
                if !c.reliable() || scn.closes.iter().any(|(_, id)| *id == c.id) {
                    continue;
                }
                for side in ['a', 'b'] {
                    want += subs
                        .iter()
                        .filter(|s| s.side == side && s.ch == c.id && s.ok)
                        .count();
                    let peer = if side == 'a' { 'b' } else { 'a' };
                    got += ch
                        .iter()
                        .filter(|o| o.side == peer && o.id == c.id)
                        .map(|o| o.events.iter().filter(|e| matches!(e, ChEv::Msg { .. })).count())
                        .sum::<usize>();
                }
            }
            (want, got)
        };
        let delivered_total: usize = sh
            .chans
            .lock()
            .iter()
            .map(|o| o.events.len())
            .sum();
        if delivered_total != last_delivered {
            last_delivered = delivered_total;
            last_progress = Instant::now();
        }
        if done && got >= want && rig.wire.heal_time().is_some() {
            // reliable part complete; for PR channels wait until the wire is quiet
            let quiet_ok = if all_reliable {
                true
            } else {
                let log = rig.wire.log.lock();
                let last_data = log
                    .iter()
                    .rev()
                    .find(|c| c.sctp.as_ref().map(|p| p.has(sctprd::CT_DATA) || p.has(sctprd::CT_FORWARD_TSN)).unwrap_or(false))
                    .map(|c| c.t_us)
                    .unwrap_or(0);
                rig.wire.now_us().saturating_sub(last_data) > 1_500_000 && rig.wire.heal_time().is_some()
            };
            if quiet_ok {
                if complete_at.is_none() {
                    complete_at = Some(Instant::now());
                }
                if complete_at.unwrap().elapsed() >= Duration::from_millis(scn.idle_ms) {
                    end = EndReason::Complete;
                    break;
                }
            }
            continue;
        }
        // stall witnesses – only once the wire is fully healed and the senders have submitted all
        if let Some(heal) = rig.wire.heal_time() {
            if let Some(w) = retry_witness(&rig, heal) {
                // grace so that a SACK for the last delivery has every chance to be emitted
                tokio::time::sleep(Duration::from_millis(300)).await;
                if let Some(w2) = retry_witness(&rig, heal) {
                    let _ = w;
                    if canary_lag.load(Ordering::Relaxed) < 100 {
                        end = EndReason::StallRetry(w2);
                        break;
                    }
                }
            }
            if got < want && last_progress.elapsed() > rto_max * 10 {
                if let Some(w) = repeat_witness(&rig, heal, rto_max * 10) {
                    if canary_lag.load(Ordering::Relaxed) < 100 {
                        end = EndReason::StallRetry(format!("repeat: {w}"));
                        break;
                    }
                }
            }
            let quiet_for = quiet_duration(&rig);
            if quiet_for > rto_max * 10
                && last_progress.elapsed() > rto_max * 10
                && rig.wire.now_us().saturating_sub(heal) > (rto_max * 10).as_micros() as u64
            {
                if canary_lag.load(Ordering::Relaxed) < 100 {
                    end = EndReason::StallQuiet(format!(
                        "want={want} got={got} quiet_ms={}",
                        quiet_for.as_millis()
                    ));
                    break;
                }
            }
        }
        if t0.elapsed() > watchdog {
            end = EndReason::Watchdog;
            break;
        }
    }
    stop_send.store(true, Ordering::SeqCst);
    out.end = end;
    out.diag_a = format!("{} buffered={}", rig.a.sctp.diagnostic_info(), rig.a.sctp.buffered_amount());
    out.diag_b = format!("{} buffered={}", rig.b.sctp.diagnostic_info(), rig.b.sctp.buffered_amount());
    out.closed_a = rig.a.sctp.close_reason();
    out.closed_b = rig.b.sctp.close_reason();
    out.heal_t_us = rig.wire.heal_time();
    out.canary_max_lag_ms = canary_lag.load(Ordering::Relaxed);
    rig.teardown();
    tokio::time::sleep(Duration::from_millis(20)).await;
    for t in aux {
        t.abort();
    }
    out.submits = sh.submits.lock().clone();
    out.chans = sh.chans.lock().clone();
    out.wire = std::mem::take(&mut *rig.wire.log.lock());
    out.tap_a = std::mem::take(&mut *rig.a.tap.lock());
    out.tap_b = std::mem::take(&mut *rig.b.tap.lock());
    {
        let st = rig.wire.stats.lock();
        out.rules_fired = st.rules_fired.clone();
        out.random_faults = st.random_faults;
    }
    out.wall_ms = t0.elapsed().as_millis() as u64;
    out
}

/// how long has the wire carried nothing but heartbeats?
fn quiet_duration(rig: &Rig) -> Duration {
    let log = rig.wire.log.lock();
    let now = rig.wire.now_us();
    let last = log
        .iter()
        .rev()
        .find(|c| match &c.sctp {
            Some(p) => p
                .chunks
                .iter()
                .any(|k| !matches!(k.ctype(), sctprd::CT_HEARTBEAT | sctprd::CT_HEARTBEAT_ACK)),
            None => true,
        })
        .map(|c| c.t_us)
        .unwrap_or(0);
    Duration::from_micros(now.saturating_sub(last))
}

/// Retry witness (DESIGN.md §2.3): after the heal, the lowest outstanding TSN y of a sender was
/// delivered to the receiver K=4 times, yet no SACK the receiver emitted after the heal
/// acknowledges y.
fn retry_witness(rig: &Rig, heal: u64) -> Option<String> {
    let log = rig.wire.log.lock();
    for dir in [Dir::A2B, Dir::B2A] {
        // lowest TSN among DATA emitted after the heal
        let mut y: Option<u32> = None;
        for c in log.iter().filter(|c| c.dir == dir && c.t_us >= heal) {
            if let Some(p) = &c.sctp {
                for d in p.data() {
                    y = Some(match y {
                        None => d.tsn,
                        Some(cur) => {
                            if serial_lt(d.tsn, cur) {
                                d.tsn
                            } else {
                                cur
                            }
                        }
                    });
                }
            }
        }
        let Some(y) = y else { continue };
        let mut deliveries: Vec<u64> = vec![];
        for c in log.iter().filter(|c| c.dir == dir) {
            if let Some(p) = &c.sctp {
                if p.data().any(|d| d.tsn == y) {
                    deliveries.extend(c.deliveries.iter().filter(|t| **t >= heal));
                }
            }
        }
        deliveries.sort();
        if deliveries.len() < 4 {
            continue;
        }
        let t4 = deliveries[3];
        let acked = log.iter().any(|c| {
            c.dir == dir.rev()
                && c.t_us >= heal
                && c.sctp
                    .as_ref()
                    .map(|p| p.sacks().any(|s| s.covers(y) ))
                    .unwrap_or(false)
        });
        if !acked {
            return Some(format!(
                "dir={} tsn={} delivered_after_heal={} (4th at {} us) never acknowledged after heal",
                dir.name(),
                y,
                deliveries.len(),
                t4
            ));
        }
    }
    None
}

/// Repeat witness: after the heal the association keeps exchanging packets - DATA of one direction
/// was handed to the receiver at least 8 times and at least 8 SACKs came back and were handed to
/// the sender, over a span of at least `span` - yet every one of those SACKs reports the same
/// cumulative TSN and the same gap blocks.  On a network that delivers everything, a sender that
/// still owes data and whose acknowledgement state does not move through that many round trips
/// is not going to complete (it retransmits something the receiver does not lack).
fn repeat_witness(rig: &Rig, heal: u64, span: Duration) -> Option<String> {
    let log = rig.wire.log.lock();
    for dir in [Dir::A2B, Dir::B2A] {
        let mut sacks: Vec<(u64, u32, Vec<(u16, u16)>)> = vec![];
        for c in log.iter().filter(|c| c.dir == dir.rev()) {
            if let Some(p) = &c.sctp {
                for s in p.sacks() {
                    for t in c.deliveries.iter().filter(|t| **t >= heal) {
                        sacks.push((*t, s.cum_tsn, s.gaps.clone()));
                    }
                }
            }
        }
        sacks.sort_by_key(|x| x.0);
        // the longest suffix of identical acknowledgement states
        let Some(last) = sacks.last().cloned() else { continue };
        let tail: Vec<&(u64, u32, Vec<(u16, u16)>)> = sacks.iter().rev().take_while(|s| s.1 == last.1 && s.2 == last.2).collect();
        if tail.len() < 8 {
            continue;
        }
        let t_first = tail.last().map(|s| s.0).unwrap_or(0);
        let t_last = last.0;
        if t_last.saturating_sub(t_first) < span.as_micros() as u64 {
            continue;
        }
        let mut data_deliveries = 0usize;
        for c in log.iter().filter(|c| c.dir == dir) {
            if let Some(p) = &c.sctp {
                if p.data().next().is_some() {
                    data_deliveries += c.deliveries.iter().filter(|t| **t >= t_first && **t <= t_last).count();
                }
            }
        }
        if data_deliveries < 8 {
            continue;
        }
        return Some(format!(
            "dir={} {} SACKs over {} ms after the heal all report cum={} gaps={:?}; {} DATA datagrams were delivered meanwhile",
            dir.name(),
            tail.len(),
            (t_last - t_first) / 1000,
            last.1,
            last.2,
            data_deliveries
        ));
    }
    None
}

// ---------------------------------------------------------------- oracles

fn plan_key(o: &Outcome) -> String {
    o.scn.plan.signature()
}

fn wire_excerpt(o: &Outcome, max: usize) -> Vec<Value> {
    let mut v = vec![];
    for c in o.wire.iter().filter(|c| c.sctp.is_some()).take(max) {
        v.push(json!({"t_us": c.t_us, "dir": c.dir.name(), "pkt": c.sctp.as_ref().map(|p| p.summary()),
                      "fault": c.fault, "deliveries": c.deliveries.len()}));
    }
    v
}

/// messages delivered on (receiver side, channel), in delivery order
fn delivered(o: &Outcome, recv_side: char, ch: u16) -> Vec<(u64, usize, u64, Vec<u8>)> {
    let mut v = vec![];
    for c in o.chans.iter().filter(|c| c.side == recv_side && c.id == ch) {
        for e in &c.events {
            if let ChEv::Msg { hash, len, stamp, head } = e {
                v.push((*hash, *len, *stamp, head.clone()));
            }
        }
    }
    v.sort_by_key(|x| x.2);
    v
}

/// Safety clauses shared by C01 (reliable ordered) and C12 (all channel types).
/// Returns violations as (key, what, witness).
fn check_channel_dir(
    o: &Outcome,
    spec: &ChanSpec,
    send_side: char,
    strict_prefix: bool,
) -> Vec<(String, String, Value)> {
    let mut viol = vec![];
    let recv_side = if send_side == 'a' { 'b' } else { 'a' };
    let subs: Vec<&Submit> = o
        .submits
        .iter()
        .filter(|s| s.side == send_side && s.ch == spec.id)
        .collect();
    let dels = delivered(o, recv_side, spec.id);
    let ctx = |extra: Value| {
        json!({"channel": spec.id, "dir": format!("{send_side}->{recv_side}"), "detail": extra,
               "submitted": subs.len(), "delivered": dels.len(), "plan": o.scn.plan.to_json(),
               "rules_fired": o.rules_fired, "end": format!("{:?}", o.end)})
    };
    // index submissions by content hash
    let mut by_hash: HashMap<u64, Vec<usize>> = HashMap::new();
    for (i, s) in subs.iter().enumerate() {
        by_hash.entry(s.hash).or_default().push(i);
    }
    let mut used: HashMap<u64, usize> = HashMap::new();
    let mut matched: Vec<Option<usize>> = vec![]; // submission index per delivery (unique-hash only)
    for (di, (h, len, _stamp, head)) in dels.iter().enumerate() {
        match by_hash.get(h) {
            None => {
                // not equal to any submitted message: classify
                let kind = if subs.iter().any(|s| s.len > *len && s.len >= HDR && head.len() >= HDR && {
                    let m = make_msg(s.ch, s.side, s.sender, s.counter, s.len);
                    m[..HDR] == head[..HDR.min(head.len())]
                }) {
                    "truncated_or_split"
                } else if *len >= HDR && head.len() >= HDR && subs.iter().any(|s| {
                    s.len >= HDR && s.len < *len && {
                        let m = make_msg(s.ch, s.side, s.sender, s.counter, s.len);
                        m[..HDR] == head[..HDR]
                    }
                }) {
                    "merged"
                } else {
                    "fabricated_or_altered"
                };
                viol.push((
                    format!("safety:{kind}"),
                    format!(
                        "channel {} {}->{}: delivery #{di} ({} bytes) equals no submitted message ({kind})",
                        spec.id, send_side, recv_side, len
                    ),
                    ctx(json!({"delivery_index": di, "len": len, "head": hex(head)})),
                ));
                matched.push(None);
            }
            Some(cands) => {
                let u = used.entry(*h).or_insert(0);
                if *u >= cands.len() {
                    viol.push((
                        "safety:duplicate".into(),
                        format!(
                            "channel {} {}->{}: message delivered more often than submitted (delivery #{di}, submission #{})",
                            spec.id, send_side, recv_side, cands[0]
                        ),
                        ctx(json!({"delivery_index": di, "submission_index": cands[0], "len": len})),
                    ));
                    matched.push(None);
                } else {
                    let si = cands[*u];
                    *u += 1;
                    matched.push(if cands.len() == 1 { Some(si) } else { None });
                }
            }
        }
    }
    if spec.ordered {
        // per sender: unique-hash deliveries appear in increasing counter order; and with one
        // sender task the delivered sequence must follow global submission order
        let mut last_per_sender: HashMap<u8, (u32, usize)> = HashMap::new();
        for (di, m) in matched.iter().enumerate() {
            if let Some(si) = m {
                let s = subs[*si];
                if let Some((prev, pdi)) = last_per_sender.get(&s.sender) {
                    if s.counter <= *prev {
                        viol.push((
                            "safety:reordered".into(),
                            format!(
                                "ordered channel {} {}->{}: sender {} message #{} delivered (at {di}) after #{} (at {pdi})",
                                spec.id, send_side, recv_side, s.sender, s.counter, prev
                            ),
                            ctx(json!({"delivery_index": di, "counter": s.counter, "after_counter": prev})),
                        ));
                    }
                }
                last_per_sender.insert(s.sender, (s.counter, di));
            }
        }
        // real-time order across senders: x returned before y was invoked => x not after y
        let mut max_call_seen: Option<(u64, usize)> = None; // latest invocation stamp among delivered
        for (di, m) in matched.iter().enumerate() {
            if let Some(si) = m {
                let s = subs[*si];
                if let (Some(ret), Some((mc, mdi))) = (s.ret, max_call_seen) {
                    if ret < mc {
                        viol.push((
                            "safety:reordered_across_senders".into(),
                            format!(
                                "ordered channel {} {}->{}: a message whose send returned before another was invoked was delivered after it (deliveries {mdi} and {di})",
                                spec.id, send_side, recv_side
                            ),
                            ctx(json!({"delivery_index": di, "earlier_delivery": mdi})),
                        ));
                    }
                }
                if max_call_seen.map(|(mc, _)| s.call > mc).unwrap_or(true) {
                    max_call_seen = Some((s.call, di));
                }
            }
        }
    }
    if strict_prefix && spec.ordered && spec.reliable() {
        // reliable + ordered: no gaps. Per sender, the delivered counters must be 0,1,2,...
        // and if x returned Ok before y was invoked and y was delivered, x was delivered before.
        let mut next: HashMap<u8, u32> = HashMap::new();
        let single_sender = subs.iter().map(|s| s.sender).collect::<HashSet<_>>().len() <= 1;
        if single_sender {
            // exact positional prefix, covers tiny (ambiguous) messages too
            for (di, (h, len, _, _)) in dels.iter().enumerate() {
                match subs.get(di) {
                    Some(s) if s.hash == *h && s.len == *len => {}
                    Some(s) => {
                        let kind = if by_hash.get(h).map(|c| c.iter().any(|i| *i > di)).unwrap_or(false) {
                            "lost"
                        } else if by_hash.contains_key(h) {
                            "duplicate_or_reordered"
                        } else {
                            "altered"
                        };
                        viol.push((
                            format!("safety:prefix_{kind}"),
                            format!(
                                "reliable ordered channel {} {}->{}: delivery #{di} differs from submission #{di} (counter {}): {kind}",
                                spec.id, send_side, recv_side, s.counter
                            ),
                            ctx(json!({"delivery_index": di, "expected_len": s.len, "got_len": len})),
                        ));
                        break;
                    }
                    None => {
                        viol.push((
                            "safety:prefix_extra".into(),
                            format!("reliable ordered channel {}: more deliveries than submissions", spec.id),
                            ctx(json!({"delivery_index": di})),
                        ));
                        break;
                    }
                }
            }
        } else {
            for (di, m) in matched.iter().enumerate() {
                if let Some(si) = m {
                    let s = subs[*si];
                    let n = next.entry(s.sender).or_insert(0);
                    // counters whose hash is ambiguous are skipped by the matcher; tolerate them
                    let skipped_ambiguous = (*n..s.counter).all(|c| {
                        subs.iter()
                            .find(|x| x.sender == s.sender && x.counter == c)
                            .map(|x| by_hash.get(&x.hash).map(|v| v.len() > 1).unwrap_or(false))
                            .unwrap_or(false)
                    });
                    if s.counter > *n && !skipped_ambiguous {
                        viol.push((
                            "safety:prefix_lost".into(),
                            format!(
                                "reliable ordered channel {} {}->{}: sender {} message #{} delivered (at {di}) but #{} was not delivered before it",
                                spec.id, send_side, recv_side, s.sender, s.counter, n
                            ),
                            ctx(json!({"delivery_index": di, "counter": s.counter, "missing": *n})),
                        ));
                        break;
                    }
                    *n = s.counter + 1;
                }
            }
        }
    }
    viol
}

/// C01: safety on every reliable ordered channel + bounded progress.
fn oracle_c01(o: &Outcome) -> (Verdict, bool) {
    let nontrivial = (!o.rules_fired.is_empty() || o.random_faults > 0) && saw_retransmission(o);
    if let Some(e) = &o.setup_error {
        return (Verdict::Inconclusive(format!("setup: {e}")), false);
    }
    for spec in o.scn.chans.iter().filter(|c| c.ordered && c.reliable()) {
        for side in ['a', 'b'] {
            let v = check_channel_dir(o, spec, side, true);
            if let Some((k, w, wit)) = v.into_iter().next() {
                return (Verdict::violated(format!("{k}:plan={}", plan_key(o)), w, wit), nontrivial);
            }
        }
    }
    match &o.end {
        EndReason::Complete | EndReason::Closed => (Verdict::Held, nontrivial),
        EndReason::StallRetry(w) | EndReason::StallQuiet(w) => {
            let form = if matches!(o.end, EndReason::StallRetry(_)) { "retry" } else { "quiet" };
            (
                Verdict::violated(
                    format!("stall:{form}:plan={}", plan_key(o)),
                    format!("after the network healed and with neither side closed, delivery never completed ({form} witness: {w})"),
                    json!({"witness": w, "plan": o.scn.plan.to_json(), "rules_fired": o.rules_fired,
                           "random_faults": o.random_faults, "heal_t_us": o.heal_t_us,
                           "canary_max_lag_ms": o.canary_max_lag_ms, "diag_a": o.diag_a, "diag_b": o.diag_b,
                           "missing": missing_submissions(o),
                           "last_a_rwnd_handed_to_a": o.tap_a.iter().rev().find_map(|e| if !e.tx { e.pkt.sacks().next().map(|s| s.a_rwnd) } else { None }),
                           "last_a_rwnd_handed_to_b": o.tap_b.iter().rev().find_map(|e| if !e.tx { e.pkt.sacks().next().map(|s| s.a_rwnd) } else { None }),
                           "data_wire_tail": data_wire_tail(o),
                           "tap_tail_a": o.tap_a.iter().rev().take(14).rev().map(|e| format!("{} {} {}", e.t_us, if e.tx {"TX"} else {"RX"}, e.pkt.summary().chars().take(140).collect::<String>())).collect::<Vec<_>>(),
                           "tap_tail_b": o.tap_b.iter().rev().take(14).rev().map(|e| format!("{} {} {}", e.t_us, if e.tx {"TX"} else {"RX"}, e.pkt.summary().chars().take(140).collect::<String>())).collect::<Vec<_>>(),
                           "submitted": o.submits.len(),
                           "delivered": o.chans.iter().map(|c| c.events.iter().filter(|e| matches!(e, ChEv::Msg{..})).count()).sum::<usize>(),
                           "wire_head": wire_excerpt(o, 40)}),
                ),
                nontrivial,
            )
        }
        EndReason::Watchdog => (
            Verdict::Inconclusive(format!(
                "watchdog without stall witness (label={}, canary_lag={}ms)",
                o.scn.label, o.canary_max_lag_ms
            )),
            nontrivial,
        ),
        EndReason::Setup => (Verdict::Inconclusive("setup".into()), false),
    }
}

fn missing_submissions(o: &Outcome) -> Vec<String> {
    let mut got: HashSet<u64> = HashSet::new();
    for c in &o.chans {
        for e in &c.events {
            if let ChEv::Msg { hash, .. } = e {
                got.insert(*hash);
            }
        }
    }
    o.submits
        .iter()
        .filter(|s| s.ok && !got.contains(&s.hash))
        .take(12)
        .map(|s| format!("{}:ch{}:snd{}:#{}:{}B", s.side, s.ch, s.sender, s.counter, s.len))
        .collect()
}

fn data_wire_tail(o: &Outcome) -> Vec<String> {
    let v: Vec<&crate::wire::Captured> = o
        .wire
        .iter()
        .filter(|c| c.sctp.as_ref().map(|p| p.has(sctprd::CT_DATA)).unwrap_or(false))
        .collect();
    v.iter()
        .skip(v.len().saturating_sub(10))
        .map(|c| {
            format!(
                "{} {} {} fault={:?} deliveries={}",
                c.t_us,
                c.dir.name(),
                c.sctp.as_ref().map(|p| p.summary()).unwrap_or_default().chars().take(150).collect::<String>(),
                c.fault,
                c.deliveries.len()
            )
        })
        .collect()
}

fn saw_retransmission(o: &Outcome) -> bool {
    let mut seen: HashSet<(Dir, u32)> = HashSet::new();
    let mut setup: HashMap<(Dir, u8), u32> = HashMap::new();
    for c in &o.wire {
        if let Some(p) = &c.sctp {
            for k in &p.chunks {
                match k {
                    Chunk::Data(d) => {
                        if !seen.insert((c.dir, d.tsn)) {
                            return true;
                        }
                    }
                    other => {
                        let t = other.ctype();
                        if matches!(t, sctprd::CT_INIT | sctprd::CT_INIT_ACK | sctprd::CT_COOKIE_ECHO | sctprd::CT_COOKIE_ACK) {
                            let e = setup.entry((c.dir, t)).or_insert(0);
                            *e += 1;
                            if *e > 1 {
                                return true;
                            }
                        }
                    }
                }
            }
        }
    }
    false
}

/// C12: every channel type – identity of messages, order on ordered channels, event grammar,
/// in-band parameters.
fn oracle_c12(o: &Outcome) -> (Verdict, bool) {
    if let Some(e) = &o.setup_error {
        return (Verdict::Inconclusive(format!("setup: {e}")), false);
    }
    let frag = o.submits.iter().any(|s| s.len > 1200);
    let multi = o.scn.chans.len() >= 2 || o.scn.sends.len() >= 3;
    let nontrivial = multi && frag && (!o.rules_fired.is_empty() || o.random_faults > 0);
    for spec in &o.scn.chans {
        for side in ['a', 'b'] {
            let v = check_channel_dir(o, spec, side, true);
            if let Some((k, w, wit)) = v.into_iter().next() {
                let class = format!(
                    "{}{}",
                    if spec.ordered { "ordered" } else { "unordered" },
                    if spec.reliable() { ",reliable" } else { ",partial" }
                );
                return (
                    Verdict::violated(format!("{k}:chan={class}:plan={}", plan_key(o)), w, wit),
                    nontrivial,
                );
            }
        }
    }
    // cross-channel: a delivery whose header names another channel / direction
    for c in &o.chans {
        for e in &c.events {
            if let ChEv::Msg { head, len, .. } = e {
                if *len >= HDR && head.len() >= 3 {
                    let ch = u16::from_be_bytes([head[0], head[1]]);
                    let side = head[2] as char;
                    if ch != c.id || side == c.side {
                        return (
                            Verdict::violated(
                                format!("safety:cross_channel:plan={}", plan_key(o)),
                                format!("message submitted on channel {ch} by side {side} delivered on channel {} of side {}", c.id, c.side),
                                json!({"plan": o.scn.plan.to_json()}),
                            ),
                            nontrivial,
                        );
                    }
                }
            }
        }
    }
    // event grammar per channel object: Open^1 (Message)* Close^{<=1} End^{<=1}, nothing after Close
    for c in &o.chans {
        let mut opens = 0;
        let mut closes = 0;
        let mut after_close = false;
        let mut msg_before_open = false;
        for e in &c.events {
            match e {
                ChEv::Open => {
                    opens += 1;
                    if closes > 0 {
                        after_close = true;
                    }
                }
                ChEv::Msg { .. } => {
                    if opens == 0 {
                        msg_before_open = true;
                    }
                    // a message behind Close is not excluded by the statement ("Close at most
                    // once"): not judged
                }
                ChEv::Close => closes += 1,
                ChEv::End => {}
            }
        }
        let has_traffic = c.events.iter().any(|e| matches!(e, ChEv::Msg { .. }));
        let mut bad: Option<(&str, String)> = None;
        if opens > 1 {
            bad = Some(("open_twice", format!("channel {} on side {} announced Open {opens} times", c.id, c.side)));
        } else if msg_before_open && has_traffic {
            bad = Some(("message_before_open", format!("channel {} on side {} delivered a message before Open", c.id, c.side)));
        } else if closes > 1 {
            bad = Some(("close_twice", format!("channel {} on side {} announced Close {closes} times", c.id, c.side)));
        } else if after_close {
            bad = Some(("event_after_close", format!("channel {} on side {} delivered an event after Close", c.id, c.side)));
        }
        if let Some((k, w)) = bad {
            let evs: Vec<String> = c.events.iter().take(12).map(|e| match e {
                ChEv::Open => "Open".to_string(),
                ChEv::Msg { len, .. } => format!("Msg({len})"),
                ChEv::Close => "Close".to_string(),
                ChEv::End => "End".to_string(),
            }).collect();
            return (
                Verdict::violated(
                    format!("grammar:{k}:plan={}", plan_key(o)),
                    w,
                    json!({"events_head": evs, "plan": o.scn.plan.to_json(), "rules_fired": o.rules_fired,
                           "inband_peer_object": c.inband_peer}),
                ),
                nontrivial,
            );
        }
    }
    // in-band channels appear at the peer with the creator's parameters
    for c in o.chans.iter().filter(|c| c.inband_peer) {
        if let Some(spec) = o.scn.chans.iter().find(|s| s.id == c.id && !s.negotiated) {
            let same = spec.label == c.label
                && spec.protocol == c.protocol
                && spec.ordered == c.ordered
                && spec.max_retransmits == c.max_retransmits
                && spec.max_lifetime_ms == c.max_lifetime;
            if !same {
                return (
                    Verdict::violated(
                        "inband:parameters_differ",
                        format!(
                            "in-band channel {} announced at the peer as label={:?} protocol={:?} ordered={} rexmit={:?} life={:?}, created as label={:?} protocol={:?} ordered={} rexmit={:?} life={:?}",
                            c.id, c.label, c.protocol, c.ordered, c.max_retransmits, c.max_lifetime,
                            spec.label, spec.protocol, spec.ordered, spec.max_retransmits, spec.max_lifetime_ms
                        ),
                        json!({"spec": chan_json(spec)}),
                    ),
                    nontrivial,
                );
            }
        }
    }
    // an in-band channel that carried traffic must have appeared at the peer exactly once
    for spec in o.scn.chans.iter().filter(|s| !s.negotiated) {
        let n = o.chans.iter().filter(|c| c.inband_peer && c.id == spec.id).count();
        if n > 1 {
            return (
                Verdict::violated(
                    format!("inband:announced_twice:plan={}", plan_key(o)),
                    format!("in-band channel {} was announced {n} times at the peer", spec.id),
                    json!({"plan": o.scn.plan.to_json(), "rules_fired": o.rules_fired}),
                ),
                nontrivial,
            );
        }
    }
    // "a channel opened in-band appears at the peer": when the run ended with a stall witness (the
    // healed network handed the same chunk to the peer over and over) and an in-band channel whose
    // creator announced Open... never showed up at the peer at all, the OPEN was not acted on
    if matches!(o.end, EndReason::StallRetry(_) | EndReason::StallQuiet(_)) {
        for spec in o.scn.chans.iter().filter(|s| !s.negotiated) {
            let appeared = o.chans.iter().any(|c| c.inband_peer && c.id == spec.id);
            if !appeared {
                return (
                    Verdict::violated(
                        format!("inband:never_appeared:label_len={},protocol_len={}:plan={}", spec.label.len().min(256), spec.protocol.len().min(256), plan_key(o)),
                        format!("in-band channel {} (label {:?}, protocol {:?}) never appeared at the peer although the healed network kept delivering (stall witness: {:?})", spec.id, spec.label.chars().take(24).collect::<String>(), spec.protocol, o.end),
                        json!({"spec": chan_json(spec), "plan": o.scn.plan.to_json(), "rules_fired": o.rules_fired, "end": format!("{:?}", o.end)}),
                    ),
                    nontrivial,
                );
            }
        }
    }
    match &o.end {
        EndReason::Complete | EndReason::Closed => (Verdict::Held, nontrivial),
        // C12 has no progress clause (that is C01's): the safety clauses above were evaluated on
        // the history up to the stall
        EndReason::StallRetry(_) | EndReason::StallQuiet(_) => (Verdict::Held, nontrivial),
        EndReason::Watchdog => (Verdict::Inconclusive("watchdog".into()), nontrivial),
        EndReason::Setup => (Verdict::Inconclusive("setup".into()), false),
    }
}

/// C13: wire rules from the capture + causal rules from one endpoint's tap log.
fn oracle_c13(o: &Outcome) -> (Verdict, bool, Vec<(String, u64)>) {
    let mut counters: Vec<(String, u64)> = vec![];
    if let Some(e) = &o.setup_error {
        return (Verdict::Inconclusive(format!("setup: {e}")), false, counters);
    }
    let mut nontrivial = false;
    let all_reliable = o.scn.chans.iter().all(|c| c.reliable());
    // ---------- capture rules: size, CRC, tag, consecutive TSNs
    for dir in [Dir::A2B, Dir::B2A] {
        let mut seen: HashSet<u32> = HashSet::new();
        let mut pkts = 0u64;
        for c in o.wire.iter() {
            if c.dir != dir {
                continue;
            }
            let Some(p) = &c.sctp else { continue };
            pkts += 1;
            if p.len > 1200 {
                return (
                    Verdict::violated(
                        "wire:packet_too_big",
                        format!("SCTP packet of {} bytes on the wire (limit 1200): {}", p.len, p.summary()),
                        json!({"len": p.len, "pkt": p.summary()}),
                    ),
                    nontrivial,
                    counters,
                );
            }
            if !p.checksum_ok {
                return (
                    Verdict::violated(
                        "wire:bad_crc32c",
                        format!("SCTP packet with wrong CRC32c: {}", p.summary()),
                        json!({"pkt": p.summary()}),
                    ),
                    nontrivial,
                    counters,
                );
            }
            if !p.well_formed {
                return (
                    Verdict::violated(
                        "wire:malformed_packet",
                        format!("SCTP packet whose chunk lengths/padding do not add up: {}", p.summary()),
                        json!({"pkt": p.summary(), "len": p.len}),
                    ),
                    nontrivial,
                    counters,
                );
            }
            for d in p.data() {
                if !seen.insert(d.tsn) {
                    nontrivial = true; // a retransmission was observed
                }
            }
        }
        counters.push((format!("wire_packets_{}", dir.name()), pkts));
    }
    // ---------- causal rules from the tap of each endpoint (exact processing order)
    for (side, tap) in [('a', &o.tap_a), ('b', &o.tap_b)] {
        let mut r_window: Option<u32> = None; // a_rwnd of the last SACK / INIT / INIT-ACK handed in
        let mut epoch_new: usize = 0; // DATA bytes (new + retransmitted) emitted in the current epoch
        let mut prev_data_was_rtx = false;
        let mut last_rtx_tsn: Option<u32> = None;
        let mut sent: HashSet<u32> = HashSet::new();
        let mut cum: Option<u32> = None;
        let mut gap_acked: HashSet<u32> = HashSet::new();
        let mut highest_sent: Option<u32> = None;
        let mut pr_boundary = false;
        // quiescence tracking
        let mut all_acked_since: Option<usize> = None; // tap index at which everything sent was acked
        let submit_done_stamp = o.submits.iter().filter(|s| s.side == side).count();
        let _ = submit_done_stamp;
        let mut rx_since_last_tx: Vec<u8> = vec![];
        let mut min_rwnd_seen: u32 = u32::MAX;
        let mut peer_tag: Option<u32> = None; // initiate tag of the last INIT / INIT-ACK handed in
        let mut next_new_tsn: Option<u32> = None;
        // SACKs emitted since the last DATA / FORWARD-TSN was handed in. A receiver legitimately
        // answers one batch of DATA with an immediate SACK, a delayed SACK and a duplicate report;
        // a sender that keeps emitting SACKs with nothing handed in is not quiescent.
        let mut sacks_since_data_rx: u32 = 0;
        for (i, ev) in tap.iter().enumerate() {
            if !ev.tx {
                for k in &ev.pkt.chunks {
                    rx_since_last_tx.push(k.ctype());
                    if matches!(k.ctype(), sctprd::CT_DATA | sctprd::CT_FORWARD_TSN) {
                        sacks_since_data_rx = 0;
                    }
                    match k {
                        Chunk::Init(x) | Chunk::InitAck(x) => {
                            r_window = Some(x.a_rwnd);
                            epoch_new = 0;
                            peer_tag = Some(x.initiate_tag);
                        }
                        Chunk::Sack(s) => {
                            // stale SACKs (cum behind what we already know) still update peer_rwnd in
                            // rustrtc only if accepted; be conservative: a stale SACK never *lowers*
                            // the bound the monitor enforces
                            let stale = cum.map(|c| serial_lt(s.cum_tsn, c)).unwrap_or(false);
                            if stale {
                                r_window = Some(r_window.unwrap_or(0).max(s.a_rwnd));
                            } else {
                                r_window = Some(s.a_rwnd);
                            }
                            min_rwnd_seen = min_rwnd_seen.min(s.a_rwnd);
                            epoch_new = 0;
                            prev_data_was_rtx = false;
                            if cum.map(|c| serial_lt(c, s.cum_tsn)).unwrap_or(true) {
                                cum = Some(s.cum_tsn);
                            }
                            // RFC 4960 6.2.1: a SACK whose cumulative TSN is behind the sender's
                            // cumulative ack point is an out-of-order SACK and is dropped as a whole -
                            // its gap blocks then never reach the sender's bookkeeping
                            if !stale {
                                for (gs, ge) in &s.gaps {
                                    for off in *gs..=*ge {
                                        gap_acked.insert(s.cum_tsn.wrapping_add(off as u32));
                                    }
                                }
                            }
                        }
                        _ => {}
                    }
                }
                // everything sent acknowledged?
                if let (Some(h), Some(c)) = (highest_sent, cum) {
                    if serial_le(h, c) {
                        if all_acked_since.is_none() {
                            all_acked_since = Some(i);
                        }
                    }
                }
                continue;
            }
            if ev.raw_len > 1200 {
                return (
                    Verdict::violated(
                        "tap:packet_too_big",
                        format!("side {side} emitted an SCTP packet of {} bytes (limit 1200): {}", ev.raw_len, ev.pkt.summary().chars().take(200).collect::<String>()),
                        json!({"len": ev.raw_len, "tap_index": i}),
                    ),
                    true,
                    counters,
                );
            }
            // TX: verification tag = the tag the peer announced to THIS endpoint (0 only on INIT)
            if ev.pkt.has(sctprd::CT_INIT) {
                if ev.pkt.vtag != 0 {
                    return (
                        Verdict::violated("tap:init_tag_nonzero", format!("side {side} sent INIT with verification tag {:08x}", ev.pkt.vtag), json!({"tap_index": i})),
                        true,
                        counters,
                    );
                }
            } else if Some(ev.pkt.vtag) != peer_tag {
                return (
                    Verdict::violated(
                        format!("tap:wrong_verification_tag:{}", ev.pkt.chunks.first().map(|c| c.name()).unwrap_or("empty")),
                        format!("side {side} emitted a packet with tag {:08x} while the tag the peer announced to it is {:?}: {}", ev.pkt.vtag, peer_tag.map(|t| format!("{t:08x}")), ev.pkt.summary()),
                        json!({"tap_index": i, "vtag": ev.pkt.vtag, "peer_tag": peer_tag, "pkt": ev.pkt.summary(), "plan": o.scn.plan.to_json()}),
                    ),
                    true,
                    counters,
                );
            }
            if ev.pkt.has(sctprd::CT_SACK) {
                sacks_since_data_rx += 1;
            }
            let mut has_new_data = false;
            for k in &ev.pkt.chunks {
                match k {
                    Chunk::Data(d) => {
                        let acked = cum.map(|c| serial_le(d.tsn, c)).unwrap_or(false)
                            || gap_acked.contains(&d.tsn);
                        if sent.contains(&d.tsn) {
                            // retransmission
                            if acked {
                                if std::env::var("RTCMON_DEBUG").is_ok() {
                                    for e in tap[i.saturating_sub(30)..=i].iter() {
                                        eprintln!("   tap {} {} {}", e.t_us, if e.tx { "TX" } else { "RX" }, e.pkt.summary().chars().take(170).collect::<String>());
                                    }
                                }
                                return (
                                    Verdict::violated(
                                        "tap:retransmit_after_ack",
                                        format!("side {side} retransmitted TSN {} after a SACK covering it had been handed in (cum={:?})", d.tsn, cum),
                                        json!({"tsn": d.tsn, "cum": cum, "tap_index": i, "plan": o.scn.plan.to_json(),
                                               "tap_before": tap[i.saturating_sub(24)..=i].iter().map(|e| format!("{} {} {}", e.t_us, if e.tx { "TX" } else { "RX" }, e.pkt.summary().chars().take(160).collect::<String>())).collect::<Vec<_>>()}),
                                    ),
                                    true,
                                    counters,
                                );
                            }
                            // A retransmission burst (T3 collapse / fast retransmit / probe) re-bases the
                            // flight accounting: start a new epoch at its FIRST chunk, but count the
                            // retransmitted bytes themselves - they are in flight again, so new data sent
                            // behind them must still fit into the advertised window together with them.
                            // (a burst retransmits in increasing TSN order; a TSN that does not increase
                            // starts the next burst, e.g. the following T3 round)
                            let continues_burst = prev_data_was_rtx
                                && last_rtx_tsn.map(|t| serial_lt(t, d.tsn)).unwrap_or(false);
                            if !continues_burst {
                                epoch_new = 0;
                            }
                            epoch_new += d.payload_len;
                            prev_data_was_rtx = true;
                            last_rtx_tsn = Some(d.tsn);
                            nontrivial = true;
                        } else {
                            prev_data_was_rtx = false;
                            if let Some(n) = next_new_tsn {
                                if d.tsn != n {
                                    return (
                                        Verdict::violated(
                                            "tap:new_tsn_not_consecutive",
                                            format!("side {side}: new DATA chunk carries TSN {} but the previous new TSN was {}", d.tsn, n.wrapping_sub(1)),
                                            json!({"tsn": d.tsn, "expected": n, "tap_index": i}),
                                        ),
                                        true,
                                        counters,
                                    );
                                }
                            }
                            next_new_tsn = Some(d.tsn.wrapping_add(1));
                            sent.insert(d.tsn);
                            has_new_data = true;
                            if highest_sent.map(|h| serial_lt(h, d.tsn)).unwrap_or(true) {
                                highest_sent = Some(d.tsn);
                            }
                            all_acked_since = None;
                            epoch_new += d.payload_len;
                            if all_reliable && !pr_boundary {
                                if let Some(r) = r_window {
                                    if epoch_new > r as usize + 1200 {
                                        return (
                                            Verdict::violated(
                                                "tap:window_overrun",
                                                format!("side {side} put {epoch_new} bytes of DATA (new data plus the retransmissions emitted just before it) in flight after the peer advertised a window of {r} bytes (allowed: window + one packet)"),
                                                json!({"a_rwnd": r, "new_bytes": epoch_new, "tap_index": i, "tsn": d.tsn,
                                                       "context": tap[i.saturating_sub(16)..=i].iter().map(|e| format!("{} {} {}", e.t_us, if e.tx {"TX"} else {"RX"}, e.pkt.summary().chars().take(150).collect::<String>())).collect::<Vec<_>>(),
                                                       "cfg": {"rwnd": o.scn.rwnd, "max_burst": o.scn.max_burst, "max_cwnd": o.scn.max_cwnd}}),
                                            ),
                                            true,
                                            counters,
                                        );
                                    }
                                }
                            }
                        }
                    }
                    Chunk::ForwardTsn { .. } => {
                        epoch_new = 0;
                        pr_boundary = true;
                    }
                    _ => {}
                }
            }
            // quiescence: everything acknowledged and nothing newly submitted => only heartbeats
            // or direct replies may leave
            if let Some(since) = all_acked_since {
                if i > since && !has_new_data {
                    for k in &ev.pkt.chunks {
                        let t = k.ctype();
                        let ok = match t {
                            sctprd::CT_HEARTBEAT => true,
                            sctprd::CT_HEARTBEAT_ACK => rx_since_last_tx.contains(&sctprd::CT_HEARTBEAT),
                            // a SACK answers DATA / FORWARD-TSN handed in since the previous SACK
                            // (possibly delayed by the delayed-SACK timer)
                            sctprd::CT_SACK => sacks_since_data_rx <= 3,
                            sctprd::CT_INIT_ACK => rx_since_last_tx.contains(&sctprd::CT_INIT),
                            sctprd::CT_COOKIE_ACK => rx_since_last_tx.contains(&sctprd::CT_COOKIE_ECHO),
                            sctprd::CT_COOKIE_ECHO => rx_since_last_tx.contains(&sctprd::CT_INIT_ACK),
                            sctprd::CT_RECONFIG | sctprd::CT_SHUTDOWN_ACK | sctprd::CT_ABORT | sctprd::CT_SHUTDOWN => true,
                            sctprd::CT_FORWARD_TSN => true,
                            sctprd::CT_DATA => {
                                // a retransmission of acknowledged data is caught above; DATA here is new data
                                true
                            }
                            _ => true,
                        };
                        if !ok {
                            return (
                                Verdict::violated(
                                    format!("tap:not_quiescent:{}", sctprd::chunk_name(t)),
                                    format!("side {side} emitted {} although everything it sent was acknowledged and nothing handed in since called for it", sctprd::chunk_name(t)),
                                    json!({"tap_index": i, "pkt": ev.pkt.summary(), "all_acked_since": since,
                                           "context": tap[i.saturating_sub(14)..=i].iter().map(|e| format!("{} {} {}", e.t_us, if e.tx {"TX"} else {"RX"}, e.pkt.summary())).collect::<Vec<_>>()}),
                                ),
                                true,
                                counters,
                            );
                        }
                    }
                }
            }
            rx_since_last_tx.clear();
        }
        if min_rwnd_seen < 1200 {
            nontrivial = true;
        }
        counters.push((format!("tap_events_{side}"), tap.len() as u64));
        if min_rwnd_seen < 1200 {
            counters.push(("endpoints_that_saw_a_rwnd_below_1200".to_string(), 1));
        }
        if min_rwnd_seen == 0 {
            counters.push(("endpoints_that_saw_a_rwnd_zero".to_string(), 1));
        }
    }
    if o.scn.idle_ms >= 3 * o.scn.hb_ms && o.end == EndReason::Complete {
        nontrivial = true;
    }
    match &o.end {
        EndReason::Setup => (Verdict::Inconclusive("setup".into()), false, counters),
        _ => (Verdict::Held, nontrivial, counters),
    }
}

// ---------------------------------------------------------------- scenario generation

fn setup_classes() -> Vec<&'static str> {
    vec!["INIT", "INIT_ACK", "COOKIE_ECHO", "COOKIE_ACK"]
}

fn single_fault_plans() -> Vec<(Plan, String)> {
    let mut v = vec![];
    let actions = |late: bool| -> Vec<(Action, &'static str)> {
        let mut a = vec![
            (Action::Drop, "drop"),
            (Action::Dup { copies: 1, delay_ms: 0 }, "dup0"),
            (Action::Dup { copies: 1, delay_ms: 60 }, "dup60"),
            (Action::Delay { ms: 120 }, "delay120"),
            (Action::SwapNext, "swap"),
        ];
        if late {
            a.push((Action::Dup { copies: 1, delay_ms: 700 }, "dup700"));
            a.push((Action::Dup { copies: 2, delay_ms: 350 }, "dup2x350"));
        }
        a
    };
    for dir in [Dir::A2B, Dir::B2A] {
        for class in setup_classes() {
            // with a = client: INIT / COOKIE-ECHO travel a->b, INIT-ACK / COOKIE-ACK b->a
            let natural = if matches!(class, "INIT" | "COOKIE_ECHO") { Dir::A2B } else { Dir::B2A };
            if dir != natural {
                continue;
            }
            for (a, an) in actions(true) {
                v.push((
                    Plan { rules: vec![Rule { dir, class: class.into(), ordinal: 0, action: a }], random: None, seed: 0 },
                    format!("{}:{}#0:{}", dir.name(), class, an),
                ));
            }
        }
        for class in ["DATA", "SACK"] {
            for ord in 0..6u32 {
                for (a, an) in actions(false) {
                    v.push((
                        Plan { rules: vec![Rule { dir, class: class.into(), ordinal: ord, action: a }], random: None, seed: 0 },
                        format!("{}:{}#{}:{}", dir.name(), class, ord, an),
                    ));
                }
            }
        }
        for (a, an) in actions(false) {
            v.push((
                Plan { rules: vec![Rule { dir, class: "HEARTBEAT".into(), ordinal: 0, action: a }], random: None, seed: 0 },
                format!("{}:HEARTBEAT#0:{}", dir.name(), an),
            ));
        }
    }
    v
}

fn random_plan(r: &mut Rng, include_setup: bool) -> Plan {
    Plan {
        rules: vec![],
        random: Some(RandomPhase {
            loss_pm: *r.pick(&[10u32, 50, 100, 200, 300]),
            dup_pm: *r.pick(&[0u32, 20, 50, 100]),
            delay_pm: *r.pick(&[0u32, 50, 150, 300]),
            max_delay_ms: *r.pick(&[5u64, 40, 150, 400]),
            packets: *r.pick(&[30u32, 80, 200]),
            include_setup,
        }),
        seed: r.next_u64(),
    }
}

fn c01_workload(r: &mut Rng, scn: &mut Scenario, total: u32) {
    let senders = *r.pick(&[1u8, 1, 1, 2, 4]);
    let mode = r.pick(&["small", "mixed", "frag", "tiny", "mixed"]).to_string();
    for side in ['a', 'b'] {
        let n_side = if side == 'a' { total } else { total / 2 + 1 };
        for s in 0..senders {
            scn.sends.push(SendSpec {
                side,
                ch: 1,
                sender: s,
                n: (n_side / senders as u32).max(1),
                mode: mode.clone(),
                seed: r.next_u64(),
                gap_us: *r.pick(&[0u64, 0, 200, 2000]),
            });
        }
    }
}

fn gen_c01(args: &Args) -> Vec<Scenario> {
    let mut rng = Rng::new(args.seed).fork(0xC01);
    let mut out = vec![];
    let mut singles = single_fault_plans();
    rng.shuffle(&mut singles);
    let take = singles.len();
    for (plan, label) in singles.into_iter().take(take) {
        let mut s = default_scn("c01", &format!("single:{label}"));
        s.plan = plan;
        s.a_is_client = true;
        c01_workload(&mut rng, &mut s, 30);
        out.push(s);
    }
    // pairs over the setup chunks (thorough)
    if args.tier == Tier::Thorough {
        let acts = [
            Action::Drop,
            Action::Dup { copies: 1, delay_ms: 0 },
            Action::Dup { copies: 1, delay_ms: 500 },
            Action::Delay { ms: 150 },
        ];
        let mut cells = vec![];
        for c1 in setup_classes() {
            let d1 = if matches!(c1, "INIT" | "COOKIE_ECHO") { Dir::A2B } else { Dir::B2A };
            cells.push((d1, c1));
        }
        for i in 0..cells.len() {
            for j in (i + 1)..cells.len() {
                for a1 in &acts {
                    for a2 in &acts {
                        let mut s = default_scn("c01", "pair");
                        s.plan = Plan {
                            rules: vec![
                                Rule { dir: cells[i].0, class: cells[i].1.into(), ordinal: 0, action: a1.clone() },
                                Rule { dir: cells[j].0, class: cells[j].1.into(), ordinal: 0, action: a2.clone() },
                            ],
                            random: None,
                            seed: 0,
                        };
                        s.label = format!("pair:{}", s.plan.signature());
                        c01_workload(&mut rng, &mut s, 20);
                        out.push(s);
                    }
                }
            }
        }
    }
    // random multi-fault histories
    let n_random = args.tier.pick(240, 12000);
    for i in 0..n_random {
        let mut s = default_scn("c01", &format!("random#{i}"));
        s.plan = random_plan(&mut rng, i % 3 == 0);
        s.a_is_client = rng.bool();
        let total = *rng.pick(&[20u32, 60, 200, 600]);
        let total = if args.tier == Tier::Quick { total.min(200) } else { total };
        c01_workload(&mut rng, &mut s, total);
        if rng.chance(1, 4) {
            s.rwnd = *rng.pick(&[16 * 1024usize, 64 * 1024]);
        }
        out.push(s);
    }
    // a partially-reliable sibling channel shares the association (abandonment / FORWARD-TSN must
    // not stall the reliable channel), and in-band channels are opened while the send buffer is full
    let n_sib = args.tier.pick(32, 1200);
    for i in 0..n_sib {
        let mut s = default_scn("c01", &format!("sibling#{i}"));
        let mut sib = reliable_chan(3);
        sib.ordered = rng.bool();
        if rng.bool() {
            sib.max_retransmits = Some(*rng.pick(&[0u16, 1, 3]));
        } else {
            sib.max_lifetime_ms = Some(*rng.pick(&[20u16, 200]));
        }
        sib.negotiated = rng.bool();
        sib.label = "sib".into();
        s.chans.push(sib);
        s.plan = if i % 4 == 0 { Plan::default() } else { random_plan(&mut rng, false) };
        for side in ['a', 'b'] {
            s.sends.push(SendSpec { side, ch: 1, sender: 0, n: 40, mode: "mixed".into(), seed: rng.next_u64(), gap_us: *rng.pick(&[0u64, 500]) });
            s.sends.push(SendSpec { side, ch: 3, sender: 0, n: 30, mode: rng.pick(&["frag", "big", "mixed"]).to_string(), seed: rng.next_u64(), gap_us: 0 });
        }
        out.push(s);
    }
    for i in 0..args.tier.pick(6, 120) {
        let mut s = default_scn("c01", &format!("inband-saturated#{i}"));
        for id in [2u16, 4, 6] {
            let mut c = reliable_chan(id);
            c.negotiated = false;
            c.creator = 'a';
            s.chans.push(c);
        }
        s.plan = if i % 2 == 0 { Plan::default() } else { random_plan(&mut rng, false) };
        // b saturates its send buffer on the negotiated channel right after Open
        s.sends.push(SendSpec { side: 'b', ch: 1, sender: 0, n: 12, mode: "big".into(), seed: rng.next_u64(), gap_us: 0 });
        s.sends.push(SendSpec { side: 'b', ch: 1, sender: 1, n: 12, mode: "big".into(), seed: rng.next_u64(), gap_us: 0 });
        s.sends.push(SendSpec { side: 'a', ch: 1, sender: 0, n: 20, mode: "small".into(), seed: rng.next_u64(), gap_us: 0 });
        for id in [2u16, 4, 6] {
            s.sends.push(SendSpec { side: 'a', ch: id, sender: 0, n: 10, mode: "small".into(), seed: rng.next_u64(), gap_us: 0 });
            s.sends.push(SendSpec { side: 'b', ch: id, sender: 0, n: 10, mode: "small".into(), seed: rng.next_u64(), gap_us: 0 });
        }
        out.push(s);
    }
    // truly parallel senders of multi-fragment messages on DIFFERENT channels of one association:
    // the fragments of a message must keep consecutive TSNs whatever the task interleaving
    for i in 0..args.tier.pick(4, 48) {
        let mut s = default_scn("c01", &format!("parallel-frag#{i}"));
        s.chans = (1..=6u16).map(reliable_chan).collect();
        s.plan = if i % 2 == 0 { Plan::default() } else { random_plan(&mut rng, false) };
        s.max_buffered = 4 * 1024 * 1024;
        for c in 1..=6u16 {
            s.sends.push(SendSpec { side: 'a', ch: c, sender: 0, n: args.tier.pick(60, 200), mode: "big".into(), seed: rng.next_u64(), gap_us: 0 });
        }
        s.sends.push(SendSpec { side: 'b', ch: 1, sender: 0, n: 20, mode: "small".into(), seed: rng.next_u64(), gap_us: 0 });
        out.push(s);
    }
    // TSN wrap (hook H1) crossed with loss
    for (i, k) in [1u32, 5, 600].into_iter().enumerate() {
        for side in 0..2 {
            for lossy in [false, true] {
                let mut s = default_scn("c01", &format!("tsnwrap:k={k},side={side},lossy={lossy}"));
                let t = 0u32.wrapping_sub(k);
                if side == 0 {
                    s.force_tsn_a = Some(t);
                } else {
                    s.force_tsn_b = Some(t);
                }
                if lossy {
                    let mut p = random_plan(&mut rng, false);
                    if let Some(rp) = p.random.as_mut() {
                        rp.loss_pm = 150;
                        rp.packets = 400;
                    }
                    s.plan = p;
                }
                let mut r2 = rng.fork(i as u64 * 7 + side as u64);
                c01_workload(&mut r2, &mut s, if k == 600 { 700 } else { 60 });
                for x in s.sends.iter_mut() {
                    x.mode = "small".into();
                }
                out.push(s);
            }
        }
    }
    out.extend(gen_close(&mut rng, "c01", args.tier.pick(6, 60)));
    out
}

/// One side closes one (or two) of several channels through the public API while the other
/// channels - stream id 0 among them - carry traffic in both directions before, during and after
/// the stream reset.  The closed channel is "reported closed"; every other channel stays under
/// the full clauses.
fn gen_close(rng: &mut Rng, kind: &str, n: u64) -> Vec<Scenario> {
    let mut out = vec![];
    for i in 0..n {
        let mut s = default_scn(kind, &format!("chan-close#{i}"));
        let survivors: Vec<u16> = if i % 3 == 2 { vec![0, 3, 7] } else { vec![0, 3] };
        let victims: Vec<u16> = if i % 4 == 3 { vec![2, 5] } else { vec![2] };
        s.chans = vec![];
        for (k, id) in survivors.iter().enumerate() {
            let mut c = reliable_chan(*id);
            if kind == "c12" && k > 0 {
                // other channel types among the survivors
                match (i + k as u64) % 4 {
                    0 => c.ordered = false,
                    1 => c.max_retransmits = Some(2),
                    2 => {
                        c.ordered = false;
                        c.max_lifetime_ms = Some(200);
                    }
                    _ => {}
                }
            }
            s.chans.push(c);
        }
        for id in &victims {
            s.chans.push(reliable_chan(*id));
        }
        s.plan = if i % 2 == 0 { Plan::default() } else { random_plan(rng, false) };
        let gap = *rng.pick(&[1500u64, 3000, 6000]);
        for id in &survivors {
            for side in ['a', 'b'] {
                s.sends.push(SendSpec { side, ch: *id, sender: 0, n: 40, mode: "small".into(), seed: rng.next_u64(), gap_us: gap });
            }
        }
        for (k, id) in victims.iter().enumerate() {
            let side = if (i + k as u64) % 2 == 0 { 'a' } else { 'b' };
            // the closer sends a few messages first, so that the reset falls into the middle of
            // the survivors' traffic; only the closer sends on the victim
            let n = *rng.pick(&[1u32, 6, 12]);
            s.sends.push(SendSpec { side, ch: *id, sender: 0, n, mode: "small".into(), seed: rng.next_u64(), gap_us: gap });
            s.closes.push((side, *id));
        }
        out.push(s);
    }
    out
}

fn all_chan_types() -> Vec<ChanSpec> {
    let mut v = vec![];
    let mut id = 0u16;
    for ordered in [true, false] {
        for (rx, life) in [(None, None), (Some(0u16), None), (Some(1), None), (Some(3), None), (None, Some(20u16)), (None, Some(200))] {
            for negotiated in [true, false] {
                id += 2;
                v.push(ChanSpec {
                    id,
                    ordered,
                    max_retransmits: rx,
                    max_lifetime_ms: life,
                    negotiated,
                    creator: 'a',
                    // label / protocol lengths from empty (a 12-byte DCEP OPEN) to long and non-ASCII
                    label: match id % 10 {
                        4 => String::new(),
                        6 => "é-ü-漢字-label".repeat(6),
                        8 => "l".repeat(255),
                        _ => format!("lbl-{id}-{}", if ordered { "o" } else { "u" }),
                    },
                    protocol: if id % 4 == 0 && id % 10 != 4 { format!("proto{id}") } else { String::new() },
                });
            }
        }
    }
    v
}

fn gen_c12(args: &Args) -> Vec<Scenario> {
    let mut rng = Rng::new(args.seed).fork(0xC12);
    let mut out = vec![];
    let types = all_chan_types();
    let n = args.tier.pick(160, 5000);
    let singles = single_fault_plans();
    for i in 0..n {
        let mut s = default_scn("c12", &format!("c12#{i}"));
        let nch = *rng.pick(&[1usize, 2, 3, 4, 8, 16]);
        let mut pool = types.clone();
        rng.shuffle(&mut pool);
        s.chans = pool.into_iter().take(nch).collect();
        // in-band ids must follow the creator's parity convention: the client uses even ids
        s.a_is_client = true;
        for c in s.chans.iter_mut() {
            if !c.negotiated {
                c.creator = 'a';
            }
        }
        s.plan = match i % 4 {
            0 => Plan::default(),
            1 => {
                let (p, l) = singles[rng.usize_below(singles.len())].clone();
                s.label = format!("c12#{i}:{l}");
                p
            }
            _ => random_plan(&mut rng, i % 8 == 3),
        };
        // duplicated COOKIE-ECHO / COOKIE-ACK / DCEP are covered by dup rules on setup classes and
        // by dup on the first DATA packets (DCEP OPEN/ACK travel as DATA)
        let senders_per = *rng.pick(&[1u8, 1, 2, 4]);
        let per = args.tier.pick(12u32, 40);
        for c in s.chans.clone() {
            for side in ['a', 'b'] {
                if rng.chance(1, 5) {
                    continue;
                }
                for snd in 0..senders_per {
                    let mode = r_mode(&mut rng, c.reliable());
                    let n = if mode == "huge" { 2 } else if mode == "big" { 4 } else { per };
                    s.sends.push(SendSpec { side, ch: c.id, sender: snd, n, mode, seed: rng.next_u64(), gap_us: *rng.pick(&[0u64, 0, 500]) });
                }
            }
        }
        if i % 3 == 1 {
            s.dup_open = 1 + (i as u32 % 3);
        }
        out.push(s);
    }
    // an ordered partially-reliable channel run over more than one lap of the 16-bit SSN space under
    // heavy loss in both directions: abandonment (FORWARD-TSN stream/SSN pairs) and the receiver's
    // reorder buffer meet the 65535 -> 0 wrap
    for i in 0..args.tier.pick(2, 8) {
        let mut s = default_scn("c12", &format!("ssnlap#{i}"));
        let mut c = reliable_chan(2);
        c.max_retransmits = Some(*rng.pick(&[0u16, 1]));
        s.chans = vec![c];
        s.plan = Plan {
            rules: vec![],
            random: Some(RandomPhase { loss_pm: *rng.pick(&[150u32, 300]), dup_pm: 20, delay_pm: 100, max_delay_ms: 30, packets: 1_000_000, include_setup: false }),
            seed: rng.next_u64(),
        };
        s.max_buffered = 1024 * 1024;
        s.tail = 0;
        s.sends.push(SendSpec { side: 'a', ch: 2, sender: 0, n: 140_000, mode: "id".into(), seed: rng.next_u64(), gap_us: 0 });
        out.push(s);
    }
    // the same with one chunk per datagram and the loss placed exactly at the wrap: the message with
    // SSN 65534 (and, in variants, its neighbours) is lost while 65535 / 0 arrive
    for (i, lost) in [vec![65534u16], vec![65533, 65534], vec![65534, 0], vec![65535], vec![65534, 1]].into_iter().enumerate() {
        if args.tier == Tier::Quick && i >= 2 {
            break;
        }
        let mut s = default_scn("c12", &format!("ssnwrap-loss#{i}"));
        let mut c = reliable_chan(2);
        c.max_retransmits = Some(0);
        s.chans = vec![c];
        s.plan = Plan {
            rules: lost.iter().map(|n| Rule { dir: Dir::A2B, class: format!("SSN=2:{n}"), ordinal: 0, action: Action::Drop }).collect(),
            random: None,
            seed: 0,
        };
        s.max_buffered = 1024 * 1024;
        s.tail = 0;
        s.sends.push(SendSpec { side: 'a', ch: 2, sender: 0, n: 135_000, mode: "one".into(), seed: rng.next_u64(), gap_us: 0 });
        out.push(s);
    }
    // explicit duplicated setup chunks with negotiated channels (Open exactly once)
    for dir in [Dir::A2B, Dir::B2A] {
        for class in ["COOKIE_ECHO", "COOKIE_ACK", "INIT", "INIT_ACK"] {
            for delay in [0u64, 80, 600] {
                let mut s = default_scn("c12", &format!("dup:{}:{}:{}ms", dir.name(), class, delay));
                s.chans = vec![reliable_chan(2), reliable_chan(4)];
                s.plan = Plan { rules: vec![Rule { dir, class: class.into(), ordinal: 0, action: Action::Dup { copies: 1, delay_ms: delay } }], random: None, seed: 0 };
                for c in [2u16, 4] {
                    for side in ['a', 'b'] {
                        s.sends.push(SendSpec { side, ch: c, sender: 0, n: 25, mode: "mixed".into(), seed: rng.next_u64(), gap_us: 20_000 });
                    }
                }
                out.push(s);
            }
        }
    }
    // lost COOKIE-ACK with early peer data: Open before the first message
    for delay in [150u64, 400] {
        let mut s = default_scn("c12", &format!("late-cookie-ack:{delay}ms"));
        s.chans = vec![reliable_chan(2)];
        s.plan = Plan { rules: vec![Rule { dir: Dir::B2A, class: "COOKIE_ACK".into(), ordinal: 0, action: Action::Delay { ms: delay } }], random: None, seed: 0 };
        for side in ['a', 'b'] {
            s.sends.push(SendSpec { side, ch: 2, sender: 0, n: 20, mode: "small".into(), seed: rng.next_u64(), gap_us: 0 });
        }
        out.push(s.clone());
        s.plan.rules[0].action = Action::Drop;
        s.label = "lost-cookie-ack".into();
        out.push(s);
    }
    if args.tier == Tier::Thorough {
        // SSN wrap: 66 000 small messages on one ordered channel
        let mut s = default_scn("c12", "ssnwrap");
        s.chans = vec![reliable_chan(2)];
        s.sends.push(SendSpec { side: 'a', ch: 2, sender: 0, n: 66_000, mode: "tiny".into(), seed: 9, gap_us: 0 });
        s.max_buffered = 1024 * 1024;
        out.push(s);
        let mut s = default_scn("c12", "ssnwrap-lossy");
        s.chans = vec![reliable_chan(2)];
        s.plan = Plan { rules: vec![], random: Some(RandomPhase { loss_pm: 30, dup_pm: 10, delay_pm: 30, max_delay_ms: 20, packets: 100_000, include_setup: false }), seed: 77 };
        s.sends.push(SendSpec { side: 'a', ch: 2, sender: 0, n: 66_000, mode: "tiny".into(), seed: 10, gap_us: 0 });
        out.push(s);
    }
    out.extend(gen_close(&mut rng, "c12", args.tier.pick(6, 60)));
    out
}

fn r_mode(r: &mut Rng, reliable: bool) -> String {
    let m = if reliable {
        r.pick(&["tiny", "small", "mixed", "frag", "big", "mixed", "huge"])
    } else {
        r.pick(&["tiny", "small", "mixed", "frag", "big", "frag", "big"])
    };
    m.to_string()
}

fn gen_c13(args: &Args) -> Vec<Scenario> {
    let mut rng = Rng::new(args.seed).fork(0xC13);
    let mut out = vec![];
    // small receive windows with a held-back early DATA packet (forces out-of-order buffering)
    for rwnd in [4096usize, 8192, 16384, 65536] {
        for burst in [0usize, 1, 2, 8] {
            for (cwnd, rto) in [(8 * 1024usize, (150u64, 80u64, 600u64)), (256 * 1024, (100, 50, 300))] {
                if args.tier == Tier::Quick && (burst == 2 || (rwnd == 16384 && cwnd == 8 * 1024)) {
                    continue;
                }
                let mut s = default_scn("c13", &format!("zwnd:rwnd={rwnd},burst={burst},cwnd={cwnd}"));
                s.rwnd = rwnd;
                s.max_burst = burst;
                s.max_cwnd = cwnd;
                s.rto_ms = rto;
                let hold_ord = rng.range(1, 3) as u32;
                s.plan = Plan {
                    rules: vec![Rule { dir: Dir::A2B, class: "DATA".into(), ordinal: hold_ord, action: Action::Delay { ms: *rng.pick(&[250u64, 500, 900]) } }],
                    random: None,
                    seed: 0,
                };
                s.sends.push(SendSpec { side: 'a', ch: 1, sender: 0, n: 40, mode: "frag".into(), seed: rng.next_u64(), gap_us: 0 });
                s.sends.push(SendSpec { side: 'b', ch: 1, sender: 0, n: 5, mode: "small".into(), seed: rng.next_u64(), gap_us: 0 });
                out.push(s);
            }
        }
    }
    // window full + SACKs withheld until T3 fires with more data queued: the retransmission burst and
    // the new data behind it must fit the advertised window together
    for rwnd in [4096usize, 8192] {
        for first in [1u32, 2] {
            for cwnd in [8 * 1024usize, 256 * 1024] {
                let mut s = default_scn("c13", &format!("sackhold:rwnd={rwnd},first={first},cwnd={cwnd}"));
                s.rwnd = rwnd;
                s.max_cwnd = cwnd;
                s.rto_ms = (150, 80, 400);
                s.plan = Plan {
                    rules: (first..first + 5)
                        .map(|o| Rule { dir: Dir::B2A, class: "SACK".into(), ordinal: o, action: Action::Drop })
                        .collect(),
                    random: None,
                    seed: 0,
                };
                s.sends.push(SendSpec { side: 'a', ch: 1, sender: 0, n: 40, mode: "frag".into(), seed: rng.next_u64(), gap_us: 0 });
                out.push(s);
            }
        }
    }
    // quiescence: deliver everything, then idle for several heartbeat intervals
    for hb in [150u64, 300] {
        for lossy in [false, true] {
            let mut s = default_scn("c13", &format!("idle:hb={hb},lossy={lossy}"));
            s.hb_ms = hb;
            s.idle_ms = hb * 5;
            if lossy {
                let mut p = random_plan(&mut rng, false);
                if let Some(rp) = p.random.as_mut() {
                    rp.packets = 60;
                }
                s.plan = p;
            }
            s.sends.push(SendSpec { side: 'a', ch: 1, sender: 0, n: 40, mode: "mixed".into(), seed: rng.next_u64(), gap_us: 0 });
            s.sends.push(SendSpec { side: 'b', ch: 1, sender: 0, n: 40, mode: "small".into(), seed: rng.next_u64(), gap_us: 0 });
            out.push(s);
        }
    }
    // bulk transfers that straddle the 32-bit TSN wrap under loss: retransmission timers, fast
    // retransmit and the cumulative-ack sweep all work on a queue whose numeric order is not its
    // serial order
    for i in 0..args.tier.pick(16, 96) {
        let k = [2u32, 7, 40, 300][(i % 4) as usize];
        let mut s = default_scn("c13", &format!("tsnwrap-bulk:k={k}#{i}"));
        let t = 0u32.wrapping_sub(k);
        if i % 2 == 0 {
            s.force_tsn_a = Some(t);
        } else {
            s.force_tsn_b = Some(t);
        }
        let mut p = random_plan(&mut rng, false);
        if let Some(rp) = p.random.as_mut() {
            rp.loss_pm = *rng.pick(&[100u32, 200, 300]);
            rp.packets = 600;
        }
        s.plan = p;
        s.rto_ms = (100, 50, 300);
        for side in ['a', 'b'] {
            s.sends.push(SendSpec { side, ch: 1, sender: 0, n: 120, mode: "small".into(), seed: rng.next_u64(), gap_us: *rng.pick(&[0u64, 300]) });
        }
        out.push(s);
    }
    // a sample of the C01 / C12 workloads and fault histories
    let mut c01 = gen_c01(args);
    rng.shuffle(&mut c01);
    for mut s in c01.into_iter().take(args.tier.pick(120, 3000)) {
        s.kind = "c13".into();
        out.push(s);
    }
    let mut c12 = gen_c12(args);
    rng.shuffle(&mut c12);
    for mut s in c12.into_iter().filter(|s| s.label != "ssnwrap" && s.label != "ssnwrap-lossy").take(args.tier.pick(60, 1500)) {
        s.kind = "c13".into();
        out.push(s);
    }
    out
}

// ---------------------------------------------------------------- driver

fn norm_hash(s: &Scenario) -> u64 {
    hash_value(&s.to_json())
}

pub fn run(args: &Args) -> i32 {
    crate::rig::install_tap();
    let prop = args.prop.clone();
    let (level, rule) = match prop.as_str() {
        "C01" => ("fault_enumeration",
            "scenario = fault plan (all single faults on setup chunks / first 6 DATA / first 6 SACK / HEARTBEAT of both directions, setup pairs in thorough, random multi-fault histories, TSN wrap via hook H1) x workload; non-trivial = a fault fired AND the wire shows a retransmitted TSN or re-sent setup chunk; distinct = hash of the scenario JSON"),
        "C12" => ("fault_enumeration",
            "scenario = 1..16 channels of every type (reliable/rexmit/timed x ordered/unordered x negotiated/in-band) x 1..4 sender tasks per side and channel x sizes 0..256KiB x fault plan; non-trivial = (>=2 channels or >=3 sender tasks) AND >=1 fragmented message AND a fault fired"),
        _ => ("fault_enumeration",
            "scenario = dedicated small-window / idle workloads plus a sample of the C01/C12 fault histories; non-trivial = a_rwnd < 1200 observed by a sender, or >=1 retransmission on the wire, or an idle period >= 3 heartbeat intervals after full acknowledgement"),
    };
    let mut report = Report::new(args, level, rule);
    report.assume("the wire is the only network between the two endpoints; faults are applied to whole datagrams");
    report.assume("DTLS handshake datagrams are never faulted in this engine (C11 does that)");
    report.assume("bounded progress is decided by logical stall witnesses (DESIGN.md 2.3); watchdog expiry is inconclusive");
    let scenarios: Vec<Scenario> = if let Some(p) = &args.replay {
        match load_replay(p) {
            Some(v) => (0..5).map(|_| Scenario::from_json(&v)).collect(),
            None => {
                eprintln!("cannot read replay {}", p.display());
                return 2;
            }
        }
    } else {
        match prop.as_str() {
            "C01" => gen_c01(args),
            "C12" => gen_c12(args),
            _ => gen_c13(args),
        }
    };
    let mut scenarios = scenarios;
    if let Some(f) = args.opt("--only") {
        scenarios.retain(|s| s.label.contains(&f));
    }
    if let Some(n) = args.opt("--limit").and_then(|s| s.parse::<usize>().ok()) {
        scenarios.truncate(n);
    }
    let verbose = args.has_flag("--verbose");
    let watchdog = Duration::from_secs(args.tier.pick(60, 180));
    let concurrency = args
        .opt("--jobs")
        .and_then(|s| s.parse().ok())
        .unwrap_or(args.tier.pick(48usize, 64));
    let rt = build_runtime(16);
    let results: Vec<Outcome> = rt.block_on(async move {
        let sem = Arc::new(tokio::sync::Semaphore::new(concurrency));
        let mut handles = vec![];
        for s in scenarios {
            let sem = sem.clone();
            handles.push(tokio::spawn(async move {
                let _p = sem.acquire().await.unwrap();
                let heavy = s.sends.iter().map(|x| x.n as u64).sum::<u64>() > 20_000;
                let wd = if heavy { watchdog * 4 } else { watchdog };
                run_scenario(&s, wd).await
            }));
        }
        let mut outs = vec![];
        for h in handles {
            if let Ok(o) = h.await {
                outs.push(o);
            }
        }
        outs
    });
    let panics = take_panics();
    for o in &results {
        let sj = o.scn.to_json();
        if verbose {
            if o.end != EndReason::Complete {
                for c in &o.scn.chans {
                    for side in ['a', 'b'] {
                        let peer = if side == 'a' { 'b' } else { 'a' };
                        let sub = o.submits.iter().filter(|s| s.side == side && s.ch == c.id).count();
                        let ok = o.submits.iter().filter(|s| s.side == side && s.ch == c.id && s.ok).count();
                        let pending = o.submits.iter().filter(|s| s.side == side && s.ch == c.id && s.ret.is_none()).count();
                        let del = delivered(o, peer, c.id).len();
                        let evs: Vec<String> = o.chans.iter().filter(|x| x.side == side && x.id == c.id).map(|x| format!("{}ev/inband={}/open={}", x.events.len(), x.inband_peer, x.events.iter().any(|e| matches!(e, ChEv::Open)))).collect();
                        println!("   ch={} ord={} rel={} neg={} {}->: sub={} ok={} pending={} delivered={} objs@{}={:?}", c.id, c.ordered, c.reliable(), c.negotiated, side, sub, ok, pending, del, side, evs);
                    }
                }
            }
            if o.end != EndReason::Complete && std::env::var("RTCMON_DEBUG").is_ok() {
                let fname = format!("/tmp/scn_{}.json", o.scn.label.replace(|c: char| !c.is_ascii_alphanumeric(), "_"));
                let _ = std::fs::write(&fname, serde_json::to_string_pretty(&json!({"scenario": sj})).unwrap());
                let n = o.wire.len();
                for c in o.wire.iter().filter(|c| c.sctp.as_ref().map(|p| !p.has(4) && !p.has(5)).unwrap_or(false)).skip(n.saturating_sub(n)) {
                    println!("   wire t={} {} {} fault={:?}", c.t_us, c.dir.name(), c.sctp.as_ref().map(|p| p.summary()).unwrap_or_else(|| format!("{:?}", c.kind)), c.fault);
                }
            }
            if matches!(o.end, EndReason::StallRetry(_)) && std::env::var("RTCMON_DEBUG").is_ok() {
                for (side, tap) in [('a', &o.tap_a), ('b', &o.tap_b)] {
                    let n = tap.len();
                    for e in tap.iter().skip(n.saturating_sub(12)) {
                        println!("   tap {side} t={} {} {}", e.t_us, if e.tx { "TX" } else { "RX" }, e.pkt.summary().chars().take(160).collect::<String>());
                    }
                }
            }
            println!("scenario {:40} end={:?} wall={}ms fired={:?} rnd={} sub={} wire={} lag={}ms", o.scn.label, o.end, o.wall_ms, o.rules_fired, o.random_faults, o.submits.len(), o.wire.len(), o.canary_max_lag_ms);
        }
        let (verdict, nontrivial) = match prop.as_str() {
            "C01" => oracle_c01(o),
            "C12" => oracle_c12(o),
            _ => {
                let (v, n, counters) = oracle_c13(o);
                for (k, c) in counters {
                    report.count(&k, c);
                }
                (v, n)
            }
        };
        report.count(&format!("end:{:?}", std::mem::discriminant(&o.end)).replace("Discriminant", ""), 0);
        report.count(
            match &o.end {
                EndReason::Complete => "end_complete",
                EndReason::Closed => "end_closed",
                EndReason::StallRetry(_) => "end_stall_retry",
                EndReason::StallQuiet(_) => "end_stall_quiet",
                EndReason::Watchdog => "end_watchdog",
                EndReason::Setup => "end_setup_error",
            },
            1,
        );
        report.count("wire_datagrams", o.wire.len() as u64);
        report.count("sctp_packets_parsed", o.wire.iter().filter(|c| c.sctp.is_some()).count() as u64);
        report.count("submitted_messages", o.submits.len() as u64);
        report.count(
            "delivered_messages",
            o.chans.iter().map(|c| c.events.iter().filter(|e| matches!(e, ChEv::Msg { .. })).count() as u64).sum(),
        );
        report.count("enumerated_rules_fired", o.rules_fired.len() as u64);
        report.count("random_faults_fired", o.random_faults);
        report.count("tap_events", (o.tap_a.len() + o.tap_b.len()) as u64);
        for r in &o.rules_fired {
            // distinct fault rule classes that really fired
            let short: String = r.split(':').take(2).collect::<Vec<_>>().join(":");
            report.seen("rules_fired", short);
        }
        for c in o.wire.iter().filter_map(|c| c.sctp.as_ref()) {
            for k in &c.chunks {
                report.seen("chunk_types_on_wire", k.name());
            }
        }
        if report.samples.len() < 4 && (!o.rules_fired.is_empty() || o.random_faults > 0) {
            report.sample(json!({"label": o.scn.label, "plan": o.scn.plan.to_json(), "rules_fired": o.rules_fired,
                "random_faults": o.random_faults, "end": format!("{:?}", o.end), "submitted": o.submits.len(),
                "wire_head": wire_excerpt(o, 8), "wall_ms": o.wall_ms}));
        }
        let nt = if nontrivial { Some(norm_hash(&o.scn)) } else { None };
        report.record(&sj, nt, verdict);
    }
    // any panic inside rustrtc tasks during these runs is reported (C07 owns totality, but a panic
    // here invalidates the histories): count it and make the run inconclusive-visible
    if !panics.is_empty() {
        report.note(format!("{} panic(s) recorded during the run; first: {} at {}", panics.len(), panics[0].message, panics[0].location));
        report.count("panics_recorded", panics.len() as u64);
    }
    let min = if args.replay.is_some() { 1 } else { 10 };
    report.finish(min, 2)
}
